"""C11 -- cotengra's matmul-based einsum and tensordot agree with the reference.

Lean side (Props/C11.lean): for every equation / positive size assignment / arrays, the plan of the
model planner `parseBmm`, run by the model of `_do_contraction_via_bmm` over a functional model of
numpy's transpose / reshape / matmul / multiply / sum / advanced indexing, is defined at every step
and equals the reference einsum (`model_plan_sound`, `single_plan_sound`); HEAD's transpose shortcut
is right exactly under `ShortcutSafe` (`head_plan_sound_partial`, `head_plan_counterexample`).

Tie, on every run:
  (E)  real plan of `_parse_eq_to_batch_matmul` / `_parse_einsum_single` /
       `_parse_tensordot_axes_to_matmul` / `_sanitize_equation`  ==  plan of the Lean model, over the
       *enumerated* space of the property (all equations up to renaming x all shapes from {1,2,3} x
       every output order; every tensordot axes form);
  (A)  every real plan is run through the Lean checker `planOK`, proved sound (`planOK_sound`): an
       accepted plan is correct for ALL arrays of the shapes, whether or not it equals the model's
       (so a harmless rewrite of the planner stays quiet and is still covered by the theorem); a
       rejected plan is evaluated by the Lean array semantics on the case's arrays and must give
       the Lean reference value, and is counted separately;
  (M)  the Lean model of numpy is validated: Lean-evaluated plan value and Lean reference value
       versus the real result and harness/refimpl.dense_einsum on integer arrays.
Oracle (implementation only): real `contract.einsum` / `contract.tensordot` / `_einsum_single`
(three-step path forced through a backend without einsum) on integer arrays == refimpl.dense_einsum
(exact, python ints).
"""

import itertools
import sys

import numpy as np
import autoray as ar

import cotengra  # noqa: F401  (harness.common put /repo first on sys.path)

cmod = sys.modules["cotengra.contract"]

from . import refimpl

PROP = "C11"
LEVEL = "proof"
LEVEL_TEXT = (
    "Lean 4 theorems, for every one- and two-operand equation (repeated labels, batch, Hadamard, outer, "
    "size-1 dimensions, any output order), every positive size assignment and all arrays: the model of "
    "_parse_eq_to_batch_matmul/_parse_eq_to_pure_multiplication/_parse_einsum_single returns a plan, every "
    "transpose/reshape/matmul/multiply/sum/advanced-index step of the model of _do_contraction_via_bmm/"
    "_einsum_single on it is defined, and the result equals the reference einsum entry by entry "
    "(model_plan_sound, single_plan_sound); for the code at HEAD the same under the exact guard ShortcutSafe, "
    "with a proved counterexample outside it; a decidable checker planOK is proved sound (planOK_sound: an "
    "accepted plan is correct for all arrays) and is run on every plan the real planner returns over the "
    "enumerated space of the property, together with plan equality against the model; tensordot's equation is "
    "proved well formed; the array model is tied to numpy by exact comparison on integer arrays."
)
LEVEL_NOTE = (
    "Trusted: Lean kernel; Model/FArr.lean as a model of numpy (validated on integer arrays every run); the "
    "hand-written planner model (validated by plan equality on the enumerated equations only); harness "
    "canonicalisation. Sizes >= 1 only; autoray dispatch, lru_cache and numpy.einsum itself are not modelled."
)
TECHNIQUE = ("Lean 4 proof (denotational 'labelled array' invariant through every numpy primitive, mixed-radix "
             "and sum-reordering lemmas) + exhaustive plan-equality correspondence + exact differential oracle")
LEAN_MODULES = ["CotengraVerif.Props.C11"]
THEOREMS = [
    "Cotengra.C11.single_plan_sound",
    "Cotengra.C11.model_plan_sound",
    "Cotengra.C11.head_plan_sound_partial",
    "Cotengra.C11.head_plan_sound_nodup",
    "Cotengra.C11.head_plan_counterexample",
    "Cotengra.C11.plan_groups_partition",
    "Cotengra.C11.perm_is_perm",
    "Cotengra.C11.tensordot_eq_wellformed",
    "Cotengra.C11.tensordot_plan_sound",
    "Cotengra.C11.planOK_sound",
]
TRUSTED = [
    "Lean 4.33 kernel; axioms ⊆ {propext, Classical.choice, Quot.sound}",
    "Model/FArr.lean: functional model of numpy transpose/reshape/matmul/multiply/sum/advanced indexing and "
    "the reference einsum -- validated every run against numpy and refimpl.dense_einsum on integer arrays",
    "Model/Bmm.lean: hand transcription of contract.py:37-521, tied by plan equality on the enumerated space",
    "harness canonicalisation of plans (strings -> code points, tuples -> lists, slices -> null)",
]
ASSUMPTIONS = [
    "dimensions >= 1 (theorems); dims from {1,2,3} (enumeration)",
    "numpy backend; integer arrays (exact arithmetic); lru_cache wrappers and autoray dispatch not modelled",
    "two-operand output: duplicate-free, drawn from the operands' labels (what numpy.einsum accepts)",
]
RULE = ("enumeration, canonical up to renaming (restricted-growth strings over the concatenated operands): all "
        "two-operand equations with <= K symbols and operand rank <= R x every duplicate-free output in every "
        "order x every shape assignment from {1,2,3}; all one-operand terms likewise; tensordot over all rank "
        "pairs, shapes and axes forms (int, numpy int, sequences, negative, int pair). quick: K=3,R=3 complete "
        "+ seeded sample of K=4; thorough: K=4,R=3 complete + sample of K=5,R=4. non-trivial = >= 3 axes in "
        "total and a contracted, repeated, batch or size-1 label")
BUDGET = {"quick": 600, "thorough": 3000}

A0 = 97  # ord('a')


# ----------------------------------------------------------------------------------------------
# enumeration helpers

def rgs(n, kmax):
    """restricted growth strings of length n with at most kmax distinct values"""
    def go(prefix, m):
        if len(prefix) == n:
            yield tuple(prefix)
            return
        for v in range(min(m + 1, kmax)):
            prefix.append(v)
            yield from go(prefix, max(m, v + 1))
            prefix.pop()
    yield from go([], 0)


def equations2(K, R):
    for la in range(R + 1):
        for lb in range(R + 1):
            for s in rgs(la + lb, K):
                yield s[:la], s[la:]


def all_outputs(syms):
    for r in range(len(syms) + 1):
        yield from itertools.permutations(syms, r)


def cps(t):
    return [A0 + i for i in t]


def txt(t):
    return "".join(chr(A0 + i) for i in t)


def eq2(a, b, out):
    return f"{txt(a)},{txt(b)}->{txt(out)}"


# ----------------------------------------------------------------------------------------------
# canonical forms

def canon_prep(e):
    if e is None:
        return None
    if isinstance(e, tuple):
        return {"perm": [int(v) for v in e]}
    t, d = e.split("->")
    return {"eins": [[ord(c) for c in t], [ord(c) for c in d]]}


def olist(x):
    return None if x is None else [int(v) for v in x]


def canon_plan(p):
    ea, eb, sa, sb, sab, perm, pure = p
    return {"eq_a": canon_prep(ea), "eq_b": canon_prep(eb), "new_shape_a": olist(sa),
            "new_shape_b": olist(sb), "new_shape_ab": olist(sab), "perm_ab": olist(perm),
            "pure": bool(pure)}


def canon_single(p):
    d, s, pm = p

    def sel(t):
        return [None if isinstance(e, slice) else len(e) for e in t]
    return {"diag": None if d is None else [sel(t) for t in d], "sum": olist(s), "perm": olist(pm)}


def real_plan2(eq, sa, sb):
    try:
        return canon_plan(cmod._parse_eq_to_batch_matmul(eq, tuple(sa), tuple(sb)))
    except ValueError:
        return None


def shortcut_variant():
    """which of the two model variants the code under /repo implements: decided by its behaviour on
    the witness aab,bc->ac (HEAD returns the 2-tuple (0, 2) for the rank-3 operand)."""
    try:
        p = cmod._parse_eq_to_batch_matmul("aab,bc->ac", (2, 2, 3), (3, 2))
    except Exception:
        return "head"
    return "head" if isinstance(p[0], tuple) and len(p[0]) != 3 else "fixed"


def plan_has_bad_shortcut(plan, ra, rb):
    if plan is None:
        return False
    for e, r in ((plan["eq_a"], ra), (plan["eq_b"], rb)):
        if e is not None and "perm" in e and len(e["perm"]) != r:
            return True
    return False


# ----------------------------------------------------------------------------------------------
# reference

def ref_einsum(inputs, output, sizes, arrays):
    oshape, res = refimpl.dense_einsum([list(t) for t in inputs], list(output), sizes, arrays)
    ref = np.zeros(oshape, dtype=np.int64)
    for k, v in res.items():
        ref[k] = v
    return ref


def same(val, ref):
    try:
        v = np.asarray(val)
    except Exception:
        return False
    return v.shape == ref.shape and bool(np.array_equal(v.astype(object), ref.astype(object)))


def flat(x):
    return [int(v) for v in np.asarray(x).ravel()]


class Wrap:
    """array type of a backend that has no einsum: forces `_einsum_single` down its own
    diagonal / sum / transpose path (contract.py:346-364)."""

    def __init__(self, a):
        self.a = a

    @property
    def shape(self):
        return self.a.shape

    def __getitem__(self, k):
        return Wrap(self.a[k])


Wrap.__module__ = "c11noeinsum"


def _no_einsum(*a, **k):
    raise ImportError("this backend has no einsum")


ar.register_function("c11noeinsum", "einsum", _no_einsum)
ar.register_function("c11noeinsum", "sum", lambda x, axis=None: Wrap(np.sum(x.a, axis=axis)))
ar.register_function("c11noeinsum", "transpose", lambda x, perm=None: Wrap(np.transpose(x.a, perm)))


def rand_array(rs, shape):
    return rs.integers(-3, 4, size=tuple(shape), dtype=np.int64)


# ----------------------------------------------------------------------------------------------
# executing one case on the real code (used by run, search and replay)

def run_real(case):
    """returns (ok, detail, signature-class). `case` is self-contained JSON."""
    kind = case["kind"]
    if kind == "einsum2":
        xa = np.array(case["a"], dtype=np.int64).reshape(case["shape_a"])
        xb = np.array(case["b"], dtype=np.int64).reshape(case["shape_b"])
        A, B, O = case["terms"]
        sizes = {}
        for t, sh in ((A, case["shape_a"]), (B, case["shape_b"])):
            for i, d in zip(t, sh):
                sizes[i] = max(sizes.get(i, 1), d)
        if case.get("broadcast"):
            ref = np.einsum(case["eq_explicit"], xa, xb)   # numpy is the only reference with broadcasting
        else:
            ref = ref_einsum([A, B], O, sizes, [xa, xb])
        try:
            val = cmod.einsum(case["eq"], xa, xb)
        except Exception as e:
            return False, f"{type(e).__name__}: {e}", type(e).__name__
        return (same(val, ref), "wrong value", "wrong-value")
    if kind in ("einsum1", "single3"):
        x = np.array(case["x"], dtype=np.int64).reshape(case["shape"])
        T, O = case["terms"]
        sizes = dict(zip(T, case["shape"]))
        ref = ref_einsum([T], O, sizes, [x])
        try:
            if kind == "einsum1":
                val = cmod.einsum(case["eq"], x)
            else:
                val = cmod._einsum_single(case["eq"], Wrap(x)).a
        except Exception as e:
            return False, f"{type(e).__name__}: {e}", type(e).__name__
        return (same(val, ref), "wrong value", "wrong-value")
    if kind == "tensordot":
        xa = np.array(case["a"], dtype=np.int64).reshape(case["shape_a"])
        xb = np.array(case["b"], dtype=np.int64).reshape(case["shape_b"])
        axes = decode_axes(case["axes"])
        A, B, O = case["terms"]
        sizes = {}
        for t, sh in ((A, case["shape_a"]), (B, case["shape_b"])):
            sizes.update(zip(t, sh))
        ref = ref_einsum([A, B], O, sizes, [xa, xb])
        try:
            val = cmod.tensordot(xa, xb, axes)
        except Exception as e:
            return False, f"{type(e).__name__}: {e}", type(e).__name__
        return (same(val, ref), "wrong value", "wrong-value")
    if kind == "tensordot-highrank":
        xa = np.array(case["a"], dtype=np.int64).reshape(case["shape_a"])
        xb = np.array(case["b"], dtype=np.int64).reshape(case["shape_b"])
        axa, axb = case["axes"]
        ref = np.tensordot(xa, xb, axes=(axa, axb))
        try:
            val = cmod.tensordot(xa, xb, (axa, axb))
        except Exception as e:
            return False, f"{type(e).__name__}: {e}", type(e).__name__
        return (val.shape == ref.shape and bool(np.array_equal(val, ref)), "wrong value", "wrong-value")
    raise ValueError(kind)


def decode_axes(spec):
    form, v = spec
    if form == "pyint":
        return int(v)
    if form == "npint":
        return np.int64(v)
    if form == "tuples":
        return (tuple(v[0]), tuple(v[1]))
    if form == "lists":
        return [list(v[0]), list(v[1])]
    if form == "arrays":
        return (np.array(v[0], dtype=np.int64), np.array(v[1], dtype=np.int64))
    if form == "intpair":
        return (int(v[0]), int(v[1]))
    raise ValueError(form)


# ----------------------------------------------------------------------------------------------
# two operands

def features2(a, b, out, sz):
    f = []
    if any(a.count(i) > 1 for i in a) or any(b.count(i) > 1 for i in b):
        f.append("repeated")
    sa, sb, so = set(a), set(b), set(out)
    if sa & sb & so:
        f.append("batch")
    if (sa & sb) - so:
        f.append("contracted")
    if not (sa & sb):
        f.append("outer")
    if any(sz[i] == 1 for i in sz):
        f.append("size1")
    if (sa - sb - so) or (sb - sa - so):
        f.append("summed-one-side")
    if not a or not b:
        f.append("scalar-operand")
    return f


def check_equation2(ctx, drv, st, a, b, out, shape_assignments):
    """one equation, many shape assignments (each a tuple of dims per symbol)."""
    syms = sorted(set(a) | set(b))
    A, B, O = cps(a), cps(b), cps(out)
    eq = eq2(a, b, out)
    shapes = [[[dm[syms.index(i)] for i in a], [dm[syms.index(i)] for i in b]] for dm in shape_assignments]
    resp = drv.call("c11.plans", a=A, b=B, out=O, shapes=shapes)
    if "error" in resp:
        ctx.corr_broken("driver error in c11.plans: " + resp["error"], {"eq": eq})
        return
    # one assignment per equation gets the Lean evaluation as well (validates the numpy model)
    lean_eval_at = st["rs"].integers(0, len(shapes))
    todo = []
    for k, ((sa, sb), row) in enumerate(zip(shapes, resp["plans"])):
        dm = shape_assignments[k]
        sz = dict(zip(syms, dm))
        feats = features2(a, b, out, sz)
        for f in feats:
            ctx.count("feature:" + f)
        real = real_plan2(eq, sa, sb)
        ctx.count("path:" + ("error" if real is None else "pure-multiply" if real["pure"] else "bmm"))
        if real is not None:
            for key in ("eq_a", "eq_b"):
                e = real[key]
                ctx.count("prep:" + ("none" if e is None else "transpose" if "perm" in e else "einsum"))
            ctx.count("reshape_ab:" + str(real["new_shape_ab"] is not None))
            ctx.count("perm_ab:" + str(real["perm_ab"] is not None))
        xa, xb = rand_array(st["rs"], sa), rand_array(st["rs"], sb)
        case = {"kind": "einsum2", "eq": eq, "terms": [list(a), list(b), list(out)], "shape_a": sa,
                "shape_b": sb, "a": flat(xa), "b": flat(xb)}
        nontrivial = len(a) + len(b) >= 3 and bool(set(feats) & {"contracted", "repeated", "batch", "size1"})
        ctx.case(case, nontrivial=nontrivial, sample=nontrivial and "repeated" in feats and "batch" in feats)
        # --- implementation-side oracle -------------------------------------------------------
        ok, detail, cls = run_real(case)
        if not ok:
            if plan_has_bad_shortcut(real, len(a), len(b)):
                cls = "transpose-shortcut-on-repeated-index"
            ctx.count("oracle_fail:" + cls)
            ctx.violation({"site": "contract.einsum/2", "class": cls}, case,
                          f"contract.einsum({eq!r}) on shapes {tuple(sa)},{tuple(sb)}: {detail}")
            continue
        todo.append((k, sa, sb, row, real, case, xa, xb))
    if not todo:
        return
    # --- (A) the verified checker on the real plans: accepted => correct for ALL arrays -----------
    rok = drv.call("c11.planok", a=A, b=B, out=O,
                   cases=[{"shape_a": sa, "shape_b": sb, "plan": real} for _, sa, sb, _, real, _, _, _ in todo])
    if "error" in rok:
        ctx.corr_broken("driver error in c11.planok: " + rok["error"], {"eq": eq})
        return
    for (k, sa, sb, row, real, case, xa, xb), accepted in zip(todo, rok["ok"]):
        ctx.traces += 1
        model = row[st["variant"]]
        if real != model:
            ctx.count("plan_differs_from_model")
        if accepted is True:
            ctx.count("planOK_accepted")
        need_eval = (k == lean_eval_at) or accepted is not True
        if need_eval:
            payload = dict(a=A, b=B, out=O, shape_a=sa, shape_b=sb, data_a=case["a"], data_b=case["b"])
            if real is not None:
                payload["plan"] = real
            r2 = drv.call("c11.eval2", **payload)
            val = np.asarray(cmod.einsum(eq, xa, xb))
            want = {"shape": list(val.shape), "data": flat(val)}
            ctx.count("lean_eval2")
            if "error" in r2 or r2.get("spec") != want:
                ctx.corr_broken("Lean reference einsum2 differs from the real result", case)
            elif r2.get("value") != want:
                ctx.corr_broken("the real plan, evaluated by the Lean array semantics, does not give the "
                                "real result", {"case": case, "real_plan": real, "model_plan": model})
            elif accepted is not True:
                # correct on these arrays but outside what planOK can certify: not covered by the proof
                st["admitted"] += 1
                ctx.count("planOK_rejected_but_evaluates_correctly")


def run_two_operand(ctx, drv, st, K, R, complete, reserve=20, sample_eqs=None, n_outs=6, n_assign=8):
    """complete: every output and every size assignment of every equation; otherwise a seeded sample of
    equations (all of them if sample_eqs is None), outputs and assignments.  Stops when less than `reserve`
    seconds of the budget are left."""
    all_dims = {k: list(itertools.product((1, 2, 3), repeat=k)) for k in range(K + 1)}
    eqs = list(equations2(K, R))
    if not complete:
        ctx.rng.shuffle(eqs)
        if sample_eqs is not None:
            eqs = eqs[:sample_eqs]
    done = 0
    for a, b in eqs:
        if ctx.time_left() < reserve:
            if complete:
                st["truncated"] = True
            break
        syms = sorted(set(a) | set(b))
        outs = list(all_outputs(syms))
        dims = all_dims[len(syms)]
        if not complete:
            outs = ctx.rng.sample(outs, min(len(outs), n_outs))
        for out in outs:
            if complete:
                assign = dims
            else:
                assign = ctx.rng.sample(dims, min(len(dims), n_assign))
            check_equation2(ctx, drv, st, a, b, out, assign)
        done += 1
    return done, len(eqs)


# ----------------------------------------------------------------------------------------------
# one operand

def check_single(ctx, drv, st, t, out, shape_assignments):
    syms = sorted(set(t))
    T, O = cps(t), cps(out)
    eq = f"{txt(t)}->{txt(out)}"
    for dm in shape_assignments:
        sz = dict(zip(syms, dm))
        sh = [sz[i] for i in t]
        x = rand_array(st["rs"], sh)
        base = {"eq": eq, "terms": [list(t), list(out)], "shape": sh, "x": flat(x)}
        rep = any(t.count(i) > 1 for i in t)
        ctx.case(dict(base, kind="single3"), nontrivial=len(t) >= 2 and (rep or len(out) < len(syms)),
                 sample=False)
        ctx.count("single:" + ("diag" if rep else "nodiag") + ("+sum" if len(out) < len(syms) else ""))
        bad = False
        forms = [eq]
        if list(out) == sorted(i for i in set(t) if t.count(i) == 1) and t:
            forms.append(txt(t))     # the same equation with its output left implicit
            ctx.count("single:implicit-output-form")
        for eqf in forms:
            for kind in ("single3", "einsum1"):
                c1 = dict(base, kind=kind, eq=eqf)
                ok, detail, cls = run_real(c1)
                if not ok:
                    bad = True
                    ctx.violation({"site": "contract.einsum/1" if kind == "einsum1" else "_einsum_single 3-step",
                                   "class": cls, "implicit": "->" not in eqf}, c1,
                                  f"{kind} {eqf!r} on shape {tuple(sh)}: {detail}")
        if bad:
            continue
        ctx.traces += 1
        try:
            real = canon_single(cmod._parse_einsum_single(eq, tuple(sh)))
        except ValueError:
            real = None
        resp = drv.call("c11.single", lhs=T, out=O, shape=sh, data=base["x"])
        val = np.asarray(cmod._einsum_single(eq, Wrap(x)).a)
        want = {"shape": list(val.shape), "data": flat(val)}
        if "error" in resp or resp.get("plan") != real:
            ctx.corr_broken("_parse_einsum_single differs from the model", {"case": base, "real": real,
                                                                           "model": resp.get("plan")})
        elif resp.get("spec") != want or resp.get("value") != want:
            ctx.corr_broken("Lean three-step evaluation / reference einsum1 differs from the real result", base)


def run_single(ctx, drv, st, K, L, complete):
    all_dims = {k: list(itertools.product((1, 2, 3), repeat=k)) for k in range(K + 1)}
    for n in range(L + 1):
        for t in rgs(n, K):
            if ctx.time_left() < 20:
                st["truncated"] = True
                return
            syms = sorted(set(t))
            for out in all_outputs(syms):
                dims = all_dims[len(syms)]
                if not complete and len(dims) > 9:
                    dims = ctx.rng.sample(dims, 9)
                check_single(ctx, drv, st, t, out, dims)


# ----------------------------------------------------------------------------------------------
# `_sanitize_equation` and the string front of the two-operand form

def run_sanitize(ctx, drv, st):
    pool = ["ab,bc->ac", "ab,bc", "ba", "b a -> a b", " a b , b c ", "aab", "abc,cb", "a,a", "a,a->",
            "ab...", "...a->a", "a->b->c", "ab,ba->", "zyx", "ca,ab", "Ab,bA", "", "->", "a->a"]
    for _ in range(60):
        n = ctx.rng.randrange(1, 3)
        terms = ["".join(ctx.rng.choice("abcA") for _ in range(ctx.rng.randrange(0, 4))) for _ in range(n)]
        s = ",".join(terms)
        if ctx.rng.random() < 0.4:
            s += "->" + "".join(ctx.rng.sample(sorted(set(s.replace(",", ""))), k=min(2, len(set(s.replace(",", ""))))))
        if ctx.rng.random() < 0.3:
            s = " ".join(s)
        pool.append(s)
    for s in pool:
        try:
            lhs, out = cmod._sanitize_equation(s)
            real = {"lhs": [ord(c) for c in lhs], "out": [ord(c) for c in out]}
        except NotImplementedError:
            real = {"err": "NotImplementedError"}
        except ValueError:
            real = {"err": "ValueError"}
        resp = drv.call("c11.sanitize", eq=[ord(c) for c in s])
        ctx.count("sanitize:" + ("implicit" if "->" not in s else "explicit") + (":err" if "err" in real else ""))
        ctx.traces += 1
        if resp != real:
            ctx.corr_broken("_sanitize_equation differs from the model", {"eq": s, "real": real, "model": resp})


def run_string_forms(ctx, st):
    """two-operand equations written the way numpy accepts them: implicit output, spaces."""
    forms = [("ab,bc", "ab,bc->ac", (2, 3), (3, 2)), ("ba,ac", "ba,ac->bc", (2, 3), (3, 2)),
             ("ab , bc -> ac", "ab,bc->ac", (2, 3), (3, 2)), ("a,a", "a,a->", (3,), (3,)),
             ("ab,ab", "ab,ab->", (2, 3), (2, 3)), ("a,b", "a,b->ab", (2,), (3,)),
             ("cb,ba", "cb,ba->ac", (2, 3), (3, 2)), ("b,a", "b,a->ab", (2,), (3,))]
    for eq, explicit, sa, sb in forms:
        xa, xb = rand_array(st["rs"], sa), rand_array(st["rs"], sb)
        lhs, o = explicit.split("->")
        ta, tb = lhs.split(",")
        case = {"kind": "einsum2", "eq": eq, "terms": [[ord(c) - A0 for c in ta], [ord(c) - A0 for c in tb],
                                                      [ord(c) - A0 for c in o]],
                "shape_a": list(sa), "shape_b": list(sb), "a": flat(xa), "b": flat(xb)}
        ctx.case(case, nontrivial=False, sample=False)
        ctx.count("string_form:" + ("implicit" if "->" not in eq else "spaces"))
        ok, detail, cls = run_real(case)
        if not ok:
            ctx.violation({"site": "contract.einsum/2",
                           "class": "implicit-output-or-spaces" if cls == "ValueError" else cls}, case,
                          f"contract.einsum({eq!r}, a, b) (numpy accepts this form): {detail}")


def run_broadcast(ctx, st):
    """numpy lets a label have size 1 on one operand and n on the other (broadcasting); the comment at
    contract.py:202 says the planner supports it.  Outside the enumerated quantifier of C11 ("shape
    assignments"), so reported under its own signature."""
    todo = [("ab,ab->ab", (1, 3), (2, 3)), ("ab,abc->ac", (1, 3), (2, 3, 2)), ("abd,adc->abc", (1, 3, 2), (2, 2, 2)),
            ("ab,abc->ac", (2, 3), (1, 3, 2)), ("ab,bc->ac", (2, 1), (3, 2)), ("ab,b->a", (2, 1), (3,))]
    for eq, sa, sb in todo:
        xa, xb = rand_array(st["rs"], sa), rand_array(st["rs"], sb)
        lhs, o = eq.split("->")
        ta, tb = lhs.split(",")
        case = {"kind": "einsum2", "eq": eq, "eq_explicit": eq, "broadcast": True,
                "terms": [[ord(c) - A0 for c in ta], [ord(c) - A0 for c in tb], [ord(c) - A0 for c in o]],
                "shape_a": list(sa), "shape_b": list(sb), "a": flat(xa), "b": flat(xb)}
        try:
            np.einsum(eq, xa, xb)
        except Exception:
            continue  # numpy does not accept it: out of scope
        ctx.case(case, nontrivial=False, sample=False)
        ok, detail, cls = run_real(case)
        ctx.count("broadcast:" + ("ok" if ok else "fail"))
        if not ok:
            ctx.violation({"site": "contract.einsum/2", "class": "broadcast-1-vs-n"}, case,
                          f"contract.einsum({eq!r}) with broadcasting shapes {sa},{sb}: {detail}")


# ----------------------------------------------------------------------------------------------
# tensordot

def matchings(na, nb):
    """all (axes_a, axes_b): equally long duplicate-free sequences, every order"""
    for k in range(min(na, nb) + 1):
        for pa in itertools.permutations(range(na), k):
            for pb in itertools.permutations(range(nb), k):
                yield pa, pb


def td_reference_terms(na, nb, axa, axb):
    """independent construction of the equivalent equation (labels are plain ints)"""
    A = list(range(na))
    B = []
    O = [i for i in A if i not in axa]
    nxt = na
    for j in range(nb):
        if j in axb:
            B.append(axa[axb.index(j)])
        else:
            B.append(nxt)
            O.append(nxt)
            nxt += 1
    return A, B, O


def axes_forms(rng, na, nb, axa, axb):
    """every way numpy.tensordot lets one write this axes specification"""
    k = len(axa)
    forms = [("tuples", [list(axa), list(axb)]), ("lists", [list(axa), list(axb)])]
    if rng.random() < 0.3:
        forms.append(("arrays", [list(axa), list(axb)]))
    if k:
        nega = [x - na if rng.random() < 0.5 else x for x in axa]
        negb = [x - nb for x in axb]
        forms.append(("tuples", [nega, list(axb)]))
        forms.append(("tuples", [list(axa), negb]))
    if k == 1:
        forms.append(("intpair", [axa[0], axb[0]]))
    if list(axa) == list(range(na - k, na)) and list(axb) == list(range(k)):
        forms.append(("pyint", k))
        forms.append(("npint", k))
    return forms


def form_class(spec):
    form, v = spec
    if form in ("tuples", "lists", "arrays"):
        if any(x < 0 for x in v[0]) or any(x < 0 for x in v[1]):
            return "negative-axes"
        return "sequences"
    return form


def run_tensordot(ctx, drv, st, rmax, complete):
    dimsets = {k: list(itertools.product((1, 2, 3), repeat=k)) for k in range(rmax + 1)}
    for na in range(rmax + 1):
        for nb in range(rmax + 1):
            for axa, axb in matchings(na, nb):
                if ctx.time_left() < 20:
                    st["truncated"] = True
                    return
                shape_pairs = [(sa, sb) for sa in dimsets[na] for sb in dimsets[nb]
                               if all(sa[i] == sb[j] for i, j in zip(axa, axb))]
                if not complete and len(shape_pairs) > 6:
                    shape_pairs = ctx.rng.sample(shape_pairs, 6)
                A, B, O = td_reference_terms(na, nb, list(axa), list(axb))
                for sa, sb in shape_pairs:
                    xa, xb = rand_array(st["rs"], sa), rand_array(st["rs"], sb)
                    for spec in axes_forms(ctx.rng, na, nb, axa, axb):
                        cls = form_class(spec)
                        case = {"kind": "tensordot", "axes": [spec[0], spec[1]], "terms": [A, B, O],
                                "shape_a": list(sa), "shape_b": list(sb), "a": flat(xa), "b": flat(xb)}
                        ctx.case(case, nontrivial=na + nb >= 3 and len(axa) >= 1,
                                 sample=len(axa) == 2 and na + nb >= 5)
                        ctx.count("tensordot_form:" + cls)
                        ctx.count("tensordot_ncon:%d" % len(axa))
                        ok, detail, ecls = run_real(case)
                        if not ok:
                            ctx.count("oracle_fail:tensordot:" + cls)
                            ctx.violation({"site": "contract.tensordot", "form": cls, "class": ecls}, case,
                                          f"contract.tensordot(a{tuple(sa)}, b{tuple(sb)}, axes={decode_axes(spec)!r}): "
                                          f"{detail}")
                            continue
                        if cls not in ("sequences", "pyint", "npint"):
                            continue   # outside the guard of the model (negative / int-pair forms)
                        # plan correspondence
                        ctx.traces += 1
                        axes_real = decode_axes(spec)
                        if spec[0] in ("tuples", "lists", "arrays"):
                            axes_real = (tuple(int(v) for v in spec[1][0]), tuple(int(v) for v in spec[1][1]))
                            axes_json = [list(axes_real[0]), list(axes_real[1])]
                        else:
                            axes_real = int(spec[1])
                            axes_json = int(spec[1])
                        try:
                            real = canon_plan(cmod._parse_tensordot_axes_to_matmul(axes_real, tuple(sa), tuple(sb)))
                        except ValueError:
                            real = None
                        resp = drv.call("c11.tdeq", axes=axes_json, shape_a=list(sa), shape_b=list(sb))
                        model = resp.get(st["variant"]) if "err" not in resp else None
                        if "error" in resp:
                            ctx.corr_broken("driver error in c11.tdeq: " + resp["error"], case)
                        else:
                            if real != model:
                                ctx.count("plan_differs_from_model")
                            # (A) the verified checker on the real plan
                            acc = None
                            if real is not None:
                                rk = drv.call("c11.planok", a=cps(A), b=cps(B), out=cps(O),
                                              cases=[{"shape_a": list(sa), "shape_b": list(sb), "plan": real}])
                                acc = rk.get("ok", [None])[0]
                            if acc is True:
                                ctx.count("planOK_accepted")
                                continue
                            ok_adm = False
                            if real is not None and model is not None:
                                r2 = drv.call("c11.eval2", a=cps(A), b=cps(B), out=cps(O), shape_a=list(sa),
                                              shape_b=list(sb), data_a=case["a"], data_b=case["b"], plan=real)
                                val = np.asarray(cmod.tensordot(xa, xb, axes_real))
                                want = {"shape": list(val.shape), "data": flat(val)}
                                ok_adm = "error" not in r2 and r2.get("spec") == want and r2.get("value") == want
                            if ok_adm:
                                st["admitted"] += 1
                                ctx.count("planOK_rejected_but_evaluates_correctly")
                            else:
                                ctx.corr_broken("_parse_tensordot_axes_to_matmul differs from the model and is "
                                                "not admitted by the Lean array semantics",
                                                {"case": case, "real": real, "model": resp})


# ----------------------------------------------------------------------------------------------

def replay_corpus(ctx):
    import glob
    import json
    import os
    from . import common
    for f in sorted(glob.glob(os.path.join(common.VERIF, "corpus", PROP, "*.json"))):
        obj = json.load(open(f))
        case = obj.get("replay", obj)
        ctx.count("corpus_replayed")
        ok, detail, cls = run_real(case)
        ctx.case(case, nontrivial=True, sample=False)
        if not ok:
            sig = obj.get("signature") or {"site": "corpus", "file": os.path.basename(f)}
            ctx.violation(sig, case, f"corpus case {os.path.basename(f)} fails again: {detail}")


def run_tensordot_highrank(ctx, st, n):
    """operands of rank 20-32 (almost all dimensions 1): the internal equation of the matmul plan then needs more
    than the 52 letters. Oracle only (numpy.tensordot)."""
    for _ in range(n):
        if ctx.time_left() < 20:
            return
        ra, rb = ctx.rng.randint(20, 32), ctx.rng.randint(20, 32)
        k = ctx.rng.choice([0, 1, 2, 3, 5])
        axa = ctx.rng.sample(range(ra), k)
        axb = ctx.rng.sample(range(rb), k)
        sa = [1 if ctx.rng.random() < 0.9 else 2 for _ in range(ra)]
        sb = [1 if ctx.rng.random() < 0.9 else 2 for _ in range(rb)]
        for i, j in zip(axa, axb):
            sb[j] = sa[i] = ctx.rng.choice([1, 2, 3])
        xa, xb = rand_array(st["rs"], tuple(sa)), rand_array(st["rs"], tuple(sb))
        case = {"kind": "tensordot-highrank", "shape_a": sa, "shape_b": sb, "axes": [axa, axb]}
        ctx.case(case, nontrivial=True, sample=False)
        ctx.count("tensordot_highrank:ranks>52" if ra + rb > 52 else "tensordot_highrank:ranks<=52")
        ref = np.tensordot(xa, xb, axes=(axa, axb))
        try:
            got = cmod.tensordot(xa, xb, (axa, axb))
            ok = got.shape == ref.shape and bool(np.array_equal(got, ref))
            detail = "wrong value/shape"
        except Exception as e:  # noqa: BLE001
            ok, detail = False, "%s: %s" % (type(e).__name__, str(e)[:120])
        if not ok:
            ctx.violation({"site": "contract.tensordot", "form": "high-rank", "class": detail.split(":")[0]},
                          dict(case, a=flat(xa), b=flat(xb)),
                          f"contract.tensordot of ranks {ra},{rb} axes=({axa},{axb}): {detail}")


def run(ctx, drv):
    st = {"rs": np.random.default_rng(ctx.rng.randrange(1 << 32)), "variant": shortcut_variant(),
          "admitted": 0, "truncated": False}
    ctx.notes["shortcut_variant_of_repo"] = st["variant"]
    replay_corpus(ctx)
    run_sanitize(ctx, drv, st)
    run_string_forms(ctx, st)
    run_broadcast(ctx, st)
    run_tensordot_highrank(ctx, st, 60 if ctx.tier == "quick" else 1500)
    if ctx.tier == "quick":
        run_single(ctx, drv, st, K=3, L=4, complete=True)
        run_tensordot(ctx, drv, st, rmax=2, complete=True)
        run_tensordot(ctx, drv, st, rmax=3, complete=False)
        d1 = run_two_operand(ctx, drv, st, K=3, R=3, complete=True)
        d2 = run_two_operand(ctx, drv, st, K=4, R=3, complete=False, sample_eqs=150)
        ctx.notes["two_operand"] = {"K3_R3_equations_done/total": d1, "K4_R3_sampled": d2}
    else:
        run_single(ctx, drv, st, K=4, L=5, complete=True)
        run_tensordot(ctx, drv, st, rmax=3, complete=True)
        d1 = run_two_operand(ctx, drv, st, K=4, R=3, complete=True)
        # every equation with <= 5 symbols and rank <= 4, a seeded sample of its outputs and size
        # assignments, for at most ~17 minutes of the budget
        d2 = run_two_operand(ctx, drv, st, K=5, R=4, complete=False, reserve=ctx.budget_s - 1000,
                             n_outs=12, n_assign=16)
        ctx.notes["two_operand"] = {"K4_R3_equations_done/total": d1, "K5_R4_equations_sampled/total": d2}
    ctx.exhaustive = not st["truncated"]
    ctx.notes["real_plans_rejected_by_planOK_but_correct_on_the_tested_arrays"] = st["admitted"]
    ctx.notes["enumeration_truncated_by_budget"] = st["truncated"]


def search(ctx):
    """implementation-only search: random two-operand equations from the bigger space (<= 5 symbols,
    rank <= 4), one-operand terms and tensordot calls, against the dense reference."""
    rs = np.random.default_rng(ctx.rng.randrange(1 << 32))
    n = 0
    while ctx.time_left() > 30 and n < 40000:
        n += 1
        K = ctx.rng.choice([3, 4, 5])
        la, lb = ctx.rng.randrange(0, 5), ctx.rng.randrange(0, 5)
        s = [ctx.rng.randrange(K) for _ in range(la + lb)]
        a, b = tuple(s[:la]), tuple(s[la:])
        syms = sorted(set(s))
        out = tuple(ctx.rng.sample(syms, ctx.rng.randrange(0, len(syms) + 1)))
        sz = {i: ctx.rng.choice([1, 2, 3]) for i in syms}
        sa, sb = [sz[i] for i in a], [sz[i] for i in b]
        xa, xb = rand_array(rs, sa), rand_array(rs, sb)
        case = {"kind": "einsum2", "eq": eq2(a, b, out), "terms": [list(a), list(b), list(out)],
                "shape_a": sa, "shape_b": sb, "a": flat(xa), "b": flat(xb)}
        ok, detail, cls = run_real(case)
        if not ok:
            real = real_plan2(case["eq"], sa, sb)
            if plan_has_bad_shortcut(real, len(a), len(b)):
                cls = "transpose-shortcut-on-repeated-index"
            if ctx.violation({"site": "contract.einsum/2", "class": cls}, case,
                             f"contract.einsum({case['eq']!r}) on shapes {tuple(sa)},{tuple(sb)}: {detail}"):
                return True
    return False


def replay(ctx, obj):
    ok, detail, cls = run_real(obj.get("case", obj))
    if not ok:
        print("#", detail)
    return ok
