"""C18 -- internal cost simulators agree; optimizers report the cost of what they return.

For one network and one contraction order (an SSA path = a tree), four separately written
simulators of /repo are replayed step by step:
  tree       ContractionTree.get_legs / get_size / get_flops                         (core.py:816-848)
  annealing  compute_contracted_info on the children's legs        (path_simulated_annealing.py:19-68)
  processor  ContractionProcessor (+ simplify_batch / simplify_single_terms), contract_nodes with
             track_flops, compute_contracted / compute_size / compute_flops   (path_basic.py:56-118, 391-513)
  hypergraph HyperGraph.contract / compute_contracted_inds / candidate_contraction_size /
             contract_pair_cost / node_size                                 (hypergraph.py:123-338)
Oracle (implementation + independent reference only): every simulator's index set, size and operation
count of every step equals refimpl.spec_costs (the leaf-set definition from the network alone), under
the support guards stated in ASSUMPTIONS; RandomGreedyOptimizer.best_flops and the stored score of the
reusable optimizers equal the cost of the tree built from the returned path.
Tie (E): the Lean models `Anneal.info`, `Proc.*`, `HG.*` (Model/Sims.lean, Model/HyperGraph.lean) replay
the same steps; all per-step dumps and the final states must coincide.
"""

import math

import cotengra as ctg
from cotengra.hypergraph import HyperGraph
from cotengra.pathfinders import path_basic as pb
from cotengra.pathfinders.path_simulated_annealing import compute_contracted_info

from . import gen, refimpl

PROP = "C18"
LEVEL = "proof"
LEVEL_TEXT = (
    "Lean 4 theorems, for every network, every tree and every step: the annealing evaluator computes "
    "exactly the tree's legs / flops / size (anneal_eq_tree, no guard); the processor's leaf legs after "
    "compute_simplified hold the tree's leaf counts for every term (procLeaf_spec), its sorted-merge rule "
    "gives the tree's index counts, sizes and flops on every network, and after simplify_batch the "
    "figures of the tree with the all-tensor indices removed, hence tree.flops = (product of their sizes) x "
    "processor.flops (proc_eq_tree_real, batch_factor, reported_flops_batch_real); the hypergraph's contract keeps "
    "exactly the leaf-set survivors for networks without repeated indices, and its sizes / pair costs "
    "equal the tree's when no operand carries a dangling index (hg_* theorems); each therefore equals the "
    "leaf-set characterisation L1 (four_rules_agree). Counter-example theorems pin the two known "
    "deviations. The models are tied to /repo on every run by step-by-step equality correspondence.")
LEVEL_NOTE = (
    "Trusted: Lean kernel; the hand-written models (validated on the generated cases only); harness "
    "canonicalisation (first-appearance relabelling, sets sorted); the optimizers' choices (greedy scores, "
    "RNG) are not modelled -- the returned path is replayed. One float tolerance: |log10 flops - best_flops| "
    "< 1e-9. Known findings: hypergraph pair cost with a dangling index; random-greedy best_flops with an "
    "index on all tensors.")
TECHNIQUE = ("Lean 4 proof (structural induction over trees; state invariant of the hypergraph; L1) + "
             "differential step-by-step correspondence of four simulators with /repo")
LEAN_MODULES = ["CotengraVerif.Props.C18"]
THEOREMS = [
    "Cotengra.C18.anneal_eq_tree",
    "Cotengra.C18.proc_contracted_get",
    "Cotengra.C18.proc_eq_tree",
    "Cotengra.C18.procLeaf_spec",
    "Cotengra.C18.proc_eq_tree_real",
    "Cotengra.C18.batch_factor",
    "Cotengra.C18.reported_flops_batch",
    "Cotengra.C18.reported_flops_batch_real",
    "Cotengra.C18.reported_flops_partial",
    "Cotengra.C18.reported_flops_counterexample",
    "Cotengra.C18.hg_contract_legs",
    "Cotengra.C18.hg_predicted_inds",
    "Cotengra.C18.hg_cost_eq_tree_partial",
    "Cotengra.C18.hg_cost_counterexample",
    "Cotengra.C18.four_rules_agree",
]
TRUSTED = [
    "Lean 4.33 kernel; axioms within {propext, Classical.choice, Quot.sound}",
    "hand-written models Model/Sims.lean, Model/HyperGraph.lean of path_simulated_annealing.py:19-68, "
    "path_basic.py:17-118,391-523, hypergraph.py:60-338, tied by this correspondence on generated cases only",
    "greedy scoring / Gumbel noise / heap order of the optimizers are not modelled: the path they return is replayed",
    "harness canonicalisation (first-appearance relabelling; index sets sorted; the processor's internal "
    "numbering mapped back through its indmap)",
]
ASSUMPTIONS = [
    "output indices distinct and present in some input; sizes >= 1; N >= 2",
    "hypergraph: networks without an index repeated inside a tensor (the property's stated guard)",
    "processor: compared (a) after simplify_single_terms on every network, (b) after simplify_batch + "
    "simplify_single_terms against the tree with the all-tensor indices removed, (c) raw only on networks "
    "without repeated or dangling indices (documented precondition of simplify=False)",
    "float comparison |log10(tree.total_flops()) - best_flops| < 1e-9 (stated tolerance); reusable scores likewise",
]
RULE = ("random networks over index kinds {bond,hyper,dangling,out1,outk,all,repeated,batch} relabelled by "
        "first appearance x random/caterpillar/balanced trees; every internal step of every simulator is one "
        "comparison; non-trivial = >= 3 tensors and a hyper / all-tensor / dangling / multi-output feature; "
        "distinct by content hash")
BUDGET = {"quick": 600, "thorough": 3000}


# --------------------------------------------------------------------------------------------
def relabel(net):
    """Rename indices by first appearance over the inputs (the processor's numbering)."""
    m = {}
    for t in net.inputs:
        for ix in t:
            if ix not in m:
                m[ix] = len(m)
    for ix in net.output:
        if ix not in m:
            m[ix] = len(m)
    return gen.Net([[m[i] for i in t] for t in net.inputs], [m[i] for i in net.output],
                   {m[k]: v for k, v in net.sizes.items() if k in m})


def gen_case(rng, tier):
    nmax = 7 if tier == "quick" else 9
    kinds = gen.KINDS if rng.random() < 0.7 else ("bond", "hyper", "out1", "outk", "all", "batch", "dangling")
    net = relabel(gen.rand_net(rng, nmin=2, nmax=nmax, max_inds=9, dims=(1, 2, 2, 3, 4), kinds=kinds))
    if rng.random() < 0.2:
        # exact integers of any magnitude: dimensions that take the totals beyond 2**63
        for ix in list(net.sizes):
            net.sizes[ix] = rng.choice([1, 3, 46349, 999983, 1000003, (1 << 20) + 7, (1 << 31) - 1])
    tree = gen.rand_tree(rng, len(net.inputs))
    return {"net": net.json(), "tree": tree, "seed": rng.randrange(1 << 30),
            "opt": rng.random() < (0.25 if tier == "quick" else 0.15)}


def has_repeated(net):
    return any(len(set(t)) != len(t) for t in net.inputs)


def dangling_of(net):
    """indices confined to one tensor (once) and absent from the output"""
    return sorted(ix for ix in net.indices() if net.app(ix) == 1)


def reduced_in_leaf(net):
    """(leaf, ix) with all appearances of ix inside that leaf (what the tree sums at the leaf)"""
    return [(i, ix) for i, t in enumerate(net.inputs) for ix in set(t) if t.count(ix) == net.app(ix)]


def batch_ixs(net):
    n = len(net.inputs)
    return sorted(ix for ix in net.indices() if sum(1 for t in net.inputs if ix in t) >= n)


def steps_of(tree, n):
    """[(l_leaves, r_leaves, p_leaves)] children first, in SSA order, plus the SSA pairs."""
    ssa = gen.tree_to_ssa(tree, n)
    leaves = {i: (i,) for i in range(n)}
    out = []
    for k, (a, b) in enumerate(ssa):
        leaves[n + k] = tuple(sorted(leaves[a] + leaves[b]))
        out.append((a, b, n + k))
    return ssa, leaves, out


def prod(xs):
    p = 1
    for x in xs:
        p *= x
    return p


def observe(case):
    """Replay the four real simulators. Returns per-simulator per-step dumps (canonical)."""
    net = gen.Net.from_json(case["net"])
    n = len(net.inputs)
    us = gen.unsym(net)
    ssa, leaves, steps = steps_of(case["tree"], n)
    tree = ctg.ContractionTree.from_path(net.sym_inputs(), net.sym_output(), net.sym_sizes(), ssa_path=ssa)
    obs = {"ssa": [list(p) for p in ssa]}

    def node(k):
        return frozenset(leaves[k])

    # tree + annealing ----------------------------------------------------------------------
    rows_t, rows_a = [], []
    chain, rows_c = {}, []      # the evaluator fed with its *own* earlier outputs, as the annealer does
    for a, b, k in steps:
        p = node(k)
        rows_t.append({"legs": sorted(us[i] for i in tree.get_legs(p)), "size": int(tree.get_size(p)),
                       "flops": int(tree.get_flops(p))})
        la, lb = tree.get_legs(node(a)), tree.get_legs(node(b))
        legsab, cost, size = compute_contracted_info(la, lb, tree.appearances, tree.size_dict)
        rows_a.append({"legsa": [[us[i], c] for i, c in la.items()], "legsb": [[us[i], c] for i, c in lb.items()],
                       "legs": [[us[i], c] for i, c in legsab.items()], "cost": int(cost), "size": int(size)})
        ca = chain.get(a, la) if len(node(a)) > 1 else la
        cb = chain.get(b, lb) if len(node(b)) > 1 else lb
        if len(p) != n:
            clegs, ccost, csize = compute_contracted_info(ca, cb, tree.appearances, tree.size_dict)
            chain[k] = clegs
            rows_c.append({"legs": sorted(us[i] for i in clegs), "cost": int(ccost), "size": int(csize)})
        else:
            # the root: the annealer's figures for it are cost and size only (legs come from the output)
            _, ccost, csize = compute_contracted_info(ca, cb, tree.appearances, tree.size_dict)
            rows_c.append({"legs": None, "cost": int(ccost), "size": int(csize)})
    obs["tree"], obs["anneal"] = rows_t, rows_a
    obs["anneal_chain"] = rows_c
    obs["tree_total"] = int(tree.total_flops())

    # processor in three modes ---------------------------------------------------------------
    def run_proc(batch, single):
        cp = pb.ContractionProcessor(net.sym_inputs(), net.sym_output(), net.sym_sizes(), track_flops=True)
        inv = {v: us[k] for k, v in cp.indmap.items()}

        def canon(legs):
            return [[inv[ix], c] for ix, c in legs]

        init = {"nodes": [[k, canon(v)] for k, v in cp.nodes.items()], "ssa": cp.ssa}
        removed = []
        if batch:
            before = set(cp.edges)
            cp.simplify_batch()
            removed = sorted(inv[ix] for ix in before - set(cp.edges))
        if single:
            cp.simplify_single_terms()
        cur = {}
        # current id of each original leaf: the k-th single-term step re-created a node
        ids = list(range(n))
        nxt = n
        for st in cp.ssa_path:
            if len(st) == 1:
                ids[ids.index(st[0])] = nxt
                nxt += 1
        for i in range(n):
            cur[i] = ids[i]
        simp = {"nodes": sorted([k, canon(v)] for k, v in cp.nodes.items()), "ssa": cp.ssa,
                "path": [list(x) for x in cp.ssa_path]}
        rows, path = [], []
        for a, b, k in steps:
            ia, ib = cur[a], cur[b]
            il, jl = cp.nodes[ia], cp.nodes[ib]
            f0 = cp.flops
            kk = cp.contract_nodes(ia, ib)
            cur[k] = kk
            path.append([ia, ib])
            nl = cp.nodes[kk]
            rows.append({"k": kk, "ilegs": canon(il), "jlegs": canon(jl), "legs": canon(nl),
                         "size": int(pb.compute_size(nl, cp.sizes)), "step_flops": int(cp.flops - f0),
                         "flops": int(cp.flops)})
        return {"init": init, "removed": removed, "simplified": simp, "rows": rows, "path": path,
                "flops": int(cp.flops)}

    obs["proc_single"] = run_proc(False, True)
    obs["proc_batch"] = run_proc(True, True)
    if not has_repeated(net) and not reduced_in_leaf(net):
        obs["proc_raw"] = run_proc(False, False)

    # hypergraph -----------------------------------------------------------------------------
    if not has_repeated(net):
        hg = HyperGraph(net.sym_inputs(), net.sym_output(), net.sym_sizes())
        cur = {i: i for i in range(n)}
        rows, path = [], []
        leaf_sizes = [int(hg.node_size(i)) for i in range(n)]
        for a, b, k in steps:
            ia, ib = cur[a], cur[b]
            cost = int(hg.contract_pair_cost(ia, ib))
            pred = [us[e] for e in hg.compute_contracted_inds((ia, ib))]
            cand = int(hg.candidate_contraction_size(ia, ib))
            kk = hg.contract(ia, ib)
            cur[k] = kk
            path.append([ia, ib])
            rows.append({"k": kk, "inds": [us[e] for e in hg.get_node(kk)], "size": int(hg.node_size(kk)),
                         "cost": cost, "predicted_inds": pred, "candidate_size": cand})
        obs["hg"] = {"rows": rows, "path": path, "leaf_sizes": leaf_sizes,
                     "final_nodes": sorted([k, sorted(us[e] for e in v)] for k, v in hg.nodes.items()),
                     "final_edges": sorted([us[e], sorted(v)] for e, v in hg.edges.items())}
    return obs, net, steps, leaves


def oracle(case, obs, net, steps, leaves):
    """Implementation-side oracle. Yields (signature, detail) for every disagreement with the
    independent leaf-set definition."""
    bt = case["tree"]
    spec = refimpl.spec_costs(net, bt)
    rows = {tuple(r["leaves"]): r for r in spec["rows"]}
    # the indices simplify_batch removed on this run: which of the all-tensor indices it removes is the
    # implementation's choice; the property only needs the figures to be those of the network without them
    B = obs["proc_batch"]["removed"]
    specB = refimpl.spec_costs(net, bt, removed=B)
    rowsB = {tuple(r["leaves"]): r for r in specB["rows"]}
    n = len(net.inputs)
    bad = []
    if not set(B) <= set(batch_ixs(net)):
        bad.append(({"site": "ContractionProcessor.simplify_batch", "kind": "removed-index-not-on-all-tensors"},
                    (B, batch_ixs(net))))
    for idx, (a, b, k) in enumerate(steps):
        s = rows[leaves[k]]
        t = obs["tree"][idx]
        if t["legs"] != s["legs"] or t["size"] != s["size"] or t["flops"] != s["flops"]:
            bad.append(({"site": "tree", "kind": "step"}, (idx, t, s)))
        an = obs["anneal"][idx]
        if sorted(ix for ix, _ in an["legs"]) != s["legs"] or an["size"] != s["size"] or an["cost"] != s["flops"]:
            bad.append(({"site": "compute_contracted_info", "kind": "step"}, (idx, an, s)))
        ch = obs.get("anneal_chain", [None] * (idx + 1))[idx]
        if ch is not None and ((ch["legs"] is not None and ch["legs"] != s["legs"]) or ch["size"] != s["size"]
                               or ch["cost"] != s["flops"]):
            bad.append(({"site": "compute_contracted_info", "kind": "chained"}, (idx, ch, s)))
        for mode, ref in (("proc_single", rows), ("proc_raw", rows), ("proc_batch", rowsB)):
            if mode not in obs:
                continue
            r = obs[mode]["rows"][idx]
            sr = ref[leaves[k]]
            if sorted(ix for ix, _ in r["legs"]) != sr["legs"] or r["size"] != sr["size"] or \
                    r["step_flops"] != sr["flops"]:
                bad.append(({"site": "ContractionProcessor", "kind": mode}, (idx, r, sr)))
        if "hg" in obs:
            r = obs["hg"]["rows"][idx]
            if sorted(r["inds"]) != s["legs"] or sorted(r["predicted_inds"]) != s["legs"] or \
                    r["size"] != s["size"] or r["candidate_size"] != s["size"]:
                bad.append(({"site": "HyperGraph.contract", "kind": "inds/size"}, (idx, r, s)))
            if r["cost"] != s["flops"]:
                # explained exactly by the dimensions of indices the tree sums at a leaf operand?
                extra = prod(net.sizes[ix] for i, ix in reduced_in_leaf(net) if i in (a, b))
                cls = "dangling-index-on-leaf-operand" if (extra > 1 and r["cost"] == s["flops"] * extra) \
                    else "other"
                bad.append(({"site": "HyperGraph.contract_pair_cost", "class": cls}, (idx, r["cost"], s["flops"])))
    for mode, want in (("proc_single", spec["flops"]), ("proc_raw", spec["flops"]), ("proc_batch", specB["flops"])):
        if mode in obs and obs[mode]["flops"] != want:
            bad.append(({"site": "ContractionProcessor.flops", "kind": mode}, (obs[mode]["flops"], want)))
    if obs["proc_batch"]["flops"] * prod(net.sizes[ix] for ix in B) != obs["tree_total"]:
        bad.append(({"site": "ContractionProcessor.flops", "kind": "batch-factor"},
                    (obs["proc_batch"]["flops"], B, obs["tree_total"])))
    return bad


def optimizer_oracle(case, net):
    """Reported costs of optimizers versus the tree built from what they return."""
    bad = []
    B = batch_ixs(net)
    fac = prod(net.sizes[ix] for ix in B)
    inputs, output, sd = net.sym_inputs(), net.sym_output(), net.sym_sizes()
    out = {}

    def classify(site, reported_log10, tree):
        true = math.log10(tree.total_flops())
        if abs(true - reported_log10) < 1e-9:
            return
        cls = "index-on-all-tensors" if (fac > 1 and abs(math.log10(tree.total_flops() / fac) - reported_log10) < 1e-9) \
            else "other"
        bad.append(({"site": site, "class": cls}, {"reported_log10": reported_log10, "tree_log10": true,
                                                   "all_tensor_indices": B}))

    opt = pb.RandomGreedyOptimizer(max_repeats=4, seed=case["seed"], parallel=False, accel=False)
    tree = opt.search(inputs, output, sd)
    out["best_flops"] = opt.best_flops
    out["best_ssa_path"] = [list(p) for p in opt.best_ssa_path]
    out["tree_total"] = int(tree.total_flops())
    classify("RandomGreedyOptimizer.best_flops", opt.best_flops, tree)

    ropt = pb.ReusableRandomGreedyOptimizer(max_repeats=4, seed=case["seed"], parallel=False, accel=False,
                                            directory=None)
    rtree = ropt.search(inputs, output, sd)
    for con in [ropt._cache[ropt.hash_query(inputs, output, sd)[0]]]:
        t2 = ropt._reconstruct_tree(inputs, output, sd, con)
        if t2.get_ssa_path() != rtree.get_ssa_path() and t2.total_flops() != rtree.total_flops():
            bad.append(({"site": "ReusableRandomGreedyOptimizer", "class": "stored-path"}, None))
        # since /repo 00c7e4b every reusable optimizer stores the tree's score under its own
        # objective (tree.get_score(minimize)); before that commit the random-greedy one stored
        # log10(flops). Either is "the cost of the tree built from the stored path".
        if abs(con["score"] - t2.get_score(ropt.minimize)) > 1e-9:
            classify("ReusableRandomGreedyOptimizer.score", con["score"], t2)

    hopt = ctg.ReusableHyperOptimizer(methods=["greedy"], max_repeats=3, minimize=case.get("minimize", "flops"),
                                      parallel=False, progbar=False, directory=None,
                                      optlib="random", seed=case["seed"])
    htree = hopt.search(inputs, output, sd)
    for con in [hopt._cache[hopt.hash_query(inputs, output, sd)[0]]]:
        t2 = hopt._reconstruct_tree(inputs, output, sd, con)
        sc = t2.get_score()
        if abs(sc - con["score"]) > 1e-9 or abs(htree.get_score() - con["score"]) > 1e-9:
            bad.append(({"site": "ReusableHyperOptimizer.score", "class": "stored-score"},
                        {"stored": con["score"], "rebuilt": sc, "returned": htree.get_score()}))
    # a plain HyperOptimizer whose trials are post-processed (slicing / reconfiguration / annealing, alone and
    # combined): the figures recorded for the winning trial are the figures of the tree rebuilt from the path it
    # returns, sliced on the indices it reports
    import random as _r
    rr = _r.Random(case["seed"] ^ 0xC18)
    if len(inputs) >= 4 and fac == 1 and not has_repeated(net):
        post = {}
        base_tree = ctg.ContractionTree.from_path(inputs, output, sd, ssa_path=pb.optimize_greedy(
            inputs, output, sd, use_ssa=True))
        tgt = max(1, base_tree.max_size() // rr.choice([1, 2, 4]))
        combo = rr.choice(["reconf", "slicing", "slicing+reconf", "anneal+reconf", "slicing_reconf", "slicing_reconf+reconf",
                           "anneal", "slicing+anneal+reconf"])
        if "slicing_reconf" in combo.split("+"):
            post["slicing_reconf_opts"] = {"target_size": tgt, "reconf_opts": {"subtree_size": 4, "maxiter": 3}}
        if "slicing" in combo.split("+"):
            post["slicing_opts"] = {"target_size": tgt}
        if "reconf" in combo.split("+"):
            post["reconf_opts"] = {"subtree_size": 4, "maxiter": 4}
        if "anneal" in combo.split("+"):
            post["simulated_annealing_opts"] = {"tsteps": 2, "numiter": 4}
        out["hyper_post"] = combo
        try:
            ho = ctg.HyperOptimizer(methods=["greedy", "labels"], max_repeats=4, minimize=case.get("minimize", "flops"),
                                    parallel=False, progbar=False, optlib="random", seed=case["seed"], **post)
            ht = ho.search(inputs, output, sd)
        except Exception as e:   # a search that cannot meet its slicing target etc.: nothing reported, nothing to judge
            out["hyper_post_raises"] = type(e).__name__
            ht = None
        if ht is not None:
            reb = ctg.ContractionTree.from_path(inputs, output, sd, path=ho.path)
            for ix, si in ht.sliced_inds.items():
                if si.project is None:
                    reb.remove_ind_(ix)
                else:
                    reb.remove_ind_(ix, project=si.project)
            st = reb.contract_stats()
            rep = {k: ho.best.get(k) for k in ("flops", "write", "size")}
            true = {k: st[k] for k in ("flops", "write", "size")}
            if any(rep[k] is not None and int(rep[k]) != int(true[k]) for k in rep):
                bad.append(({"site": "HyperOptimizer.best", "class": "recorded-costs-vs-returned-path", "post": combo},
                            {"recorded": {k: (None if v is None else int(v)) for k, v in rep.items()},
                             "tree_rebuilt_from_returned_path": {k: int(v) for k, v in true.items()}}))
    return bad, out


# --------------------------------------------------------------------------------------------
def canon_pairs(l):
    return sorted([int(a), int(b)] for a, b in l)


def correspond(ctx, drv, case, obs, net, opt_out):
    ok = True
    # annealing: the dict is compared as a set of (index, count) pairs (its order is not part of the property;
    # the Lean theorem anneal_eq_tree happens to give the order too)
    for idx, an in enumerate(obs["anneal"]):
        r = drv.call("c18.anneal", net=case["net"], legsa=an["legsa"], legsb=an["legsb"])
        if "error" in r or canon_pairs(r["legs"]) != canon_pairs(an["legs"]) or r["cost"] != an["cost"] or \
                r["size"] != an["size"]:
            ctx.corr_broken("compute_contracted_info differs from Anneal.info", {"case": case, "step": idx})
            ok = False
            break
    ctx.traces += 1
    # processor
    for mode, batch, single in (("proc_single", False, True), ("proc_batch", True, True),
                                ("proc_raw", False, False)):
        if mode not in obs:
            continue
        o = obs[mode]
        r = drv.call("c18.proc", net=case["net"], path=o["path"], batch=batch, single=single)
        ctx.traces += 1
        good = "error" not in r and r["ok"] and r["batch_removed"] == o["removed"] and \
            [[k, l] for k, l in r["init"]["nodes"]] == o["init"]["nodes"] and \
            sorted([k, l] for k, l in r["simplified"]["nodes"]) == o["simplified"]["nodes"] and \
            r["simplified"]["ssa"] == o["simplified"]["ssa"] and r["simplified"]["path"] == o["simplified"]["path"] \
            and r["steps"] == o["rows"] and r["flops"] == o["flops"]
        if not good:
            ctx.corr_broken("ContractionProcessor differs from the model (%s)" % mode, {"case": case})
            ok = False
    # hypergraph
    if "hg" in obs:
        o = obs["hg"]
        r = drv.call("c18.hg", net=case["net"], path=o["path"])
        ctx.traces += 1
        good = "error" not in r and r["ok"] and r["leaf_sizes"] == o["leaf_sizes"] and len(r["steps"]) == len(o["rows"])
        if good:
            for a, b in zip(r["steps"], o["rows"]):
                # index tuples are compared as sets (their order inside a node is representation freedom)
                ca = dict(a, inds=sorted(a["inds"]), predicted_inds=sorted(a["predicted_inds"]))
                cb = dict(b, inds=sorted(b["inds"]), predicted_inds=sorted(b["predicted_inds"]))
                if ca != cb:
                    good = False
            fn = sorted([k, sorted(v)] for k, v in r["final"]["nodes"])
            fe = sorted([k, sorted(v)] for k, v in r["final"]["edges"])
            good = good and fn == o["final_nodes"] and fe == o["final_edges"]
        if not good:
            ctx.corr_broken("HyperGraph differs from the model", {"case": case})
            ok = False
    # random-greedy's reported flops: the model replays the returned SSA path
    if opt_out is not None:
        r = drv.call("c18.proc", net=case["net"], path=opt_out["best_ssa_path"], batch=True, single=False)
        ctx.traces += 1
        # since /repo 70e039c the reported flops put back the dimensions of the indices that
        # simplify_batch dropped (the model's processor tracks the reduced network)
        bfac = prod(net.sizes[ix] for ix in batch_ixs(net))
        if "error" in r or not r["ok"] or r["flops"] < 1 or \
                abs(math.log10(r["flops"] * bfac) - opt_out["best_flops"]) > 1e-9:
            ctx.corr_broken("random-greedy best_flops differs from the model's replay of best_ssa_path",
                            {"case": case})
            ok = False
    return ok


def check_case(ctx, drv, case):
    obs, net, steps, leaves = observe(case)
    feats = net.features()
    for f in feats:
        ctx.count("feature:" + f)
    ctx.count("N:%d" % len(net.inputs))
    ctx.count("steps", len(steps))
    for m in ("proc_raw", "hg"):
        ctx.count("simulated:" + m, 1 if m in obs else 0)
    ctx.count("batch_indices:%d" % min(len(batch_ixs(net)), 3))
    ctx.count("dangling_cases", 1 if reduced_in_leaf(net) else 0)
    nontrivial = len(net.inputs) >= 3 and bool(set(feats) & {"hyper", "all-tensors", "dangling", "multi-output"})
    ctx.case(case, nontrivial=nontrivial)
    bad = oracle(case, obs, net, steps, leaves)
    opt_out = None
    if case.get("opt"):
        b2, opt_out = optimizer_oracle(case, net)
        bad += b2
        ctx.count("optimizer_runs")
        if opt_out.get("hyper_post"):
            ctx.count("hyper_post:" + opt_out["hyper_post"] + (":raises" if opt_out.get("hyper_post_raises") else ""))
    for sig, detail in bad:
        ctx.violation(sig, {"case": case, "detail": detail, "signature": sig},
                      "simulator / reported cost differs from the tree: %s %s" % (sig, str(detail)[:200]))
        ctx.count("oracle_mismatch:" + sig["site"])
    if drv is not None:
        correspond(ctx, drv, case, obs, net, opt_out)


def run(ctx, drv):
    import glob
    import json
    import os
    from .common import VERIF
    for f in sorted(glob.glob(os.path.join(VERIF, "corpus", "C18", "*.json"))):
        obj = json.load(open(f))
        check_case(ctx, drv, obj.get("replay", obj)["case"])
        ctx.count("corpus")
    ncases = 2500 if ctx.tier == "quick" else 40000
    for _ in range(ncases):
        if ctx.time_left() < 5:
            break
        check_case(ctx, drv, gen_case(ctx.rng, ctx.tier))


def search(ctx):
    found = False
    for _ in range(4000):
        if ctx.time_left() < 5:
            break
        case = gen_case(ctx.rng, "thorough")
        obs, net, steps, leaves = observe(case)
        bad = oracle(case, obs, net, steps, leaves)
        if case.get("opt"):
            bad += optimizer_oracle(case, net)[0]
        for sig, detail in bad:
            if ctx.violation(sig, {"case": case, "detail": detail, "signature": sig},
                             "simulator differs from the tree: %s" % sig):
                found = True
        if found:
            break
    return found


def replay_verdict(ctx, obj, sigs):
    """True = the property holds on this input. If the file records the signature of the failure it was
    written for, the replay fails exactly when that signature recurs; a hand-written file without one fails
    on any disagreement that is not a listed known finding."""
    recorded = obj.get("signature")
    if recorded is not None:
        return not any(s == recorded for s in sigs)
    known = [e for e in getattr(ctx, "_known", []) if e.get("property") == ctx.prop and e.get("kind") == "known"]

    def is_known(s):
        return any(all(s.get(k) == v for k, v in e["match"].items()) for e in known)
    return not any(not is_known(s) for s in sigs)


def replay(ctx, obj):
    if "case" not in obj:
        print("# nothing to re-execute: this file records an undischarged obligation / correspondence "
              "(no failing input was found)")
        return True
    case = obj["case"]
    obs, net, steps, leaves = observe(case)
    bad = oracle(case, obs, net, steps, leaves)
    if case.get("opt"):
        bad += optimizer_oracle(case, net)[0]
    return replay_verdict(ctx, obj, [sig for sig, _ in bad])
