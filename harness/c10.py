"""C10 -- path formats convert into each other and into trees without loss.

Implementation-side oracle (real code + plain Python), per case (network x tree x order):
  * tree.traverse(order) lists every intermediate exactly once, children before parents;
  * get_ssa_path / get_path are valid paths, and from_path(...) of either gives back the same set
    of intermediate tensors (round trip), for order in {None/dfs, 'surface_order', random
    callables, constant, by-size};
  * linear_to_ssa / ssa_to_linear are mutually inverse on valid paths (steps as sets), incl.
    single-tensor steps, k-ary steps and incomplete paths, and denote the same merges;
  * edge_path_to_ssa / edge_path_to_linear on permutations and sub-sequences of the indices give
    a valid path whose multi-tensor steps merge, in order, exactly the current tensors that carry
    the index (independent leaf-set simulation; single-tensor renaming steps are tolerated);
    repeated / unknown index -> KeyError on both sides.
Tie to the Lean model (Model/Paths.lean):
  (E) converter outputs; get_ssa_path / get_path recomputed by the model *from the real
      traversal*; from_path parents;
  (A) the verified checker `cfCheck` accepts the real traversal;
  informational: the real traversal equals the model's traverseDfs / traverseOrdered.
"""

import glob
import json
import os
import random
import warnings

import cotengra as ctg
from cotengra.pathfinders import path_basic as pb

from . import common, gen

PROP = "C10"
LEVEL = "proof"
LEVEL_TEXT = (
    "Lean 4 theorems over transcriptions of linear_to_ssa / ssa_to_linear (with CPython's bisect loops), "
    "_traverse_dfs (stack machine), _traverse_ordered (sweeps with bisect insertion on an unsorted score list), "
    "get_ssa_path, get_path, from_path and edge_path_to_ssa: the two converters are mutually inverse on valid "
    "paths and preserve validity; for EVERY order function the ordered traversal is a permutation of the "
    "internal nodes with children first, the dfs traversal is the post-order; get_path = ssa_to_linear of "
    "get_ssa_path; from_path of the emitted path re-creates exactly the tree's intermediates for every "
    "children-first traversal; edge_path_to_ssa on any duplicate-free index sequence equals the leaf-set "
    "definition (contract all current tensors carrying the index) and is a valid SSA path, and from_path(edge_path=...) "
    "builds exactly the tree of that path whatever the output is (from_edge_path_eq).  Tied to /repo on every run by equality correspondence of all converter "
    "outputs and of get_path/get_ssa_path recomputed from the real traversal, and by a verified "
    "children-first certificate checker run on the real traversal; an implementation-only oracle checks "
    "round trips, validity and the edge-path semantics against an independent leaf-set simulation.")
LEVEL_NOTE = (
    "Trusted: Lean kernel; hand-written model (validated on generated cases only); python sets/frozensets as "
    "duplicate-free (sorted) lists; order callables observed as a node->score table (each node is scored once); "
    "steps of >= 3 tensors inside from_path are completed by an optimizer and are outside the model (the harness "
    "only checks the merged unions there).")
TECHNIQUE = ("Lean 4 proof (binary-search invariant, simulation of the two converters on a shared id list, multiset "
             "invariant over traversal sweeps, stack-machine induction) + differential correspondence / certificate "
             "checking against core.py and path_basic.py")
LEAN_MODULES = ["CotengraVerif.Props.C10"]
THEOREMS = []  # filled below once Props/C10 exists
TRUSTED = [
    "Lean 4.33 kernel; axioms ⊆ {propext, Classical.choice, Quot.sound}",
    "hand-written model Model/Paths.lean of path_basic.py:789-892 and core.py:474-574, 1422-1470, 2698-2765, tied by "
    "this run's correspondence on the generated cases only",
    "harness canonicalisation: a node is its sorted leaf list; steps are compared as sorted lists; scores are "
    "rank-transformed to naturals (preserves < and ==)",
]
ASSUMPTIONS = [
    "trees are complete with N >= 2 leaves 0..N-1; paths contain non-negative ints",
    "order callables are functions of the node (any values comparable with <); each node is scored exactly once",
]
RULE = ("random trees (random/caterpillar/balanced, N=2..9) x orders {dfs, surface_order, random scores, constant, "
        "size, min-leaf, few-valued ties}; random valid linear/ssa paths incl. single-tensor and k-ary steps and "
        "incomplete paths; random permutations / sub-sequences / repeated entries of the indices as edge paths; "
        "non-trivial = N >= 3; distinct by content hash")
BUDGET = {"quick": 600, "thorough": 3000}

THEOREMS = [
    "Cotengra.C10.ssa_linear_inverse",
    "Cotengra.C10.linear_ssa_inverse",
    "Cotengra.C10.traverse_ordered_children_first",
    "Cotengra.C10.traverse_dfs_postorder",
    "Cotengra.C10.cfCheck_sound",
    "Cotengra.C10.getPath_eq_ssaToLinear_getSsaPath",
    "Cotengra.C10.ssa_path_roundtrip",
    "Cotengra.C10.fromPath_ssaToLinear",
    "Cotengra.C10.path_roundtrip",
    "Cotengra.C10.path_roundtrip_traversals",
    "Cotengra.C10.edge_path_valid",
    "Cotengra.C10.from_edge_path_eq",
]


# --------------------------------------------------------------------------------------------


def norm(path):
    return [sorted(int(i) for i in s) for s in path]


def node_key(node):
    return sorted(int(i) for i in node)


def nodes_of(tree):
    return sorted(node_key(p) for p in tree.children)


def valid_ssa(path, n):
    live = set(range(n))
    nxt = n
    for s in path:
        if len(set(s)) != len(s) or any(i not in live for i in s):
            return False
        live -= set(s)
        live.add(nxt)
        nxt += 1
    return True


def valid_linear(path, n):
    ln = n
    for s in path:
        if len(set(s)) != len(s) or any(not (0 <= i < ln) for i in s):
            return False
        ln = ln - len(s) + 1
    return True


def merges_linear(path, n):
    """the unions a linear path performs (independent simulation)"""
    nodes = [frozenset([i]) for i in range(n)]
    out = []
    for s in path:
        m = [nodes.pop(i) for i in sorted(s, reverse=True)]
        u = frozenset().union(*m)
        nodes.append(u)
        if len(s) > 1:
            out.append(sorted(u))
    return out, sorted(sorted(x) for x in nodes)


def merges_ssa(path, n):
    nodes = {i: frozenset([i]) for i in range(n)}
    out = []
    nxt = n
    for s in path:
        m = [nodes.pop(i) for i in s]
        u = frozenset().union(*m)
        nodes[nxt] = u
        nxt += 1
        if len(s) > 1:
            out.append(sorted(u))
    return out, sorted(sorted(x) for x in nodes.values())


def rand_linear_path(rng, n, binary=False, complete=True):
    path, ln = [], n
    while ln > 1:
        if not complete and rng.random() < 0.25:
            break
        r = rng.random()
        k = 2 if binary or r < 0.7 else (1 if r < 0.85 else min(ln, rng.randint(3, 4)))
        k = min(k, ln)
        path.append(rng.sample(range(ln), k))
        ln = ln - k + 1
    return path


def rand_ssa_path(rng, n, binary=False, complete=True):
    live = list(range(n))
    path, nxt = [], n
    while len(live) > 1:
        if not complete and rng.random() < 0.25:
            break
        r = rng.random()
        k = 2 if binary or r < 0.7 else (1 if r < 0.85 else min(len(live), rng.randint(3, 4)))
        k = min(k, len(live))
        s = rng.sample(live, k)
        for i in s:
            live.remove(i)
        live.append(nxt)
        nxt += 1
        path.append(s)
    return path


ORDERS = ("dfs", "surface_order", "random", "constant", "size", "negsize", "minleaf", "ties")


def make_order(kind, seed, tree):
    """returns (order argument for the real API, table of recorded scores)"""
    table = {}
    if kind == "dfs":
        return None, table
    if kind == "surface_order":  # the literal string takes its own branch in _traverse_ordered
        for node in tree.children:
            table[frozenset(node)] = [tree.surface_order(node)]
        return "surface_order", table
    rg = random.Random(seed)

    def raw(node):
        if kind == "surface_order":
            return tree.surface_order(node)
        if kind == "random":
            return rg.random()
        if kind == "constant":
            return 0
        if kind == "size":
            return len(node)
        if kind == "negsize":
            return -len(node)
        if kind == "minleaf":
            return min(node)
        return rg.randrange(3)  # ties

    def order(node):
        v = raw(node)
        table.setdefault(frozenset(node), []).append(v)
        return v

    return order, table


def rank_table(table):
    vals = sorted(set(v[0] for v in table.values()))
    rk = {v: i for i, v in enumerate(vals)}
    return [[sorted(int(i) for i in node), rk[v[0]]] for node, v in table.items()]


def gen_tree_case(rng, tier):
    n = rng.randint(2, 7 if tier == "quick" else 9)
    net = gen.rand_net(rng, nmin=n, nmax=n, max_inds=8, dims=(2,), max_rank=6, max_total=10 ** 9)
    cls = rng.choice(["plain", "plain", "compressed"])
    return {"kind": "tree", "net": net.json(), "tree": gen.rand_tree(rng, n),
            "order": "dfs" if (cls == "compressed" and rng.random() < 0.5) else rng.choice(ORDERS),
            "seed": rng.randrange(1 << 30),
            # the ordered-tree subclass resolves `order=None` to its surface order, not to dfs
            "cls": cls}


def gen_path_case(rng, tier):
    n = rng.randint(1, 8 if tier == "quick" else 10)
    binary = rng.random() < 0.5
    complete = rng.random() < 0.7
    if rng.random() < 0.5:
        return {"kind": "linear", "n": n, "path": rand_linear_path(rng, n, binary, complete),
                "give_n": rng.random() < 0.7 or not complete}
    return {"kind": "ssa", "n": n, "path": rand_ssa_path(rng, n, binary, complete),
            "give_n": rng.random() < 0.7 or not complete}


def gen_edge_case(rng, tier):
    net = gen.rand_net(rng, nmin=1, nmax=6 if tier == "quick" else 8, max_inds=8, dims=(2,), max_rank=6,
                       max_total=10 ** 9)
    inds = net.indices()
    r = rng.random()
    if r < 0.5:
        ep = list(inds)
        rng.shuffle(ep)
    elif r < 0.85:
        ep = rng.sample(inds, rng.randint(0, len(inds)))
    else:  # malformed: a repeated or unknown index somewhere
        ep = list(inds)
        rng.shuffle(ep)
        if ep and rng.random() < 0.6:
            ep.insert(rng.randrange(len(ep) + 1), rng.choice(ep))
        else:
            ep.insert(rng.randrange(len(ep) + 1), 99)
    return {"kind": "edge", "inputs": net.inputs, "edge_path": ep, "output": list(net.output)}


# --------------------------------------------------------------------------------------------
# one case = observation + oracle (implementation only); returns (fail | None, obs)


def shuffled_ssa(t, n, seed):
    """an SSA path of the nested tree `t` whose steps come in a random children-first order (not the
    depth-first one): the order an ordered tree remembers as its own"""
    steps = []      # (id, a, b) with provisional ids

    def go(x):
        if isinstance(x, int):
            return ("leaf", x)
        a, b = go(x[0]), go(x[1])
        steps.append([("node", len(steps)), a, b])
        return steps[-1][0]
    go(t)
    rr = random.Random(seed)
    done, ids, out, nxt = set(), {}, [], n
    pending = list(range(len(steps)))
    while pending:
        ready = [k for k in pending if all(c[0] == "leaf" or c in done for c in steps[k][1:])]
        k = rr.choice(ready)
        pending.remove(k)
        me, a, b = steps[k]
        out.append(tuple(c[1] if c[0] == "leaf" else ids[c] for c in (a, b)))
        ids[me] = nxt
        nxt += 1
        done.add(me)
    return out


def run_tree_case(case):
    net = gen.Net.from_json(case["net"])
    n = len(net.inputs)
    if case.get("cls") == "compressed":
        tree = ctg.ContractionTreeCompressed.from_path(net.sym_inputs(), net.sym_output(), net.sym_sizes(),
                                                       ssa_path=shuffled_ssa(case["tree"], n, case["seed"]))
    else:
        tree = gen.real_tree(ctg, net, case["tree"])
    want_nodes = nodes_of(tree)
    order, table = make_order(case["order"], case["seed"], tree)
    seq = [node_key(p) for p, l, r in tree.traverse(order)]
    kids = {tuple(node_key(p)): [node_key(c) for c in tree.children[p]] for p in tree.children}
    scores = rank_table(table)
    multi = any(len(v) != 1 for v in table.values())
    # fresh callables for the two path getters (same scores: deterministic in the node or seeded alike)
    o2, _ = make_order(case["order"], case["seed"], tree)
    ssa = [list(map(int, s)) for s in tree.get_ssa_path(o2)]
    o3, _ = make_order(case["order"], case["seed"], tree)
    lin = [list(map(int, s)) for s in tree.get_path(o3)]
    obs = {"n": n, "seq": seq, "ssa": ssa, "lin": lin, "scores": scores, "bt": gen.bt_of_real(tree),
           "nodes": want_nodes, "scored_twice": multi}
    # oracle ------------------------------------------------------------------------------
    if sorted(seq) != want_nodes:
        return ("traverse-not-a-permutation", [seq, want_nodes]), obs
    done = set()
    for x in seq:
        for c in kids[tuple(x)]:
            if len(c) > 1 and tuple(c) not in done:
                return ("traverse-parent-before-child", [x, c]), obs
        done.add(tuple(x))
    if not valid_ssa(ssa, n) or len(ssa) != n - 1:
        return ("get_ssa_path-invalid", ssa), obs
    if not valid_linear(lin, n) or len(lin) != n - 1:
        return ("get_path-invalid", lin), obs
    if sorted(merges_ssa(ssa, n)[0]) != want_nodes:
        return ("get_ssa_path-other-tree", ssa), obs
    if sorted(merges_linear(lin, n)[0]) != want_nodes:
        return ("get_path-other-tree", lin), obs
    args = (net.sym_inputs(), net.sym_output(), net.sym_sizes())
    with warnings.catch_warnings():
        warnings.simplefilter("ignore")
        t1 = ctg.ContractionTree.from_path(*args, path=lin, autocomplete=False)
        t2 = ctg.ContractionTree.from_path(*args, ssa_path=ssa, autocomplete=False)
    if nodes_of(t1) != want_nodes:
        return ("from_path(get_path)-other-tree", lin), obs
    if nodes_of(t2) != want_nodes:
        return ("from_path(get_ssa_path)-other-tree", ssa), obs
    if norm(pb.linear_to_ssa(lin, n)) != norm(ssa) or norm(pb.ssa_to_linear(ssa, n)) != norm(lin):
        return ("get_path-vs-get_ssa_path-conversion", [lin, ssa]), obs
    if case.get("cls") == "compressed":
        # the class' own constructor from the emitted paths gives the tree back as well
        with warnings.catch_warnings():
            warnings.simplefilter("ignore")
            t3 = ctg.ContractionTreeCompressed.from_path(*args, path=lin)
            t4 = ctg.ContractionTreeCompressed.from_path(*args, ssa_path=ssa)
        if nodes_of(t3) != want_nodes or nodes_of(t4) != want_nodes:
            return ("ContractionTreeCompressed.from_path(get_path)-other-tree", [lin, ssa]), obs
    return None, obs


def run_path_case(case):
    n, path = case["n"], case["path"]
    N = n if case["give_n"] else None
    obs = {}
    if case["kind"] == "linear":
        ssa = [list(map(int, s)) for s in pb.linear_to_ssa(path, N)]
        back = [list(map(int, s)) for s in pb.ssa_to_linear(ssa, N)]
        obs.update(conv=ssa, back=back)
        if not valid_ssa(ssa, n):
            return ("linear_to_ssa-invalid", ssa), obs
        if norm(back) != norm(path):
            return ("ssa_to_linear(linear_to_ssa(p))!=p", [path, ssa, back]), obs
        if merges_ssa(ssa, n) != merges_linear(path, n):
            return ("linear_to_ssa-other-merges", [path, ssa]), obs
    else:
        lin = [list(map(int, s)) for s in pb.ssa_to_linear(path, N)]
        back = [list(map(int, s)) for s in pb.linear_to_ssa(lin, N)]
        obs.update(conv=lin, back=back)
        if not valid_linear(lin, n):
            return ("ssa_to_linear-invalid", lin), obs
        if norm(back) != norm(path):
            return ("linear_to_ssa(ssa_to_linear(p))!=p", [path, lin, back]), obs
        if merges_linear(lin, n) != merges_ssa(path, n):
            return ("ssa_to_linear-other-merges", [path, lin]), obs
    # from_path on binary/unary paths: parents = the unions (no optimizer involved)
    if all(len(s) <= 2 for s in path) and n >= 2:
        inputs = [(gen.sym(i),) for i in range(n)]
        sizes = {gen.sym(i): 2 for i in range(n)}
        kw = {"path": path} if case["kind"] == "linear" else {"ssa_path": path}
        with warnings.catch_warnings():
            warnings.simplefilter("ignore")
            t = ctg.ContractionTree.from_path(inputs, (), sizes, autocomplete=False, **kw)
        want = (merges_linear if case["kind"] == "linear" else merges_ssa)(path, n)[0]
        obs["parents"] = nodes_of(t)
        if sorted(want) != obs["parents"]:
            return ("from_path-other-tree", [path, obs["parents"], want]), obs
    return None, obs


def spec_edge(edge_path, inputs):
    """independent leaf-set simulation: for every index with >= 2 carriers, the sorted list of the
    carriers' leaf sets (what is merged at that moment); 'KeyError' for a repeated/unknown index"""
    cur = [frozenset([i]) for i in range(len(inputs))]
    gone = set()
    known = {ix for t in inputs for ix in t}
    out = []
    for ix in edge_path:
        if ix in gone or ix not in known:
            return "KeyError"
        gone.add(ix)
        carriers = [x for x in cur if any(ix in inputs[l] for l in x)]
        if len(carriers) < 2:
            continue
        cur = [x for x in cur if x not in carriers] + [frozenset().union(*carriers)]
        out.append(sorted(sorted(x) for x in carriers))
    return out


def merge_detail(path, n):
    """for every step of >= 2 ids of an ssa path: the sorted list of the leaf sets it consumes
    (single-tensor steps only rename a tensor and are ignored)"""
    nodes = {i: frozenset([i]) for i in range(n)}
    out, nxt = [], n
    for s in path:
        m = [nodes.pop(i) for i in s]
        nodes[nxt] = frozenset().union(*m)
        nxt += 1
        if len(s) > 1:
            out.append(sorted(sorted(x) for x in m))
    return out


def run_edge_case(case):
    inputs = [tuple(gen.sym(i) for i in t) for t in case["inputs"]]
    ep = [gen.sym(i) for i in case["edge_path"]]
    obs = {}
    try:
        ssa = [list(map(int, s)) for s in pb.edge_path_to_ssa(ep, inputs)]
    except KeyError:
        ssa = "KeyError"
    try:
        lin = [list(map(int, s)) for s in pb.edge_path_to_linear(ep, inputs)]
    except KeyError:
        lin = "KeyError"
    obs.update(ssa=ssa, lin=lin)
    want = spec_edge(case["edge_path"], case["inputs"])
    n = len(inputs)
    if want == "KeyError" or ssa == "KeyError":
        if ssa != want:
            return ("edge_path_to_ssa-KeyError-mismatch", [ssa, want]), obs
        if lin != "KeyError":
            return ("edge_path_to_linear-no-KeyError", lin), obs
        return None, obs
    if not valid_ssa(ssa, n):
        return ("edge_path_to_ssa-invalid", ssa), obs
    obs["detail"] = merge_detail(ssa, n)
    if obs["detail"] != want:
        return ("edge_path_to_ssa-vs-definition", [ssa, want]), obs
    if lin == "KeyError" or not valid_linear(lin, n) or merges_linear(lin, n) != merges_ssa(ssa, n):
        return ("edge_path_to_linear-other-merges", [lin, ssa]), obs
    if "output" in case and n >= 1:
        bad = from_edge_oracle(case, inputs, ep, want, obs)
        if bad is not None:
            return bad, obs
    return None, obs


def from_edge_oracle(case, inputs, ep, want, obs):
    """`ContractionTree.from_path(inputs, output, size_dict, edge_path=ep)` -- "into trees": the tree contracts, for
    each index in turn, exactly the tensors that carry it at that moment (`want`, the leaf-set simulation), whatever
    the output is: every merge of `want` is a node of the tree, every other node lies inside a merge of three or
    more tensors (where an optimizer chooses the binary sub-tree), and the nodes left without a parent are the
    tensors left by the simulation."""
    output = tuple(gen.sym(i) for i in case["output"])
    sizes = {ix: 2 for t in inputs for ix in t}
    with warnings.catch_warnings():
        warnings.simplefilter("ignore")
        tree = ctg.ContractionTree.from_path(inputs, output, sizes, edge_path=ep, autocomplete=False,
                                             optimize="greedy")
    nodes = {frozenset(map(int, x)) for x in tree.children}
    merges = [[frozenset(c) for c in step] for step in want]
    unions = [frozenset().union(*step) for step in merges]
    obs["edge_tree_nodes"] = sorted(sorted(x) for x in nodes)
    obs["edge_all_binary"] = all(len(step) == 2 for step in merges)
    missing = [sorted(u) for u in unions if u not in nodes]
    if missing:
        return ("from_path(edge_path)-step-missing", {"missing_nodes": missing, "tree_nodes": obs["edge_tree_nodes"]})
    for x in nodes:
        if x in unions:
            continue
        # an intermediate of a k-ary step: a union of >= 2 (not all) of that step's carriers
        ok = False
        for step, u in zip(merges, unions):
            if len(step) >= 3 and x < u:
                parts = [c for c in step if c <= x]
                if len(parts) >= 2 and frozenset().union(*parts) == x:
                    ok = True
                    break
        if not ok:
            return ("from_path(edge_path)-extra-node", sorted(x))
    # what is left without a parent
    cur = [frozenset([i]) for i in range(len(inputs))]
    for step, u in zip(merges, unions):
        cur = [c for c in cur if c not in step] + [u]
    childs = {frozenset(map(int, c)) for lr in tree.children.values() for c in lr}
    every = nodes | {frozenset([i]) for i in range(len(inputs))}
    left = {x for x in every if x not in childs}
    if len(inputs) >= 2 and left != set(cur):
        return ("from_path(edge_path)-parentless-nodes", [sorted(sorted(x) for x in left),
                                                          sorted(sorted(x) for x in cur)])
    return None


RUNNERS = {"tree": run_tree_case, "linear": run_path_case, "ssa": run_path_case, "edge": run_edge_case}


def fails(case):
    try:
        return RUNNERS[case["kind"]](case)[0]
    except Exception as e:
        return ("exception:" + type(e).__name__, str(e)[:200])


# --------------------------------------------------------------------------------------------
# correspondence with the Lean model


def correspond(ctx, drv, case, obs):
    bad = []
    k = case["kind"]
    if k == "tree":
        r = drv.call("c10.tree", tree=obs["bt"], scores=obs["scores"], seq=obs["seq"])
        if "error" in r:
            ctx.corr_broken("driver error: " + r["error"], case)
            return
        if not r["cf_ok"]:
            bad.append("cfCheck rejects the real traversal")
        if not r["ssa_path"].get("ok") or norm(r["ssa_path"]["path"]) != norm(obs["ssa"]):
            bad.append("get_ssa_path vs model on the real traversal")
        if not r["path"].get("ok") or norm(r["path"]["path"]) != norm(obs["lin"]):
            bad.append("get_path vs model on the real traversal")
        model_seq = r["dfs"] if case["order"] == "dfs" else r["ordered"]
        same = model_seq == obs["seq"]
        ctx.count("traversal:%s:%s" % ("dfs" if case["order"] == "dfs" else "ordered",
                                       "identical-to-model" if same else "differs-from-model"))
        if not same:
            ctx.notes["traversal_differs_from_model"] = ctx.notes.get("traversal_differs_from_model", 0) + 1
        for which, p in (("ssa", obs["ssa"]), ("lin", obs["lin"])):
            f = drv.call("c10.from_path", n=obs["n"], path=p, ssa=(which == "ssa"))
            if not f.get("ok") or sorted(f["parents"]) != obs["nodes"]:
                bad.append("from_path(%s) parents" % which)
    elif k in ("linear", "ssa"):
        op1, op2 = ("c10.linear_to_ssa", "c10.ssa_to_linear") if k == "linear" else \
            ("c10.ssa_to_linear", "c10.linear_to_ssa")
        kw = {"n": case["n"]} if case["give_n"] else {}
        a = drv.call(op1, path=case["path"], **kw)
        if not a.get("ok") or norm(a["path"]) != norm(obs["conv"]):
            bad.append(op1)
        else:
            b = drv.call(op2, path=a["path"], **kw)
            if not b.get("ok") or norm(b["path"]) != norm(obs["back"]):
                bad.append(op2)
        if "parents" in obs:
            f = drv.call("c10.from_path", n=case["n"], path=case["path"], ssa=(k == "ssa"))
            if not f.get("ok") or sorted(f["parents"]) != obs["parents"]:
                bad.append("from_path parents")
    else:
        a = drv.call("c10.edge_to_ssa", edge_path=case["edge_path"], inputs=case["inputs"])
        n = len(case["inputs"])
        if obs["ssa"] == "KeyError":
            if a.get("ok"):
                bad.append("edge_path_to_ssa (KeyError)")
        elif not a.get("ok") or not valid_ssa(a["path"], n) or merge_detail(a["path"], n) != obs["detail"]:
            bad.append("edge_path_to_ssa (merges)")
        else:
            ctx.count("edge:ids-identical-to-model" if norm(a["path"]) == norm(obs["ssa"])
                      else "edge:ids-differ-from-model")
            if "edge_tree_nodes" in obs:
                # from_path(edge_path=...) of the model (binary steps only: a k-ary step is completed by an
                # optimizer, outside the model) versus the nodes of the real tree
                f = drv.call("c10.from_edge", edge_path=case["edge_path"], inputs=case["inputs"])
                if obs["edge_all_binary"]:
                    if not f.get("ok") or sorted(sorted(x) for x in f["parents"]) != obs["edge_tree_nodes"]:
                        bad.append("from_path(edge_path) parents")
                    else:
                        ctx.count("edge:from_path-tree-compared")
                else:
                    ctx.count("edge:from_path-k-ary(oracle only)")
    ctx.traces += 1
    if bad:
        ctx.corr_broken("model and implementation disagree on: " + "; ".join(bad), case)


def check_case(ctx, drv, case):
    k = case["kind"]
    ctx.count("kind:" + k)
    try:
        bad, obs = RUNNERS[k](case)
    except Exception as e:
        bad, obs = ("exception:" + type(e).__name__, str(e)[:200]), None
    if k == "tree":
        n = len(case["net"]["inputs"])
        ctx.count("order:" + case["order"])
        ctx.count("tree-class:" + case.get("cls", "plain"))
        ctx.count("N:%d" % n)
        nontrivial = n >= 3
    elif k == "edge":
        n = len(case["inputs"])
        ctx.count("edge:" + ("KeyError" if obs and obs["ssa"] == "KeyError" else "ok"))
        if obs and obs["ssa"] != "KeyError":
            ctx.count("edge:steps", len(obs["ssa"]))
            ctx.count("edge:skipped", len(case["edge_path"]) - len(obs["ssa"]))
            if any(len(s) > 2 for s in obs["ssa"]):
                ctx.count("edge:k-ary-step")
        nontrivial = n >= 3
    else:
        n = case["n"]
        ctx.count("path:given-N" if case["give_n"] else "path:default-N")
        for s in case["path"]:
            ctx.count("step-arity:%s" % (len(s) if len(s) <= 2 else "3+"))
        nontrivial = n >= 3 and len(case["path"]) >= 2
    ctx.case(case, nontrivial=nontrivial)
    if bad is not None:
        small = shrink(case, bad[0])
        ctx.violation({"site": "paths:" + k, "kind": bad[0]}, {"case": small, "kind": bad[0], "detail": bad[1]},
                      "path conversion / traversal violates the property: " + bad[0])
        return
    if drv is not None:
        correspond(ctx, drv, case, obs)


def shrink(case, kind):
    cur = json.loads(json.dumps(case))
    if cur["kind"] == "edge":
        changed = True
        while changed:
            changed = False
            for k in range(len(cur["edge_path"])):
                cand = json.loads(json.dumps(cur))
                del cand["edge_path"][k]
                f = fails(cand)
                if f is not None and f[0] == kind:
                    cur, changed = cand, True
                    break
    return cur


def exhaustive_trees(ctx, drv):
    cnt = 0
    for n in (2, 3, 4, 5):
        net = gen.Net([[i] for i in range(n)], [], {i: 2 for i in range(n)})
        for t in gen.all_trees(range(n)):
            for order in ORDERS:
                if ctx.time_left() < 30:
                    return cnt, False
                check_case(ctx, drv, {"kind": "tree", "net": net.json(), "tree": t, "order": order, "seed": cnt})
                cnt += 1
    return cnt, True


def run(ctx, drv):
    for path in sorted(glob.glob(os.path.join(common.VERIF, "corpus", PROP, "*.json"))):
        obj = json.load(open(path))
        ctx.count("corpus")
        check_case(ctx, drv, obj.get("replay", obj)["case"])
    if ctx.tier == "thorough":
        cnt, complete = exhaustive_trees(ctx, drv)
        ctx.notes["exhaustive_trees_n<=5_x_orders"] = {"cases": cnt, "complete": complete}
        ctx.exhaustive = complete
    ncases = 6000 if ctx.tier == "quick" else 300000
    for i in range(ncases):
        if ctx.time_left() < 10:
            break
        g = (gen_tree_case, gen_tree_case, gen_path_case, gen_edge_case)[i % 4]
        check_case(ctx, drv, g(ctx.rng, ctx.tier))


def search(ctx):
    for i in range(6000):
        if ctx.time_left() < 5:
            break
        g = (gen_tree_case, gen_path_case, gen_edge_case)[i % 3]
        case = g(ctx.rng, "thorough")
        f = fails(case)
        ctx.count("search-cases")
        if f is not None:
            ctx.violation({"site": "paths:" + case["kind"], "kind": f[0]},
                          {"case": shrink(case, f[0]), "kind": f[0], "detail": f[1]},
                          "path conversion / traversal violates the property: " + f[0])
            return True
    return False


def replay(ctx, obj):
    return fails(obj["case"]) is None
