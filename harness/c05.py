"""C05 -- every pathfinder returns a complete, well-formed contraction of its network.

Lean side (Props/C05.lean): verified checkers for linear / SSA paths and for `children` dicts
(sound and complete for "every step names existing distinct tensors, every input is consumed
exactly once, one tensor is left"), `from_path` incl. autocomplete yields a complete tree for
every replayable path and every valid sub-optimizer, the ContractionProcessor's bookkeeping emits
a valid complete SSA path for *every* sequence of choices once `optimize_remaining_by_size` has
run, `build_divide` terminates for every partitioner, `build_agglom` does so iff every round
merges something (counter-example: it hangs otherwise; proposed repair proved total), the kahypar
short-circuits return memberships of full length.

Tie (A): the verified checkers run on the *real* outputs of every registered exact finder
(presets, optimizer objects, the registered hyper functions with parameters sampled from their
registered spaces, HyperOptimizer.search, explicit linear / SSA / edge paths) on corner-case
networks. (E): from_path trees, processor state after real runs, `separate`, kahypar
short-circuits, and the agglom loop under adversarial partitioners against the models.
Oracle (implementation only): independent Python validity checks of paths and trees.
"""

import contextlib
import json
import math
import os
import signal
import sys
import time
import warnings

import cotengra as ctg
from cotengra import core as ccore
from cotengra.pathfinders import path_basic as pb
from cotengra.hyperoptimizers import hyper as chyper

from . import gen, common, c05_presets, c05_sessions

PROP = "C05"
LEVEL = "proof"
LEVEL_TEXT = (
    "Proof plus verified checking. Proved in Lean 4 for all inputs: the path/tree validity checkers are "
    "sound and complete w.r.t. the replay semantics (each input consumed exactly once, one tensor left); "
    "from_path with autocomplete completes every replayable path of any arity, with the sub-optimizer "
    "assumption discharged for the code as it stands (contract_nodes on k >= 3 nodes replays the inner "
    "finder's path: complete whenever that path is a valid pairwise path of the k nodes); every word of "
    "ContractionProcessor operations followed by optimize_remaining_by_size emits a valid complete SSA "
    "path, ssa_to_linear turns every valid SSA path into a valid linear path without raising, and "
    "from_path(ssa_path) needs no autocompletion (greedy / optimal / random-greedy trials end to end); "
    "RandomOptimizer's path is valid for every PRNG; build_divide's loop terminates for every number of "
    "inputs, every contract-honouring partitioner and every order of childless nodes; build_agglom's loop "
    "terminates for every partitioner (code as repaired; the unrepaired loop provably hangs); kahypar's "
    "short-circuits return full-length memberships; a preset bound to a function building its optimizer "
    "per call answers every sequence of queries with a path of the queried network, one shared "
    "RandomGreedyOptimizer provably does not, and a closed obligation over the table regenerated from the "
    "live preset registry shows that no preset is bound to an object that carries a best-so-far between "
    "calls. The remaining quantifier -- registered optimizer x sampled hyper-parameters x network x order "
    "of calls in one process -- is explored with the verified checkers on the real outputs.")
LEVEL_NOTE = (
    "Trusted: Lean kernel; the hand-written models (Model/Path, Processor, Partition, ContractNodes, "
    "BestSoFar) validated by the differential runs of this check; native kahypar, the numeric scores and "
    "every inner optimizer are oracles (the theorems quantify over them); the `children` dict mechanics of "
    "contract_nodes_pair and the nested case of get_incomplete_nodes are checked on the real trees, not "
    "proved; the extractor of the preset table (harness/c05_presets.py: reflection over the live registry "
    "+ AST of the registered classes); harness canonicalisation and the independent Python oracles.")
TECHNIQUE = ("Lean 4 proofs (replay invariants, parametricity of the replay in the item type, termination "
             "measures) + certificate checking of real paths/trees + differential correspondence")
LEAN_MODULES = ["CotengraVerif.Props.C05", "CotengraVerif.Props.C05Facts"]
ANCHOR_FILES = ["cotengra/__init__.py"]      # where most preset names are bound
THEOREMS = [
    "Cotengra.C05.validLinear_iff_spec",
    "Cotengra.C05.validSSA_iff_spec",
    "Cotengra.C05.checkTree_sound",
    "Cotengra.C05.validShape_caterpillar",
    "Cotengra.C05.fromPath_complete",
    "Cotengra.C05.fromSSA_complete",
    "Cotengra.C05.processor_path_valid",
    "Cotengra.C05.divide_terminates_partial",
    "Cotengra.C05.divide_single_input_counterexample",
    "Cotengra.C05.divide_terminates_repaired",
    "Cotengra.C05.agglom_complete_partial",
    "Cotengra.C05.agglom_counterexample",
    "Cotengra.C05.agglom_fixed_complete",
    "Cotengra.C05.kahypar_edge_cases",
    "Cotengra.C05.divide_terminates",
    "Cotengra.C05.agglom_terminates",
    "Cotengra.C05.contractNodes_complete",
    "Cotengra.C05.validShape_of_inner",
    "Cotengra.C05.fromPath_kary_complete",
    "Cotengra.C05.randomOptimizer_path_valid",
    "Cotengra.C05.ssaToLinear_valid",
    "Cotengra.C05.fromSSA_complete_noauto",
    "Cotengra.C05.greedy_finder_valid",
    "Cotengra.C05.random_greedy_preset_valid",
    "Cotengra.C05.preset_fresh_per_call_valid",
    "Cotengra.C05.preset_shared_instance_counterexample",
    "Cotengra.C05.shared_instance_same_network_valid",
    "Cotengra.C05.shared_instance_decreasing_valid",
    "Cotengra.C05.presets_bound_safely",
    "Cotengra.C05.random_greedy_presets_fresh",
    "Cotengra.C05.presets_listed",
]
TRUSTED = [
    "Lean 4.33 kernel; axioms ⊆ {propext, Classical.choice, Quot.sound}",
    "hand-written models Model/Path.lean (core.py:474-574, 1343-1399), Model/Processor.lean "
    "(path_basic.py:410-461, 475-527, 604-628, 761-786), Model/Partition.lean (core.py:3968-4077, 4100-4109, "
    "path_kahypar.py:69-98), Model/ContractNodes.lean (core.py:1343-1399, path_basic.py:821-843, "
    "path_random.py:25-35), Model/BestSoFar.lean (path_basic.py:1457-1458, 1519-1523; what register_preset "
    "stores), tied by this check on the generated cases only",
    "native kahypar, greedy scores, DP result, PRNGs: oracles",
    "harness/c05_presets.py: the preset table is read off the live registry and the source of the registered "
    "classes (a store through `self` on the query path that is read back there counts as carried state)",
    "harness: symbol renaming, children-dict dump, independent validity oracles; sessions are forked from a "
    "process image that has imported cotengra but not called into it",
]
ASSUMPTIONS = [
    "finders are driven in-process with cotengrust absent; hyper-parameters are sampled uniformly "
    "(log-uniformly for FLOAT_EXP) from the registered spaces; networks up to ~40 tensors",
    "a call that does not return within the per-call limit (twice confirmed) counts as non-termination",
]
RULE = ("corner-case networks (1 and 2 tensors, scalars, disconnected, hyper / repeated / dangling / "
        "all-tensor indices, size-1 dims) and 11-40-tensor graphs x {presets with interface options (shapes, "
        "canonicalize, sort_contraction_indices), optimizer objects and functions with simplify / use_ssa / "
        "cost options, registered hyper functions with sampled parameters, HyperOptimizer.search, explicit "
        "linear/SSA/edge paths incl. partial and multi-arity with an explicit inner finder, partial trees "
        "completed by autocomplete}; sessions = sequences of 2-6 calls in one pristine process image through "
        "every registered preset string (registry enumerated at run time; cheaper-then-dearer, more-then-fewer "
        "tensors and back) and through explicit linear / edge paths in tuple / list containers in every order; "
        "non-trivial = >= 3 tensors or a corner feature; distinct by content hash")
BUDGET = {"quick": 900, "thorough": 3600}

PRESETS = ["greedy", "optimal", "optimal-outer", "auto", "auto-hq", "random"]
HYPER_METHODS = ["greedy", "random-greedy", "labels", "kahypar", "kahypar-balanced", "kahypar-agglom",
                 "labels-agglom", "random"]


def gen_facts():
    """what every registered preset name is bound to, and what the classes of the registered instances
    carry between calls -- read off the live registry of the checkout under test"""
    return {"CotengraVerif/Generated/FactsC05.lean": c05_presets.lean_source(c05_presets.extract())}


# ------------------------------------------------------------------------------ time limits


class CallTimeout(Exception):
    pass


@contextlib.contextmanager
def call_timeout(seconds):
    def _h(sig, frm):
        raise CallTimeout()
    prev = signal.getsignal(signal.SIGALRM)
    remaining = signal.getitimer(signal.ITIMER_REAL)[0]
    signal.setitimer(signal.ITIMER_REAL, 0)
    t0 = time.time()
    signal.signal(signal.SIGALRM, _h)
    signal.setitimer(signal.ITIMER_REAL, seconds)
    try:
        yield
    finally:
        signal.setitimer(signal.ITIMER_REAL, 0)
        signal.signal(signal.SIGALRM, prev)
        if remaining:
            signal.setitimer(signal.ITIMER_REAL, max(0.05, remaining - (time.time() - t0)))


_HANGS = set()   # (site, label, ntensors class, disconnected) already seen not to terminate in this run


def guarded(fn, limit=5, warns=None, attempts=2):
    """Run fn(); returns ("ok", value) | ("raises", "TypeName: msg") | ("no-termination", limit).
    `warns` (a list) collects the texts of the warnings issued; `attempts=1` never re-runs fn (a
    second run would change the state a sequence of calls is about)."""
    for attempt in range(1, attempts + 1):
        try:
            with call_timeout(limit * attempt), warnings.catch_warnings(record=True) as w:
                warnings.simplefilter("always" if warns is not None else "ignore")
                try:
                    return "ok", fn()
                finally:
                    if warns is not None:
                        warns.extend(str(x.message)[:90] for x in w)
        except CallTimeout:
            continue
        except Exception as e:  # noqa: BLE001 -- any exception is a failure to return a contraction
            return "raises", f"{type(e).__name__}: {str(e)[:160]}"
    return "no-termination", attempts * limit


def forked(fn, limit=20):
    """Run fn() -> JSON-serialisable value in a forked child (native kahypar may abort the whole
    process). Returns ("ok", value) | ("raises", msg) | ("no-termination", limit) |
    ("process-killed", exit status)."""
    rfd, wfd = os.pipe()
    pid = os.fork()
    if pid == 0:
        code = 0
        try:
            os.close(rfd)
            try:
                with warnings.catch_warnings():
                    warnings.simplefilter("ignore")
                    out = ["ok", fn()]
            except Exception as e:  # noqa: BLE001
                out = ["raises", f"{type(e).__name__}: {str(e)[:160]}"]
            with os.fdopen(wfd, "w") as f:
                json.dump(out, f)
        except BaseException:  # noqa: BLE001
            code = 3
        finally:
            os._exit(code)
    os.close(wfd)
    t0 = time.time()
    status = None
    while time.time() - t0 < limit:
        done, status = os.waitpid(pid, os.WNOHANG)
        if done:
            break
        time.sleep(0.002)
    else:
        os.kill(pid, signal.SIGKILL)
        os.waitpid(pid, 0)
        os.close(rfd)
        return "no-termination", limit
    with os.fdopen(rfd) as f:
        data = f.read()
    if not data:
        return "process-killed", "exit status %s" % status
    st, val = json.loads(data)
    return st, val


# ------------------------------------------------------------------------------ independent oracles


def valid_linear(n, path, partial=False):
    """every step names >= 1 distinct existing positions; one tensor left (unless `partial`)"""
    cur = n
    try:
        for step in path:
            if any(isinstance(x, (str, bytes, float)) for x in step):
                return False
            step = [int(x) for x in step]
            if len(step) == 0 or len(set(step)) != len(step):
                return False
            if any(x < 0 or x >= cur for x in step):
                return False
            cur = cur - len(step) + 1
    except (TypeError, ValueError):
        return False
    return partial or cur == 1


def valid_ssa(n, path):
    live = set(range(n))
    nxt = n
    try:
        for step in path:
            step = [int(x) for x in step]
            if len(step) == 0 or len(set(step)) != len(step):
                return False
            if any(x not in live for x in step):
                return False
            live.difference_update(step)
            live.add(nxt)
            nxt += 1
    except (TypeError, ValueError):
        return False
    return len(live) == 1


ORDERS = ["size", "neg-size", "min-leaf", "mixed", "surface_order"]


def order_fn(key):
    return {"size": len, "neg-size": (lambda node: -len(node)), "min-leaf": min,
            "mixed": (lambda node: (sum(node) * 7 + len(node)) % 5)}.get(key, key)


def ordered_paths(tree, n):
    """`get_path / get_ssa_path(order=...)` of a returned tree: every admissible traversal order must give
    a valid complete path as well (core.py:1481-1511, 2717-2800); which order is a function of the tree"""
    key = ORDERS[(n + len(tree.children)) % len(ORDERS)]
    return {"order": key,
            "lin_ord": [[int(x) for x in s_] for s_ in tree.get_path(order=order_fn(key))],
            "ssa_ord": [[int(x) for x in s_] for s_ in tree.get_ssa_path(order=order_fn(key))]}


def dump_children(tree):
    return sorted([sorted(p), sorted(l), sorted(r)] for p, (l, r) in tree.children.items())


def tree_ok(n, children):
    """from the root {0..n-1} downwards every node splits into two non-empty disjoint nodes whose
    union it is, down to single inputs"""
    cmap = {tuple(p): (tuple(l), tuple(r)) for p, l, r in children}
    stack = [tuple(range(n))]
    seen_leaves = []
    if n == 0:
        return False
    while stack:
        x = stack.pop()
        if len(x) == 1:
            seen_leaves.append(x[0])
            continue
        if x not in cmap:
            return False
        l, r = cmap[x]
        if not l or not r or set(l) & set(r) or sorted(set(l) | set(r)) != list(x):
            return False
        stack.extend([l, r])
    return sorted(seen_leaves) == list(range(n))


def canon_tree(t):
    """orientation-free form of a nested-list tree: children ordered by their smallest leaf"""
    if isinstance(t, int):
        return t, t
    (a, ma), (b, mb) = canon_tree(t[0]), canon_tree(t[1])
    return ([a, b], min(ma, mb)) if ma < mb else ([b, a], min(ma, mb))


def nested_of_children(n, children):
    cmap = {tuple(p): (tuple(l), tuple(r)) for p, l, r in children}

    def go(x):
        if len(x) == 1:
            return x[0]
        l, r = cmap[x]
        return [go(l), go(r)]
    return go(tuple(range(n)))


# ------------------------------------------------------------------------------ networks


def corner_nets():
    N = gen.Net
    return [
        ("one-vector", N([[0]], [0], {0: 2})),
        ("one-trace", N([[0, 0]], [], {0: 3})),
        ("one-scalar", N([[]], [], {})),
        ("one-matrix-reduce", N([[0, 1]], [1], {0: 2, 1: 3})),
        ("two-matmul", N([[0, 1], [1, 2]], [0, 2], {0: 2, 1: 3, 2: 2})),
        ("two-outer", N([[0], [1]], [0, 1], {0: 2, 1: 3})),
        ("two-hadamard", N([[0, 1], [0, 1]], [0, 1], {0: 2, 1: 2})),
        ("two-scalars", N([[], []], [], {})),
        ("scalar-and-vector", N([[], [0]], [0], {0: 2})),
        ("three-scalars", N([[], [], []], [], {})),
        ("five-disconnected-vectors", N([[0], [1], [2], [3], [4]], [0, 1, 2, 3, 4], {i: 2 for i in range(5)})),
        ("six-disconnected-vectors", N([[i] for i in range(6)], list(range(6)), {i: 2 for i in range(6)})),
        ("two-components", N([[0, 1], [1, 2], [3, 4], [4, 5]], [0, 2, 3, 5], {i: 2 for i in range(6)})),
        ("all-share-one-index", N([[0, 1], [0, 2], [0, 3], [0]], [0], {0: 2, 1: 2, 2: 3, 3: 2})),
        ("chain-with-scalars", N([[0, 1], [], [1, 2], [], [2, 3]], [0, 3], {i: 2 for i in range(4)})),
        ("repeated-and-dangling", N([[0, 0, 1], [1, 2, 3], [3]], [2], {0: 2, 1: 2, 2: 3, 3: 1})),
        ("six-hadamard", N([[0, 1]] * 6, [0, 1], {0: 2, 1: 3})),
        ("six-hadamard-plus-one", N([[0, 1]] * 6 + [[1, 2]], [0, 2], {0: 2, 1: 3, 2: 2})),
        ("five-hadamard-and-chain", N([[0, 1]] * 5 + [[1, 2], [2, 3]], [0, 3], {0: 2, 1: 2, 2: 2, 3: 2})),
        ("twelve-scalars", N([[] for _ in range(12)], [], {})),
        ("twelve-disconnected-vectors", N([[i] for i in range(12)], list(range(12)),
                                          {i: 2 for i in range(12)})),
    ]


def medium_net(rng, nmin=11, nmax=30):
    """graph-like network with optional extra components, scalars, hyper and output indices"""
    n = rng.randint(nmin, nmax)
    inputs = [[] for _ in range(n)]
    output = []
    nxt = 0
    ncomp = rng.choice([1, 1, 1, 2, 3])
    comp = [rng.randrange(ncomp) for _ in range(n)]
    nscalar = rng.choice([0, 0, 1, 3])
    scalars = set(rng.sample(range(n), min(nscalar, n - 2)))
    nodes = [i for i in range(n) if i not in scalars]
    for c in range(ncomp):
        members = [i for i in nodes if comp[i] == c]
        rng.shuffle(members)
        for k in range(1, len(members)):
            a, b = members[k], members[rng.randrange(k)]
            inputs[a].append(nxt)
            inputs[b].append(nxt)
            nxt += 1
        for _ in range(rng.randint(0, len(members))):
            if len(members) < 2:
                break
            kind = rng.choice(["bond", "bond", "hyper", "out", "dangling"])
            if kind == "bond":
                hs = rng.sample(members, 2)
            elif kind == "hyper":
                hs = rng.sample(members, min(len(members), rng.randint(3, 5)))
            elif kind == "out":
                hs = rng.sample(members, rng.randint(1, 2))
                output.append(nxt)
            else:
                hs = [rng.choice(members)]
            for h in hs:
                if len(inputs[h]) < 6:
                    inputs[h].append(nxt)
            nxt += 1
    used = {ix for t in inputs for ix in t}
    output = [ix for ix in output if ix in used]
    sizes = {ix: rng.choice([1, 2, 2, 3]) for ix in sorted(used)}
    return gen.Net(inputs, output, sizes)


def net_class(net):
    n = len(net.inputs)
    return "1" if n == 1 else ("2" if n == 2 else ("3-10" if n <= 10 else "11+"))


# ------------------------------------------------------------------------------ interface calls made in this process


_DISPATCH_FIRST = {}    # (entry, container) -> "linear" | "edge": the first explicit flavour this process handed over


def _note_dispatch(entry, optimize, n):
    if entry == "tree" and n <= 2:
        optimize = () if n == 1 else ((0, 1),)       # what array_contract_tree substitutes
    if isinstance(optimize, (tuple, list)):
        fl = "edge" if (len(optimize) and isinstance(optimize[0], (str, int))) else "linear"
        _DISPATCH_FIRST.setdefault((entry, type(optimize).__name__), fl)


_IFACE_HISTORY = []     # every public-interface call this process has made, as re-executable session calls


def _raw_call(entry, inputs, output, sd, optimize, kw):
    if isinstance(optimize, (tuple, list)):
        opt = {"container": type(optimize).__name__,
               "seq": [list(x) if isinstance(x, (tuple, list)) else x for x in optimize]}
    else:
        opt = {"preset": optimize}
    return {"entry": entry, "raw": {"inputs": [list(t) for t in inputs], "output": list(output),
                                    "size_dict": dict(sd) if sd is not None else None, "optimize": opt,
                                    "kw": {k: ([list(x) for x in v] if k == "shapes" else v)
                                           for k, v in kw.items()}}}


def act(inputs, output, sd, optimize, **kw):
    """array_contract_tree, remembering which flavour of explicit path each dispatch table saw first in
    this process (find_tree / find_path memoise their handler per class of `optimize`) and the call"""
    _note_dispatch("tree", optimize, len(inputs))
    _IFACE_HISTORY.append(_raw_call("tree", inputs, output, sd, optimize, kw))
    return ctg.array_contract_tree(inputs, output, sd, optimize=optimize, **kw)


def acp(inputs, output, sd, optimize, **kw):
    _note_dispatch("path", optimize, len(inputs))
    _IFACE_HISTORY.append(_raw_call("path", inputs, output, sd, optimize, kw))
    return ctg.array_contract_path(inputs, output, sd, optimize=optimize, **kw)


def answer_ok(kind, n, val, partial=False):
    """the implementation-side oracle on one answer (what `judge` demands)"""
    try:
        if kind == "ssa":
            return bool(valid_ssa(n, val["path"]))
        if kind == "path":
            return bool(valid_linear(n, val["path"], partial=partial))
        return bool(tree_ok(n, val["children"]) and val["N"] == n and valid_linear(n, val.get("lin"))
                    and valid_ssa(n, val.get("ssa")) and valid_linear(n, val.get("lin_ord", val.get("lin")))
                    and valid_ssa(n, val.get("ssa_ord", val.get("ssa"))))
    except (KeyError, TypeError):
        return False


_PRISTINE_LEFT = [6]


def pristine_case(ctx, case, h0, partial_ok=False):
    """An interface call made in this (long-lived) process failed. If the same call fails when it is the
    first thing a pristine process image does, the recorded case reproduces as it is. Otherwise the
    failure needs state left by earlier interface calls: find a suffix of this process's history after
    which it fails from a pristine image and turn the case into that session, so that the replay is
    self-contained."""
    calls_made = _IFACE_HISTORY[h0:]
    if not calls_made or _PRISTINE_LEFT[0] <= 0:
        return case
    _PRISTINE_LEFT[0] -= 1          # a tree on which much fails: the first few cases get the treatment
    last = dict(calls_made[-1], partial_ok=partial_ok)
    zyg = zygote(ctx)

    def fails(calls):
        st, recs, _ = zyg.run(calls, limit=60, total=900)
        return len(recs) == len(calls) and not record_ok(calls[-1], recs[-1])
    if fails([last]):
        ctx.count("in_process_failure:reproduces_as_single_call")
        return case
    hist = _IFACE_HISTORY[:h0] + calls_made[:-1]
    k = 1
    while True:
        k = min(k, len(hist))
        if fails(hist[len(hist) - k:] + [last]):
            ctx.count("in_process_failure:needs_history")
            return {"site": "session", "label": case.get("label"), "kind": last["entry"], "net": case.get("net"),
                    "params": {}, "session": "history-of-this-process", "calls": hist[len(hist) - k:] + [last],
                    "original": {k_: v for k_, v in case.items() if k_ != "net"}}
        if k >= len(hist) or ctx.time_left() < 60:
            break
        k *= 4
    ctx.count("in_process_failure:not_reproduced_from_pristine_image")
    return case




def prime_dispatch(first):
    """replay side: hand over the same flavours first, in a process that has dispatched nothing yet"""
    inputs, output, sd = [("a", "b"), ("b", "c"), ("c", "d")], ("a", "d"), {"a": 2, "b": 2, "c": 2, "d": 2}
    for entry, container, flavour in first or []:
        seq = [(0, 1), (0, 1)] if flavour == "linear" else ["b", "c"]
        opt = tuple(seq) if container == "tuple" else list(seq)
        try:
            with warnings.catch_warnings():
                warnings.simplefilter("ignore")
                if entry == "tree":
                    ctg.array_contract_tree(inputs, output, sd, optimize=opt)
                else:
                    ctg.array_contract_path(inputs, output, sd, optimize=opt, cache=False)
        except Exception:  # noqa: BLE001 -- only the state left behind matters
            pass


# ------------------------------------------------------------------------------ finders


def sample_space(rng, method):
    space = chyper.get_hyper_space()[method]
    consts = chyper.get_hyper_constants()[method] or {}
    params = dict(consts)
    for name, d in space.items():
        t = d["type"]
        if t == "FLOAT":
            params[name] = rng.uniform(d["min"], d["max"])
        elif t == "FLOAT_EXP":
            params[name] = math.exp(rng.uniform(math.log(d["min"]), math.log(d["max"])))
        elif t == "INT":
            params[name] = rng.randint(d["min"], d["max"])
        elif t == "STRING":
            params[name] = rng.choice(list(d["options"]))
        elif t == "BOOL":
            params[name] = rng.random() < 0.5
    return params


def args_of(net):
    return net.sym_inputs(), net.sym_output(), net.sym_sizes()


def iface_kwargs(net, opts):
    """keyword arguments of array_contract_path / array_contract_tree for an option set:
    `shapes` instead of `size_dict`, `canonicalize=False`, `sort_contraction_indices=True` (tree only)"""
    inputs, output, sd = args_of(net)
    kw = {}
    if opts.get("shapes"):
        kw["shapes"] = [tuple(sd[ix] for ix in t) for t in inputs]
        sd = None
    if opts.get("canonicalize") is False:
        kw["canonicalize"] = False
    if opts.get("sort"):
        kw["sort_contraction_indices"] = True
    return inputs, output, sd, kw


def iface_call(entry, net, optimize, opts):
    inputs, output, sd, kw = iface_kwargs(net, opts)
    if entry == "path":
        kw.pop("sort_contraction_indices", None)
        return acp(inputs, output, sd, optimize, cache=bool(opts.get("cache")), **kw)
    return act(inputs, output, sd, optimize, **kw)


def finder_catalogue(rng, net):
    """list of (site, kind, label, thunk, params) to run on `net`; kind in {path, tree}"""
    inputs, output, sd = args_of(net)
    out = []
    small = len(net.inputs) <= 10
    for p in PRESETS:
        if p.startswith("optimal") and not small:
            continue        # exponential by design; C09 covers it
        opts = {}
        if rng.random() < 0.35:
            opts = {"shapes": rng.random() < 0.5, "canonicalize": rng.random() < 0.5,
                    "sort": rng.random() < 0.5, "cache": rng.random() < 0.3}
        out.append(("array_contract_path", "path", p,
                    lambda p=p, opts=opts: iface_call("path", net, p, opts), {"iface": opts} if opts else {}))
        out.append(("array_contract_tree", "tree", p,
                    lambda p=p, opts=opts: iface_call("tree", net, p, opts), {"iface": opts} if opts else {}))
    seed = rng.randrange(1 << 30)
    cm, tp = rng.uniform(0.1, 4.0), rng.choice([0.0, 0.0, rng.uniform(0.001, 1.0)])
    simp = rng.random() < 0.7        # simplify=False: the finder works on the network as given
    gp = {"costmod": cm, "temperature": tp, "simplify": simp}
    out.append(("GreedyOptimizer", "path", "obj", lambda: pb.GreedyOptimizer(**gp)(inputs, output, sd), dict(gp)))
    out.append(("GreedyOptimizer.search", "tree", "obj",
                lambda: pb.GreedyOptimizer(**gp).search(inputs, output, sd), dict(gp)))
    ssa = rng.random() < 0.5
    fp = {"costmod": cm, "temperature": tp, "simplify": rng.random() < 0.5, "use_ssa": ssa}
    out.append(("optimize_greedy", "ssa" if ssa else "path", "fn",
                lambda: pb.optimize_greedy(inputs, output, sd, **fp), dict(fp)))
    mz = rng.choice(["flops", "size", "write", "max", "combo", "limit", "combo-3"])
    so = rng.random() < 0.5
    if small:
        op = {"minimize": mz, "search_outer": so, "simplify": rng.random() < 0.7,
              "cost_cap": rng.choice([2, 2, 1, 4])}
        out.append(("OptimalOptimizer", "path", "obj",
                    lambda: pb.OptimalOptimizer(**op)(inputs, output, sd), dict(op)))
        ssa2 = rng.random() < 0.5
        op2 = {"minimize": mz, "search_outer": so, "simplify": rng.random() < 0.5, "use_ssa": ssa2}
        out.append(("optimize_optimal", "ssa" if ssa2 else "path", "fn",
                    lambda: pb.optimize_optimal(inputs, output, sd, **op2), dict(op2)))
    reps = rng.choice([1, 2, 8])
    rp = {"max_repeats": reps, "seed": seed, "simplify": rng.random() < 0.7}
    if rng.random() < 0.3:
        rp["costmod"] = (0.5, rng.uniform(0.6, 3.0))
        rp["temperature"] = (0.01, rng.uniform(0.02, 0.5))
    out.append(("RandomGreedyOptimizer", "path", "obj",
                lambda: pb.RandomGreedyOptimizer(parallel=False, **rp)(inputs, output, sd), dict(rp)))
    out.append(("RandomGreedyOptimizer.search", "tree", "obj",
                lambda: pb.RandomGreedyOptimizer(parallel=False, **rp).search(inputs, output, sd), dict(rp)))
    out.append(("RandomOptimizer", "path", "obj",
                lambda: ctg.pathfinders.path_random.RandomOptimizer(seed=seed)(inputs, output, sd),
                {"seed": seed}))
    for m in HYPER_METHODS:
        params = sample_space(rng, m)
        params_j = {k: (v if isinstance(v, (int, float, str, bool)) else str(v)) for k, v in params.items()}
        out.append(("hyper_function", "tree", m,
                    lambda m=m, params=params: chyper.base_trial_fn(inputs, output, sd, m, **dict(params))["tree"],
                    params_j))
    return out


def run_finder(ctx, drv, net, netname, site, kind, label, thunk, params, case_extra=None):
    n = len(net.inputs)
    feats = net.features()
    hkey = (site, label, net_class(net), "disconnected" in feats)
    if hkey in _HANGS:
        ctx.count("skipped_after_hang:%s/%s" % (site, label))
        return None
    first_before = [[e, c, f] for (e, c), f in _DISPATCH_FIRST.items()]
    h0 = len(_IFACE_HISTORY)

    def produce():
        val = thunk()
        if kind in ("path", "ssa"):
            return {"path": [c05_sessions._jsonable_step(s_) for s_ in val]}
        tree = val
        out = {"children": dump_children(tree), "N": int(getattr(tree, "N", -1)), "nested": None}
        if tree_ok(n, out["children"]):
            out["lin"] = [[int(x) for x in s_] for s_ in tree.get_path()]
            out["ssa"] = [[int(x) for x in s_] for s_ in tree.get_ssa_path()]
            out["nested"] = gen.bt_of_real(tree)
            out.update(ordered_paths(tree, n))
        return out

    if "kahypar" in label:
        ctx.count("forked_calls")
        status, val = forked(produce)
    else:
        status, val = guarded(produce)
    if status == "no-termination":
        _HANGS.add(hkey)
    case = {"net": net.json(), "site": site, "label": label, "params": params, "kind": kind}
    if case_extra:
        case.update(case_extra)
    if first_before and (site.startswith(("array_contract", "explicit-")) or site == "sequence"):
        case["dispatch_first"] = first_before
    if len(_IFACE_HISTORY) > h0 and not (status == "ok" and answer_ok(kind, n, val)):
        case = pristine_case(ctx, case, h0)
    return judge(ctx, drv, net, netname, site, kind, label, status, val, case)


def judge(ctx, drv, net, netname, site, kind, label, status, val, case, sig_extra=None, count_case=True):
    """the verdict on one answer of the real code: independent oracles first (failure -> violation),
    then the verified Lean checkers on the same artefact (disagreement -> broken correspondence).
    Returns the value when it is a valid complete contraction of `net`, else None."""
    n = len(net.inputs)
    feats = net.features()
    sig = {"site": site, "label": label, "ntensors": net_class(net)}
    if sig_extra:
        sig.update(sig_extra)
    if count_case:
        ctx.case(case, nontrivial=(n >= 3 or bool(set(feats) & {"scalar", "disconnected", "repeated"})))
    ctx.count("site:" + site)
    ctx.count("finder:%s/%s" % (site, label))
    ctx.count("ntensors:" + net_class(net))
    if status != "ok":
        ctx.count("outcome:" + status)
        sig["error"] = status if status != "raises" else val.split(":")[0]
        if status == "raises":
            sig["detail"] = val.split(":", 1)[1].strip()[:60]
        ctx.violation(sig, {"case": case, "observed": [status, val]},
                      "%s(%s) on %s (%d tensors): %s %s" % (site, label, netname, n, status, val))
        return None
    ctx.count("outcome:ok")
    if kind == "ssa":
        path = val["path"]
        if not valid_ssa(n, path):
            sig["error"] = "invalid-path"
            ctx.violation(sig, {"case": case, "observed": path},
                          "%s(%s): returned ssa path is not a complete valid contraction of the %d inputs"
                          % (site, label, n))
            return None
        r = drv.call("c05.check_ssa", n=n, path=path)
        ctx.traces += 1
        if r.get("complete") is not True:
            ctx.corr_broken("Lean checkSSA rejects a path the independent oracle accepts", case)
        return val
    if kind == "path":
        path = val["path"]
        ok = valid_linear(n, path)
        if not ok:
            sig["error"] = "invalid-path"
            ctx.violation(sig, {"case": case, "observed": path},
                          "%s(%s): returned linear path is not a complete valid contraction of the %d inputs"
                          % (site, label, n))
            return None
        r = drv.call("c05.check_linear", n=n, path=path)
        ctx.traces += 1
        if r.get("complete") is not True:
            ctx.corr_broken("Lean checkLinear rejects a path the independent oracle accepts", case)
        return val
    children = val["children"]
    ok = tree_ok(n, children) and val["N"] == n
    lin, ssa = val.get("lin"), val.get("ssa")
    paths_ok = ok and valid_linear(n, lin) and valid_ssa(n, ssa)
    if paths_ok and "lin_ord" in val:
        ctx.count("tree_order:" + str(val.get("order")))
        if not (valid_linear(n, val["lin_ord"]) and valid_ssa(n, val["ssa_ord"])):
            paths_ok = False
            lin, ssa = val["lin_ord"], val["ssa_ord"]
            sig["order"] = val.get("order")
    if not ok or not paths_ok:
        sig["error"] = "incomplete-tree" if not ok else "invalid-path-of-tree"
        ctx.violation(sig, {"case": case, "observed": {"children": children, "path": lin, "ssa": ssa}},
                      "%s(%s): returned tree is not a complete contraction of the %d inputs" % (site, label, n))
        return None
    r = drv.call("c05.check_tree", n=n, children=children)
    r1 = drv.call("c05.check_linear", n=n, path=lin)
    r2 = drv.call("c05.check_ssa", n=n, path=ssa)
    ctx.traces += 1
    if "lin_ord" in val and r1.get("complete") is True and r2.get("complete") is True:
        r1 = drv.call("c05.check_linear", n=n, path=val["lin_ord"])
        r2 = drv.call("c05.check_ssa", n=n, path=val["ssa_ord"])
    if r.get("complete") is not True or r1.get("complete") is not True or r2.get("complete") is not True:
        ctx.corr_broken("Lean checkers reject a tree / path the independent oracles accept", case)
    return val


# ------------------------------------------------------------------------------ explicit paths


def rand_linear_path(rng, n, arity_max=2, singles=False, stop_early=0):
    cur = n
    path = []
    while cur > 1 + stop_early:
        if singles and rng.random() < 0.15:
            path.append([rng.randrange(cur)])
            continue
        k = rng.randint(2, min(arity_max, cur))
        step = rng.sample(range(cur), k)
        path.append(step)
        cur = cur - k + 1
    return path


def linear_to_ssa_own(n, path):
    ids = list(range(n))
    nxt = n
    out = []
    for step in path:
        out.append([ids[p] for p in step])
        for p in sorted(step, reverse=True):
            ids.pop(p)
        ids.append(nxt)
        nxt += 1
    return out


def check_explicit(ctx, drv, net, netname, rng):
    inputs, output, sd = args_of(net)
    n = len(net.inputs)
    if n < 2:
        return
    flavour = rng.choice(["linear", "linear-singles", "partial", "multi", "ssa", "ssa-partial", "edge",
                          "malformed"])
    ctx.count("explicit:" + flavour)
    if flavour == "edge":
        inds = [gen.sym(i) for i in net.indices()]
        rng.shuffle(inds)
        k = rng.randint(0, len(inds))
        ep = tuple(inds[:k]) if k else tuple(inds[:1])
        if not ep:
            return
        run_finder(ctx, drv, net, netname, "explicit-edge-path", "tree", "tree",
                   lambda: act(inputs, output, sd, ep), {"edge_path": list(ep)})
        first_before = [[e, c, f] for (e, c), f in _DISPATCH_FIRST.items()]
        h0 = len(_IFACE_HISTORY)
        st, path = guarded(lambda: acp(inputs, output, sd, ep, cache=False))
        if st == "ok":
            # an edge path may legitimately stop early: it must replay, and from_path completes it
            path = [c05_sessions._jsonable_step(s) for s in path]
            if not valid_linear(n, path, partial=True):
                case = {"net": net.json(), "site": "explicit-edge-path", "label": "path",
                        "params": {"edge_path": list(ep)}, "kind": "path-partial", "dispatch_first": first_before}
                case = pristine_case(ctx, case, h0, partial_ok=True)
                ctx.violation({"site": "explicit-edge-path", "label": "path", "ntensors": net_class(net),
                               "error": "invalid-path"}, {"case": case, "observed": path},
                              "edge path converts to a linear path naming a position that does not exist")
                return
            r = drv.call("c05.check_linear", n=n, path=path)
            if not r.get("replays"):
                ctx.corr_broken("Lean checkLinearPartial rejects a path the oracle accepts",
                                {"net": net.json(), "path": path})
        return
    if flavour == "malformed":
        path = rand_linear_path(rng, n)
        k = rng.randrange(len(path))
        cur = n - sum(len(s) - 1 for s in path[:k])
        path[k] = [path[k][0], cur + rng.randint(0, 2)]
        path = path[:k + 1]
        st, _ = guarded(lambda: ccore.ContractionTree.from_path(inputs, output, sd, path=path, autocomplete=True))
        r = drv.call("c05.from_path", n=n, path=path, ssa=False, autocomplete=True)
        ctx.traces += 1
        ctx.count("malformed:real-%s/model-%s" % (st, r.get("result")))
        if (st == "ok") != (r.get("result") == "ok"):
            ctx.corr_broken("from_path on a path naming a missing position: model and implementation "
                            "disagree on raising", {"net": net.json(), "path": path})
        return
    ssa = flavour.startswith("ssa")
    partial = flavour.endswith("partial")
    path = rand_linear_path(rng, n, arity_max=(4 if flavour == "multi" else 2),
                            singles=(flavour == "linear-singles"), stop_early=(rng.randint(1, 2) if partial else 0))
    arg = {"ssa_path": linear_to_ssa_own(n, path)} if ssa else {"path": path}
    send = arg["ssa_path"] if ssa else path
    site = "from_path(ssa)" if ssa else "from_path(linear)"
    tree = run_finder(ctx, drv, net, netname, site, "tree", flavour,
                      lambda: ccore.ContractionTree.from_path(inputs, output, sd, autocomplete=True, **arg),
                      {"path": send}, case_extra={"explicit": flavour})
    if tree is None:
        return
    # (E) the tree itself, whenever no merge of >= 3 items (sub-optimizer) is involved
    left = n - sum(len(s) - 1 for s in path)
    if all(len(s) <= 2 for s in path) and left <= 2:
        r = drv.call("c05.from_path", n=n, path=send, ssa=ssa, autocomplete=True)
        real = tree["nested"]
        ctx.traces += 1
        same = r.get("result") == "ok" and len(r.get("trees", [])) == 1 and \
            canon_tree(r["trees"][0])[0] == canon_tree(real)[0]
        if same and r["trees"] != [real]:
            ctx.count("from_path_tree_other_orientation")
        if not same:
            ctx.corr_broken("from_path: model tree differs from the real tree",
                            {"net": net.json(), "path": send, "ssa": ssa, "model": r, "real": real})
        else:
            ctx.count("from_path_tree_equal")
    if not ssa and not partial and all(len(s) == 2 for s in path):
        # the public route for explicit linear paths
        run_finder(ctx, drv, net, netname, "explicit-linear-path", "tree", "tree",
                   lambda: act(inputs, output, sd, [tuple(s) for s in path]),
                   {"path": path})
        run_finder(ctx, drv, net, netname, "explicit-linear-path", "path", "path",
                   lambda: acp(inputs, output, sd, [tuple(s) for s in path], cache=False), {"path": path})


# ------------------------------------------------------------------------------ processor (E)


def check_processor(ctx, drv, net, rng):
    inputs, output, sd = args_of(net)
    n = len(net.inputs)
    sizes = {}
    orig_add = pb.ContractionProcessor.add_node

    def rec_add(self, legs):
        i = orig_add(self, legs)
        sizes[i] = int(pb.compute_size(legs, self.sizes))
        return i

    route = rng.choice(["greedy", "greedy-hot", "optimal", "optimal-outer", "simplify-only"])
    ctx.count("processor:" + route)
    pb.ContractionProcessor.add_node = rec_add
    try:
        def real():
            cp = pb.ContractionProcessor(inputs, output, sd)
            for i, legs in cp.nodes.items():
                sizes[i] = int(pb.compute_size(legs, cp.sizes))
            snaps = []

            def snap(tag):
                snaps.append((tag, [list(map(int, s)) for s in cp.ssa_path], list(cp.nodes), int(cp.ssa)))
            cp.simplify()
            # simplify_batch strips the all-tensor indices from every node: re-read the live sizes
            for i, legs in cp.nodes.items():
                sizes[i] = int(pb.compute_size(legs, cp.sizes))
            snap("simplify")
            if route == "greedy":
                cp.optimize_greedy()
            elif route == "greedy-hot":
                cp.optimize_greedy(costmod=rng.uniform(0.2, 3), temperature=rng.uniform(0.01, 1.0),
                                   seed=rng.randrange(1 << 30))
            elif route == "optimal" and n <= 9:
                cp.optimize_optimal()
            elif route == "optimal-outer" and n <= 9:
                cp.optimize_optimal(search_outer=True, minimize="size")
            snap("optimize")
            cp.optimize_remaining_by_size()
            snap("remaining")
            return snaps
        st, snaps = guarded(real, limit=20)
    finally:
        pb.ContractionProcessor.add_node = orig_add
    if st != "ok":
        ctx.violation({"site": "ContractionProcessor", "label": route, "ntensors": net_class(net),
                       "error": st if st == "no-termination" else snaps.split(":")[0]},
                      {"case": {"net": net.json(), "site": "ContractionProcessor", "label": route, "params": {}},
                       "observed": [st, snaps]}, "ContractionProcessor %s: %s %s" % (route, st, snaps))
        return
    final_path = snaps[-1][1]
    if not valid_ssa(n, final_path) or len(snaps[-1][2]) != 1:
        ctx.violation({"site": "ContractionProcessor", "label": route, "ntensors": net_class(net),
                       "error": "invalid-path"},
                      {"case": {"net": net.json(), "site": "ContractionProcessor", "label": route, "params": {}},
                       "observed": final_path}, "processor ssa_path is not a complete valid contraction")
        return
    ctx.count("processor_steps", len(final_path))
    ctx.count("processor_single_term_steps", sum(1 for s in final_path if len(s) == 1))
    for tag, path, nodes, ssa in snaps[:2]:
        r = drv.call("c05.processor", n=n, ops=path)
        ctx.traces += 1
        if r.get("result") != "ok" or r["nodes"] != nodes or r["ssa"] != ssa or r["path"] != path:
            ctx.corr_broken("processor state after %s differs from the model" % tag,
                            {"net": net.json(), "route": route, "real": [path, nodes, ssa], "model": r})
            return
    tag, path, nodes, ssa = snaps[2]
    # the bookkeeping for the word the real code chose (tie-breaking is the code's freedom) ...
    r = drv.call("c05.processor", n=n, ops=path)
    ctx.traces += 1
    if r.get("result") != "ok" or r["nodes"] != nodes or r["ssa"] != ssa:
        ctx.corr_broken("processor state after optimize_remaining_by_size differs from the model",
                        {"net": net.json(), "route": route, "real": [path, nodes, ssa], "model": r})
        return
    # ... and, informational only, whether the model's heap order reproduces the same steps
    r = drv.call("c05.processor", n=n, ops=snaps[1][1], remaining=True,
                 sizes=sorted([k, v] for k, v in sizes.items()))
    ctx.count("remaining_same_steps_as_model" if r.get("path") == path else "remaining_other_order")
    ctx.count("processor_remaining_steps", len(path) - len(snaps[1][1]))


# ------------------------------------------------------------------------------ partition builders


def check_separate(ctx, drv, rng):
    m = rng.randint(0, 9)
    xs = list(range(m))
    blocks = [rng.randint(0, 4) for _ in range(m + rng.choice([0, 0, 0, -1, 2]))]
    real = sorted(sorted(g) for g in ccore.separate(xs, blocks))
    r = drv.call("c05.separate", xs=xs, blocks=blocks)
    ctx.traces += 1
    ctx.count("separate")
    if sorted(sorted(g) for g in r.get("groups", [])) != real:
        ctx.corr_broken("separate differs from the model", {"xs": xs, "blocks": blocks, "real": real, "model": r})


def check_kahypar_shortcuts(ctx, drv, rng):
    from cotengra.pathfinders.path_kahypar import kahypar_subgraph_find_membership as kfm
    which = rng.choice(["too-many-parts", "no-edges", "fix-outputs"])
    ctx.count("kahypar_shortcut:" + which)
    if which == "too-many-parts":
        net = gen.rand_net(rng, nmin=2, nmax=6)
        nv = len(net.inputs)
        parts = nv + rng.randint(0, 3)
        st, real = forked(lambda: [int(x) for x in kfm(*args_of(net), parts=parts, seed=1)])
        want = "too_many_parts"
        onodes = []
    elif which == "no-edges":
        nv = rng.randint(3, 9)
        net = gen.Net([[i] for i in range(nv)], list(range(nv)), {i: 2 for i in range(nv)})
        parts = rng.randint(2, nv - 1)
        st, real = forked(lambda: [int(x) for x in kfm(*args_of(net), parts=parts, seed=1)])
        want = "round_robin"
        onodes = []
    else:
        nv = rng.randint(3, 7)
        k = rng.randint(1, nv - 1)
        inputs = [[100 + i, 200] for i in range(nv)]
        onodes = sorted(rng.sample(range(nv), k))
        output = [100 + i for i in onodes]
        net = gen.Net(inputs, output, {ix: 2 for t in inputs for ix in t})
        parts = nv - k + 1 + rng.randint(0, 1)
        if parts >= nv:
            parts = nv - 1
            if parts < nv - k + 1:
                return
        st, real = forked(lambda: [int(x) for x in kfm(*args_of(net), parts=parts, seed=1, fix_output_nodes=True)])
        want = "fix_outputs"
    if st != "ok":
        ctx.violation({"site": "kahypar_subgraph_find_membership", "label": which, "ntensors": net_class(net),
                       "error": st}, {"case": {"net": net.json(), "parts": parts, "which": which},
                                      "observed": [st, real]}, "kahypar short-circuit fails: %s" % (real,))
        return
    real = [int(x) for x in real]
    if len(real) != nv:
        ctx.violation({"site": "kahypar_subgraph_find_membership", "label": which, "ntensors": net_class(net),
                       "error": "short-membership"},
                      {"case": {"net": net.json(), "parts": parts, "which": which}, "observed": real},
                      "kahypar short-circuit returns a membership of the wrong length")
        return
    r = drv.call("c05.kahypar_shortcuts", nv=nv, parts=parts, onodes=onodes)
    ctx.traces += 1

    def blocks_of(m):
        d = {}
        for i, b in enumerate(m):
            d.setdefault(b, []).append(i)
        return sorted(d.values())
    if len(r.get(want, [])) != nv:
        ctx.corr_broken("model of the kahypar short-circuit %s has the wrong length" % which,
                        {"nv": nv, "parts": parts, "onodes": onodes, "model": r})
    elif blocks_of(r[want]) == blocks_of(real):
        ctx.count("kahypar_shortcut_same_partition")
    else:
        ctx.count("kahypar_shortcut_other_partition")


def adversarial_partitioner(rng, log):
    style = rng.choice(["random", "one", "identity", "two", "sparse-labels", "mostly-one"])

    def fn(inputs, output, size_dict, parts=2, **kw):
        nv = len(inputs)
        if style == "random":
            m = [rng.randrange(max(1, parts)) for _ in range(nv)]
        elif style == "one":
            m = [7] * nv
        elif style == "identity":
            m = list(range(nv))
        elif style == "two":
            m = [i % 2 for i in range(nv)]
        elif style == "sparse-labels":
            m = [rng.choice([3, 50, 1000]) for _ in range(nv)]
        else:
            m = [0] * nv
            m[rng.randrange(nv)] = 1
        log.append(list(m))
        return m
    return style, fn


def check_builders(ctx, drv, rng):
    """build_divide / build_agglom under adversarial partitioners (every membership the partitioner
    may return): must terminate with a complete tree; agglom is compared with the model's loop."""
    net = medium_net(rng, 5, 14) if rng.random() < 0.7 else gen.rand_net(rng, nmin=3, nmax=8)
    n = len(net.inputs)
    log = []
    style, fn = adversarial_partitioner(rng, log)
    builder = ccore.PartitionTreeBuilder(fn)
    which = rng.choice(["divide", "agglom"])
    ctx.count("builder:%s/%s" % (which, style))
    sub = rng.choice(["greedy", "greedy", "auto", "optimal", "auto-hq"])
    seed = rng.choice([None, 1, rng.randrange(1 << 20)])
    if which == "divide":
        cutoff = rng.choice([0, 1, 2, 3, 10])
        parts = rng.randint(2, 6)
        sup = rng.choice(["auto-hq", "auto-hq", "greedy", "auto", "optimal"])
        extra = {"sub_optimize": sub, "super_optimize": sup, "seed": seed,
                 "parts_decay": rng.choice([0.5, 0.0, 1.0]), "random_strength": rng.choice([0.01, 0.0, 0.5])}
        thunk = lambda: builder.build_divide(*args_of(net), cutoff=cutoff, parts=parts, **extra)  # noqa: E731
        params = dict({"cutoff": cutoff, "parts": parts, "partitioner": style}, **extra)
    else:
        groupsize = rng.choice([1, 2, 3, 4, 6])
        extra = {"sub_optimize": sub, "seed": seed, "random_strength": rng.choice([0.01, 0.0, 0.5])}
        thunk = lambda: builder.build_agglom(*args_of(net), groupsize=groupsize, **extra)  # noqa: E731
        params = dict({"groupsize": groupsize, "partitioner": style}, **extra)
    trace = []
    if which == "divide":
        # intermediate state: `tree.childless` before and after every iteration of the loop (each makes
        # exactly one outermost contract_nodes call)
        orig_cn = ccore.ContractionTree.contract_nodes
        depth = [0]

        def rec_cn(self, nodes, *a, **k):
            top = depth[0] == 0 and getattr(self, "track_childless", False)
            if top:
                entry = {"before": [[int(x) for x in nd] for nd in self.childless],
                         "nodes": [sorted(int(x) for x in nd) for nd in nodes], "calls": len(log)}
            depth[0] += 1
            try:
                out = orig_cn(self, nodes, *a, **k)
            finally:
                depth[0] -= 1
            if top:
                entry["after"] = [sorted(int(x) for x in nd) for nd in self.childless]
                trace.append(entry)
            return out
        inner_thunk = thunk

        def thunk():            # noqa: F811
            ccore.ContractionTree.contract_nodes = rec_cn
            try:
                return inner_thunk()
            finally:
                ccore.ContractionTree.contract_nodes = orig_cn
    tree = run_finder(ctx, drv, net, "adversarial", "PartitionTreeBuilder." + which, "tree", style, thunk,
                      params, case_extra={"builder": which})
    if which == "divide" and tree is not None and trace:
        ok_trace = True
        for it, e in enumerate(trace):
            sub = e["before"][0] if e["before"] else []
            if sorted(x for nd in e["nodes"] for x in nd) != sorted(sub):
                ctx.corr_broken("build_divide: the contracted nodes are not a division of the first childless "
                                "node", {"iteration": it, "entry": e, "params": params})
                ok_trace = False
                break
            partitioned = len(sub) > params["cutoff"]
            m = log[e["calls"] - 1] if (partitioned and e["calls"] >= 1) else []
            r = drv.call("c05.divide_step", cutoff=params["cutoff"], childless=e["before"], membership=m, pick=0)
            ctx.traces += 1
            got = sorted(sorted(x) for x in r.get("childless", []))
            if r.get("result") != "ok" or got != sorted(e["after"]):
                ctx.corr_broken("build_divide: `tree.childless` after an iteration differs from divideStep",
                                {"iteration": it, "entry": e, "membership": m, "model": r, "params": params})
                ok_trace = False
                break
        if ok_trace:
            ctx.count("divide_iterations_compared", len(trace))
            if trace[-1]["after"]:
                ctx.corr_broken("build_divide returned with childless nodes left", {"params": params})
    if which == "divide" and tree is not None:
        # divide_terminates_partial bounds the iterations, hence the partitioner calls, by N - 1
        ctx.count("divide_partition_calls", len(log))
        if len(log) > max(n - 1, 0):
            ctx.corr_broken("build_divide called the partitioner more often than the model's bound N-1",
                            {"n": n, "calls": len(log), "params": params})
    if which == "agglom" and style in ("identity", "one", "two"):
        # the loop itself against the model (code as it stands, and with the proposed repair)
        cur = drv.call("c05.agglom", n=n, groupsize=params["groupsize"], memberships=log[:50])
        fix = drv.call("c05.agglom", n=n, groupsize=params["groupsize"], memberships=log[:50], fixed=True)
        ctx.traces += 1
        real_ok = tree is not None
        if fix.get("result") != "ok":
            ctx.corr_broken("model of the repaired agglom loop does not terminate", params)
        elif real_ok and cur.get("result") == "ok":
            ctx.count("agglom:terminates-in-model-and-code")
        elif real_ok:
            ctx.count("agglom:code-terminates-where-the-unrepaired-model-spins (repaired code)")
        elif cur.get("result") == "ok":
            ctx.corr_broken("build_agglom fails where the model of the loop terminates", params)
        else:
            ctx.count("agglom:hang-reproduced-in-model-and-code")


def check_labels_options(ctx, drv, rng):
    """`labels_partition` options the registered search space leaves at their default (weight_nodes,
    maxiter, parts) through the builder object the 'labels' methods are made of"""
    from cotengra.pathfinders import path_labels as pl
    net = medium_net(rng, 5, 16) if rng.random() < 0.7 else gen.rand_net(rng, nmin=2, nmax=8)
    opts = {"weight_nodes": rng.choice(["const", "linear", "log"]), "weight_edges": rng.choice(["const", "log"]),
            "maxiter": rng.choice([None, 0, 1, 3, 50]), "memory": rng.choice([-2, -1, 0, 1]),
            "final_sweep": rng.random() < 0.5}
    which = rng.choice(["divide", "agglom"])
    if which == "divide":
        opts.update({"cutoff": rng.choice([0, 2, 10]), "parts": rng.randint(1, 6)})
        thunk = lambda: pl.labels_to_tree.build_divide(*args_of(net), seed=7, **opts)  # noqa: E731
    else:
        opts.update({"groupsize": rng.choice([2, 4])})
        thunk = lambda: pl.labels_to_tree.build_agglom(*args_of(net), seed=7, **opts)  # noqa: E731
    run_finder(ctx, drv, net, "labels-options", "labels_to_tree." + which, "tree", "labels", thunk, opts)


# ------------------------------------------------------------------------------ sequences of related networks


def ring_net(n, d=2):
    return gen.Net([[i, (i + 1) % n] for i in range(n)], [], {i: d for i in range(n)})


def variant(rng, net):
    """a network related to `net`: what a cache keyed too coarsely would confuse with it"""
    kind = rng.choice(["scalars+", "scalars+", "scalars-", "rename", "reorder", "transpose", "extra-vector",
                       "drop-tensor", "resize", "same"])
    ins = [list(t) for t in net.inputs]
    out = list(net.output)
    sizes = dict(net.sizes)
    if kind == "scalars+":
        for _ in range(rng.randint(1, 3)):
            ins.insert(rng.randint(0, len(ins)), [])
    elif kind == "scalars-":
        keep = [t for t in ins if t]
        if len(keep) == len(ins) or len(keep) < 2:
            ins.append([])
            kind = "scalars+"
        else:
            ins = keep
    elif kind == "rename":
        ixs = net.indices()
        perm = ixs[:]
        rng.shuffle(perm)
        m = dict(zip(ixs, perm))
        ins = [[m[i] for i in t] for t in ins]
        out = [m[i] for i in out]
        sizes = {m[i]: d for i, d in sizes.items()}
    elif kind == "reorder":
        rng.shuffle(ins)
    elif kind == "transpose":
        for t in ins:
            rng.shuffle(t)
    elif kind == "extra-vector":
        ixs = net.indices()
        if ixs:
            ins.insert(rng.randint(0, len(ins)), [rng.choice(ixs)])
    elif kind == "drop-tensor":
        if len(ins) > 3:
            ins.pop(rng.randrange(len(ins)))
            used = {i for t in ins for i in t}
            out = [i for i in out if i in used]
            sizes = {i: d for i, d in sizes.items() if i in used}
    elif kind == "resize":
        for i in sizes:
            sizes[i] = rng.choice([2, 3])
    return kind, gen.Net(ins, out, sizes)


SEQ_ROUTES = ["auto", "auto-hq", "greedy", "ReusableHyperOptimizer", "ReusableRandomGreedyOptimizer",
              "GreedyOptimizer"]


def make_route(route, seed):
    """-> (path_fn(net), tree_fn(net)) sharing whatever state the route keeps between calls"""
    if route in ("auto", "auto-hq", "greedy"):
        return (lambda net: acp(*args_of(net), route),
                lambda net: act(*args_of(net), route))
    if route == "ReusableHyperOptimizer":
        opt = ctg.ReusableHyperOptimizer(methods=["greedy"], max_repeats=2, parallel=False, optlib="random",
                                         progbar=False)
    elif route == "ReusableRandomGreedyOptimizer":
        opt = pb.ReusableRandomGreedyOptimizer(max_repeats=2, parallel=False, seed=seed)
    else:
        opt = pb.GreedyOptimizer()
    return (lambda net: opt(*args_of(net)), lambda net: opt.search(*args_of(net)))


def check_sequence(ctx, drv, rng):
    """>= 2 related networks through the SAME preset string / optimizer object (caches, reused state):
    every answer must be a valid complete contraction of the network it was asked about."""
    route = rng.choice(SEQ_ROUTES)
    big = route in ("auto", "auto-hq")
    shape = rng.choice(["ring", "graph"])
    if big:
        n0 = rng.randint(14, 18) if route == "auto" else rng.randint(20, 24)
    else:
        n0 = rng.randint(5, 9)
    base = ring_net(n0, rng.choice([2, 3])) if shape == "ring" else medium_net(rng, n0, n0 + 2)
    seed = rng.randrange(1 << 30)
    path_fn, tree_fn = make_route(route, seed)
    nets, kinds = [base], ["base"]
    for _ in range(rng.randint(1, 3)):
        k, v = variant(rng, nets[rng.randrange(len(nets))])
        nets.append(v)
        kinds.append(k)
    ctx.count("sequence_route:" + route)
    for pos, (net, k) in enumerate(zip(nets, kinds)):
        ctx.count("sequence_step:" + k)
        which = rng.choice(["path", "tree"])
        fn = path_fn if which == "path" else tree_fn
        r = run_finder(ctx, drv, net, "seq-%s-%d" % (route, pos), "sequence", which, route,
                       (lambda net=net, fn=fn: fn(net)), {"seed": seed, "step": pos, "variant": k},
                       case_extra={"prefix": [[x.json(), w] for x, w in zip(nets[:pos], _seq_hist)], "route": route})
        _seq_hist.append(which)
        if r is None and ctx.violations:
            break
    del _seq_hist[:]


_seq_hist = []


# ------------------------------------------------------------------------------ sessions (pristine process image)


_ZYG = [None]
_CALLED_INTO_COTENGRA = [False]


def zygote(ctx=None, drv=None):
    """the pristine process image every session is forked from (see harness/c05_sessions.py); created
    at the very start of run(), before this process makes its first call into cotengra"""
    if _ZYG[0] is None:
        import atexit
        fds = []
        if drv is not None and getattr(drv, "p", None) is not None:
            fds = [drv.p.stdin.fileno(), drv.p.stdout.fileno()]
        _ZYG[0] = c05_sessions.Zygote(close_fds=fds)
        atexit.register(_ZYG[0].close)
        if ctx is not None:
            ctx.notes["sessions_forked_from_pristine_image"] = not _CALLED_INTO_COTENGRA[0]
    return _ZYG[0]


def preset_registry():
    """every registered preset name (read off the live registry) with the routes it has, whether it is
    a compressed (non-exact) finder, and -- only for an environmental reason that is checked here --
    why it cannot run in this environment"""
    import importlib.util
    import shutil
    names, ppath, ptree, compressed = c05_presets.registry()
    out = []
    for name in names:
        fn = ppath.get(name, ptree.get(name))
        kind, target, _, _ = c05_presets.describe(fn)
        reason = None
        if target.startswith("path_flowcutter.") and shutil.which("flow_cutter_pace17") is None:
            reason = "external executable flow_cutter_pace17 not installed"
        elif target.startswith("path_quickbb.") and shutil.which("quickbb_64") is None:
            reason = "external executable quickbb_64 not installed"
        elif name in ("hyper-spinglass", "hyper-betweenness") and importlib.util.find_spec("igraph") is None:
            reason = "python-igraph not installed"
        out.append({"name": name, "kind": kind, "target": target, "compressed": name in compressed,
                    "unavailable": reason, "slow": ("hyper" in target or "hyper" in name)})
    return out


def chain_net(n, d=2):
    return gen.Net([[i, i + 1] for i in range(n)], [0, n], {i: d for i in range(n + 1)})


def ladder_net(rng, nmin, nmax):
    """a network out of a family with widely varying cost: what one best-so-far must not survive"""
    n = rng.randint(nmin, nmax)
    d = rng.choice([2, 2, 3, 5, 7])
    shape = rng.choice(["ring", "ring", "chain", "graph", "corner"])
    if shape == "ring" and n >= 3:
        return ring_net(n, d)
    if shape == "chain":
        return chain_net(n, d)
    if shape == "corner":
        cands = [net for _, net in corner_nets() if nmin <= len(net.inputs) <= nmax]
        if cands:
            return rng.choice(cands)
    if n >= 5:
        return medium_net(rng, n, n + 1)
    return gen.rand_net(rng, nmin=max(nmin, 2), nmax=max(n, 2))


def net_cost_key(net):
    return (len(net.inputs), max(net.sizes.values(), default=1))


def explicit_call(rng, net, flavour, container, entry, same_order=False):
    n = len(net.inputs)
    if flavour == "linear":
        spec = {"kind": "linear", "path": rand_linear_path(rng, n), "container": container}
    else:
        inds = sorted(net.indices())
        if not same_order:              # same_order: the very same tuple of names for different networks
            rng.shuffle(inds)
        spec = {"kind": "edge", "inds": inds, "container": container}
    return {"entry": entry, "net": net.json(), "opt": spec, "cache": rng.random() < 0.3,
            "partial_ok": flavour == "edge" and entry == "path"}


def gen_session(rng, presets, kind, focus=None):
    """-> (label, calls). kinds: 'preset' (one name), 'shared' (names bound to the same class),
    'explicit' (explicit linear / edge paths in tuple / list containers and the implicit ((0, 1),) of
    1-/2-tensor trees, in every order), 'mixed'"""
    avail = [p for p in presets if not p["unavailable"]]
    calls = []
    if kind in ("preset", "shared"):
        p0 = focus or rng.choice(avail)
        if kind == "shared":
            group = [p for p in avail if p["target"] == p0["target"] and p["kind"] == p0["kind"]] or [p0]
        else:
            group = [p0]
        slow = any(p["slow"] for p in group)
        exp = any(p["name"].startswith(("optimal", "dp", "dynamic")) or "Optimal" in p["target"] for p in group)
        nmin = 2 if slow else 1
        nmax = 6 if slow else (8 if exp else 10)
        k = rng.randint(2, 3) if slow else rng.randint(3, 5)
        nets = [ladder_net(rng, nmin, nmax) for _ in range(k)]
        order = rng.choice(["random", "cheap-first", "dear-first", "repeat"])
        if order == "cheap-first":
            nets.sort(key=net_cost_key)
        elif order == "dear-first":
            nets.sort(key=net_cost_key, reverse=True)
        elif order == "repeat":
            nets = nets[:2] + [nets[0]] + nets[2:]
        for net in nets:
            p = rng.choice(group)
            if any(q["compressed"] for q in group) and (set(net.features()) & {"scalar", "disconnected"}
                                                       or len(net.inputs) < 3):
                # compressed (non-exact, experimental) finders are outside the property's scope: 'greedy-span'
                # stops at the first component of a disconnected network, the compressed greedy finder takes
                # max() of nothing on index-free groups. They are still run in sequences (for state carried
                # between calls), on plain connected networks only.
                net = rng.choice([ring_net, chain_net])(rng.randint(3, 8), rng.choice([2, 3, 5]))
            calls.append({"entry": rng.choice(["path", "tree"]), "net": net.json(),
                          "opt": {"kind": "preset", "name": p["name"]}, "cache": rng.random() < 0.3,
                          "limit": 300 if slow else 60})
        return (p0["name"] if kind == "preset" else "shared:" + p0["target"]), calls
    fast = [p for p in avail if not p["slow"] and not p["compressed"]
            and not p["name"].startswith(("optimal", "dp", "dynamic"))]
    same_order = rng.random() < 0.4
    same_m = rng.randint(3, 6)
    for _ in range(rng.randint(3, 6)):
        what = rng.choice(["linear", "edge", "small-tree", "preset"] if kind == "mixed" else
                          ["linear", "linear", "edge", "edge", "small-tree"])
        if what == "small-tree":
            net = rng.choice([net for _, net in corner_nets() if len(net.inputs) <= 2])
            calls.append({"entry": "tree", "net": net.json(), "opt": {"kind": "preset", "name": "greedy"},
                          "cache": False})
        elif what == "preset":
            net = ladder_net(rng, 1, 8)
            calls.append({"entry": rng.choice(["path", "tree"]), "net": net.json(),
                          "opt": {"kind": "preset", "name": rng.choice(fast)["name"]}, "cache": rng.random() < 0.3})
        else:
            net = ladder_net(rng, 2, 8)
            if what == "edge" and (not net.indices() or same_order):
                # rings and chains over the same index names 0..m-1: different networks, equal edge paths
                m = same_m
                net = ring_net(m, rng.choice([2, 3])) if rng.random() < 0.5 else chain_net(m - 1, rng.choice([2, 3]))
            calls.append(explicit_call(rng, net, what, rng.choice(["tuple", "tuple", "list"]),
                                       rng.choice(["path", "tree"]), same_order=same_order))
    return kind, calls


def record_ok(call, rec):
    """implementation-side verdict on one record of a session (python oracles only)"""
    if rec.get("status") != "ok":
        return False
    n = len(call["raw"]["inputs"]) if "raw" in call else len(call["net"]["inputs"])
    return answer_ok(call["entry"], n, rec["val"], partial=bool(call.get("partial_ok")))


def run_session(ctx, drv, label, calls, skind):
    """execute in a pristine image, judge every answer; -> (all ok, seconds per call)"""
    zyg = zygote(ctx)
    limit = max(c.get("limit", 60) for c in calls)
    status, recs, detail = zyg.run(calls, limit=limit)
    ctx.count("session:" + skind)
    ctx.count("session_calls", len(calls))
    secs = [r.get("s", 0) for r in recs]
    if status == "harness-error":
        raise RuntimeError("session driver: " + str(detail))
    ok_all = True
    for i, call in enumerate(calls):
        net = gen.Net.from_json(call["net"])
        opt = call["opt"]
        optname = opt["name"] if opt["kind"] == "preset" else "%s-%s" % (opt["kind"], opt.get("container"))
        case = {"site": "session", "label": label, "kind": call["entry"], "net": call["net"], "params": {},
                "session": skind, "calls": calls[:i + 1]}
        sig_extra = {"opt": optname, "step": "first" if i == 0 else "later"}
        if i >= len(recs):
            # the session ended here without an answer: killed by a signal or by the time limit
            judge(ctx, drv, net, "session", "session", call["entry"], label, status, str(detail), case, sig_extra)
            ok_all = False
            break
        rec = recs[i]
        ctx.count("session_opt:" + opt["kind"])
        ctx.count("session_step:%s/%s" % (optname, call["entry"]))
        for wtxt in rec.get("warn", []):
            if "not complete" in wtxt:
                ctx.count("session_warn:path-autocompleted")
        if rec["status"] == "ok" and call["entry"] == "path" and call.get("partial_ok"):
            # an edge path may legitimately stop early: it must replay (from_path completes it)
            path = rec["val"]["path"]
            ctx.case(case, nontrivial=len(net.inputs) >= 3)
            if not valid_linear(len(net.inputs), path, partial=True):
                sig = {"site": "session", "label": label, "ntensors": net_class(net), "error": "invalid-path"}
                sig.update(sig_extra)
                ctx.violation(sig, {"case": case, "observed": path},
                              "session %s step %d: edge path converts to a linear path naming a position "
                              "that does not exist" % (label, i))
                ok_all = False
                break
            r = drv.call("c05.check_linear", n=len(net.inputs), path=path)
            ctx.traces += 1
            if not r.get("replays"):
                ctx.corr_broken("Lean checkLinearPartial rejects a path the oracle accepts", case)
            continue
        val = judge(ctx, drv, net, "session", "session", call["entry"], label, rec["status"],
                    rec.get("val") if rec["status"] == "ok" else rec.get("msg"), case, sig_extra)
        if val is None:
            ok_all = False
            break
    return ok_all, secs


def check_c16_agreement(ctx):
    """the classes C16's extractor (harness/c16.py, every store through `self` on the query path) vouches
    stateless must carry nothing in this check's table either (C05 lists fewer stores by design: only
    those that are read back on the query path): two independent extractors, one fact"""
    try:
        from . import c16
        theirs = c16.extract_facts()["presets"]
    except Exception as e:  # noqa: BLE001 -- C16's module is not ours; its absence is not a verdict
        ctx.notes["c16_extractor"] = "not available: %r" % (e,)
        return
    mine = c05_presets.extract()["carried"]
    bad = {c: [theirs[c], mine.get(c)] for c in theirs if c in mine and (mine[c] and not theirs[c])}
    ctx.notes["c16_extractor"] = {"c16": theirs, "c05": {c: mine.get(c) for c in theirs}}
    ctx.obligation("preset classes C16's extractor finds store-free carry nothing in C05's preset table", not bad,
                   json.dumps(bad)[:300])


def check_sessions(ctx, drv, rng, budget_s, rounds):
    """sequences through every registered preset string and through explicit paths, each in a
    pristine process image"""
    t0 = time.time()
    presets = preset_registry()
    ctx.notes["presets_registered"] = [p["name"] for p in presets]
    ctx.notes["presets_unavailable_here"] = {p["name"]: p["unavailable"] for p in presets if p["unavailable"]}
    avail = [p for p in presets if not p["unavailable"]]
    fast = [p for p in avail if not p["slow"]]
    slow = [p for p in avail if p["slow"]]
    rng.shuffle(slow)                                   # which slow presets come first differs per seed
    plan = []
    for r in range(rounds):
        for p in fast:
            plan.append(("preset", p))
        plan += [("explicit", None)] * 6 + [("mixed", None), ("mixed", None), ("shared", None)]
        if r == 0:
            for p in slow:
                plan.append(("preset", p))
    spent = {}
    for skind, p in plan:
        if time.time() - t0 > budget_s or ctx.time_left() < 40:
            ctx.count("sessions_plan_cut_short")
            break
        if p is not None and p["slow"] and time.time() - t0 > 0.6 * budget_s:
            ctx.count("sessions_slow_preset_skipped:" + p["name"])
            continue
        label, calls = gen_session(rng, presets, skind, focus=p)
        ok, secs = run_session(ctx, drv, label, calls, skind)
        if p is not None:
            spent[p["name"]] = round(spent.get(p["name"], 0) + sum(secs), 2)
    ctx.notes["session_seconds_per_preset"] = spent
    ctx.count("session_seconds_total", int(time.time() - t0))


# ------------------------------------------------------------------------------ best-so-far state (E)


def _ranks(values):
    order = sorted(set(values))
    return {v: i for i, v in enumerate(order)}


def check_best_so_far(ctx, drv, rng):
    """`RandomGreedyOptimizer`'s carried state against Model/BestSoFar (E, intermediate state after
    every call): (1) one *shared* instance driven over different networks -- its documented misuse, what a
    preset bound to an instance would do -- with the inner finder's results logged: returned path,
    `best_ssa_path` and `best_flops` after every call must be the model's; (2) the function the
    'random-greedy' preset is bound to, same sequence: every answer is the path found for the queried
    network (`Binding.freshPerCall`)."""
    nets = [ladder_net(rng, 2, 8) for _ in range(rng.randint(2, 5))]
    if rng.random() < 0.3:
        nets.append(nets[0])
    seed = rng.randrange(1 << 30)
    reps = rng.choice([1, 2, 4])
    log, answers, snaps = [], [], []

    def real_shared():
        opt = pb.RandomGreedyOptimizer(max_repeats=reps, seed=seed, parallel=False)
        inner = opt._optimize_fn

        def rec(*a, **k):
            r = inner(*a, **k)
            log.append(r)
            return r
        opt._optimize_fn = rec
        for net in nets:
            ans = opt.ssa_path(*args_of(net))
            answers.append([list(map(int, st)) for st in ans])
            snaps.append(([list(map(int, st)) for st in opt.best_ssa_path], opt.best_flops))
    st, msg = guarded(real_shared, limit=30)
    ctx.count("best_so_far:shared_sequences")
    case = {"nets": [x.json() for x in nets], "seed": seed, "max_repeats": reps}
    if st != "ok" or len(log) != len(nets):
        ctx.corr_broken("RandomGreedyOptimizer.ssa_path could not be driven as the model assumes "
                        "(one inner search per call): %s %s" % (st, msg), case)
        return
    rk = _ranks([f for _, f in log] + [f for _, f in snaps])
    found = [{"path": [list(map(int, s_)) for s_ in p_], "flops": rk[f]} for p_, f in log]
    r = drv.call("c05.best_so_far", found=found, shared=True)
    ctx.traces += 1
    model_states = [(s_["best"], s_["flops"]) for s_ in r.get("states", [])]
    real_states = [(p_, rk[f]) for p_, f in snaps]
    if r.get("answers") != answers or model_states != real_states:
        ctx.corr_broken("RandomGreedyOptimizer: returned path / best_ssa_path / best_flops after each call "
                        "differ from Model/BestSoFar", dict(case, real=[answers, real_states], model=r))
        return
    wrong = sum(1 for net, a in zip(nets, answers) if not valid_ssa(len(net.inputs), a))
    ctx.count("best_so_far:shared_instance_answers", len(nets))
    ctx.count("best_so_far:shared_instance_answers_for_another_network", wrong)
    # (2) the binding of the preset itself
    from cotengra import interface as I
    fn = I._PRESETS_PATH.get(rng.choice(["random-greedy", "random-greedy-128"]))
    kind = c05_presets.describe(fn)[0] if fn is not None else "missing"
    ctx.count("best_so_far:preset_bound_to_" + kind)
    if kind not in ("function", "partial"):
        return
    log2, answers2 = [], []
    orig = pb.optimize_random_greedy_track_flops

    def rec2(*a, **k):
        r_ = orig(*a, **k)
        log2.append(r_)
        return r_

    def real_fresh():
        pb.optimize_random_greedy_track_flops = rec2
        pb.get_optimize_random_greedy_track_flops.cache_clear()    # an lru_cache holds the function
        try:
            for net in nets:
                ans = fn(*args_of(net), parallel=False, max_repeats=reps, seed=seed)
                answers2.append([list(map(int, st)) for st in ans])
        finally:
            pb.optimize_random_greedy_track_flops = orig
            pb.get_optimize_random_greedy_track_flops.cache_clear()
    st, msg = guarded(real_fresh, limit=30)
    if st != "ok" or len(log2) != len(nets):
        ctx.corr_broken("the function behind the 'random-greedy' preset could not be driven as the model "
                        "assumes (a fresh optimizer and one inner search per call): %s %s" % (st, msg), case)
        return
    rk2 = _ranks([f for _, f in log2])
    found2 = [{"path": [list(map(int, s_)) for s_ in p_], "flops": rk2[f]} for p_, f in log2]
    r2 = drv.call("c05.best_so_far", found=found2, shared=False)
    ctx.traces += 1
    want = [[list(map(int, st)) for st in pb.ssa_to_linear(a)] if a is not None else None
            for a in r2.get("answers", [])]
    if want != answers2:
        ctx.corr_broken("preset function: the answers are not the paths found for the queried networks "
                        "(Binding.freshPerCall)", dict(case, real=answers2, model=r2))
        return
    for net, a in zip(nets, answers2):
        if not valid_linear(len(net.inputs), a):
            ctx.violation({"site": "preset-function", "label": "random-greedy", "ntensors": net_class(net),
                           "error": "invalid-path"},
                          {"case": {"site": "array_contract_path", "label": "random-greedy", "net": net.json(),
                                    "params": {}}, "observed": a},
                          "random-greedy preset function: invalid path")
    ctx.count("best_so_far:fresh_sequences")


# ------------------------------------------------------------------------------ k-ary steps, RandomOptimizer, ssa_to_linear (E)


class InnerFinder:
    """an `optimize` object for `contract_nodes`: answers with the given pairwise paths in order (replay)
    or with random valid pairwise paths (recorded)"""

    def __init__(self, rng=None, answers=None):
        self.rng, self.answers, self.log = rng, list(answers or []), []

    def __call__(self, inputs, output, size_dict, **kw):
        k = len(inputs)
        if self.answers:
            path = self.answers.pop(0)
        else:
            path = rand_linear_path(self.rng, k)
        self.log.append([k, [list(st) for st in path]])
        return [tuple(st) for st in path]


def kary_keys(n, path, autocomplete=True):
    """the node sets (sorted inputs) of the steps of three or more nodes, in the order `from_path` meets
    them, plus the final completion"""
    live = [[i] for i in range(n)]
    keys = []
    for p in path:
        picked = [live.pop(i) for i in sorted(p, reverse=True)]
        if len(picked) >= 3:
            keys.append((sorted(x for g in picked for x in g), len(picked)))
        live.append(sorted(x for g in picked for x in g))
    if autocomplete and len(live) >= 3:
        keys.append((sorted(x for g in live for x in g), len(live)))
    return keys


def check_kary(ctx, drv, rng):
    """`from_path` with steps of any arity and an explicit inner finder: the real tree against
    `fromLinearK` (Model/ContractNodes) given the same inner answers -- exact, orientation-free"""
    net = gen.rand_net(rng, nmin=3, nmax=9) if rng.random() < 0.6 else medium_net(rng, 6, 11)
    n = len(net.inputs)
    inputs, output, sd = args_of(net)
    path = rand_linear_path(rng, n, arity_max=rng.choice([3, 4, 6]), singles=rng.random() < 0.3,
                            stop_early=rng.choice([0, 0, 1, 2, 3, 4]))
    if n - sum(len(st) - 1 for st in path) < 1:
        return
    keys = kary_keys(n, path)
    answers = [rand_linear_path(rng, k) for _, k in keys]
    finder = InnerFinder(answers=[list(a) for a in answers])
    ctx.count("kary:steps>=3", sum(1 for st in path if len(st) >= 3))
    ctx.count("kary:final_completion>=3", int(n - sum(len(st) - 1 for st in path) >= 3))
    tree = run_finder(ctx, drv, net, "kary", "from_path(kary)", "tree", "inner-finder",
                      lambda: ccore.ContractionTree.from_path(inputs, output, sd, path=path, optimize=finder,
                                                              autocomplete=True),
                      {"path": path, "inner": answers}, case_extra={"explicit": "kary"})
    if tree is None:
        return
    if [k for k, _ in finder.log] != [k for _, k in keys] or finder.answers:
        ctx.corr_broken("from_path: the inner finder is not called once per step of >= 3 nodes (+ completion)",
                        {"net": net.json(), "path": path, "log": finder.log, "keys": keys})
        return
    inner = [[key, pth] for (key, _), (_, pth) in zip(keys, finder.log)]
    r = drv.call("c05.from_path_kary", n=n, path=path, inner=inner, autocomplete=True)
    ctx.traces += 1
    real = tree["nested"]
    same = r.get("result") == "ok" and len(r.get("trees", [])) == 1 and \
        canon_tree(r["trees"][0])[0] == canon_tree(real)[0]
    if not same:
        ctx.corr_broken("from_path with k-ary steps: model tree differs from the real tree",
                        {"net": net.json(), "path": path, "inner": inner, "model": r, "real": real})
    else:
        ctx.count("kary:tree_equal")


class _RecRng:
    def __init__(self, rng):
        self.rng, self.log = rng, []

    def randint(self, a, b):
        v = self.rng.randint(a, b)
        self.log.append([int(a), int(b), int(v)])
        return v

    def __getattr__(self, name):
        return getattr(self.rng, name)


def check_random_optimizer(ctx, drv, rng):
    """`RandomOptimizer.__call__` against `randomPath` for the PRNG draws it actually made"""
    from cotengra.pathfinders.path_random import RandomOptimizer
    net = gen.rand_net(rng, nmin=1, nmax=9)
    n = len(net.inputs)
    opt = RandomOptimizer(seed=rng.randrange(1 << 30))
    rec = _RecRng(opt.rng)
    opt.rng = rec
    st, path = guarded(lambda: [[int(x) for x in s_] for s_ in opt(*args_of(net))])
    ctx.count("random_optimizer")
    if st != "ok":
        return          # judged by the catalogue entry of the same finder
    # the accepted pairs, and whether every range asked of the PRNG is the model's: positions 0..Nrem
    draws, ranges_ok, k, step = [], True, 0, 0
    while k < len(rec.log):
        nrem = n - 1 - step
        a, b, i = rec.log[k]
        k += 1
        ranges_ok = ranges_ok and (a == 0 and b == nrem)
        j = i
        while j == i and k < len(rec.log):
            a, b, j = rec.log[k]
            k += 1
            ranges_ok = ranges_ok and (a == 0 and b == nrem)
        draws.append([i, j])
        step += 1
    r = drv.call("c05.random_path", n=n, draws=draws)
    ctx.traces += 1
    if r.get("path") != path or not r.get("draws_ok") or not ranges_ok:
        ctx.corr_broken("RandomOptimizer: path / draws / ranges drawn from differ from Model randomPath / drawsOK",
                        {"n": n, "draws": draws, "real": path, "model": r, "ranges": rec.log[:6]})


def check_ssa_to_linear(ctx, drv, rng):
    """`ssa_to_linear` against the model on valid ssa paths (any arity) and on paths that are not paths of
    the `N` given (stale ids, ids twice): same answer or `IndexError` on both sides"""
    n = rng.randint(1, 9)
    lin = rand_linear_path(rng, n, arity_max=rng.choice([2, 2, 4]), singles=rng.random() < 0.2,
                           stop_early=rng.choice([0, 0, 0, 1, 2]))
    ssa = linear_to_ssa_own(n, lin)
    kind = rng.choice(["valid", "valid", "other-n", "mangled"])
    N = n
    if kind == "other-n":
        N = max(1, n + rng.choice([-2, -1, 1, 2]))
    elif kind == "mangled" and ssa:
        k = rng.randrange(len(ssa))
        ssa[k] = [rng.randrange(0, 2 * n) for _ in ssa[k]]
    ctx.count("ssa_to_linear:" + kind)

    def real():
        return [[int(x) for x in st] for st in pb.ssa_to_linear([tuple(st) for st in ssa], N)]
    st, val = guarded(real)
    r = drv.call("c05.ssa_to_linear", n=N, path=ssa)
    ctx.traces += 1
    real_res = ("ok", val) if st == "ok" else ("indexerror" if str(val).startswith("IndexError") else str(val), None)
    model_res = (r.get("result"), r.get("path"))
    if real_res != model_res:
        ctx.corr_broken("ssa_to_linear differs from the model", {"N": N, "ssa": ssa, "real": [st, val], "model": r})
        return
    if kind == "valid" and st == "ok":
        complete = valid_ssa(n, ssa)
        if complete:
            inferred = [[int(x) for x in s_] for s_ in pb.ssa_to_linear([tuple(s_) for s_ in ssa])]
            if inferred != val:
                ctx.corr_broken("ssa_to_linear(N=None) differs from ssa_to_linear(N) on a complete path",
                                {"N": N, "ssa": ssa})
        if valid_linear(n, val, partial=not complete) is False:
            ctx.violation({"site": "ssa_to_linear", "label": "fn", "ntensors": str(n), "error": "invalid-path"},
                          {"case": {"site": "ssa_to_linear", "n": n, "ssa": ssa}, "observed": val},
                          "ssa_to_linear turns a valid ssa path into an invalid linear path")


# ------------------------------------------------------------------------------ autocomplete / get_incomplete_nodes


def build_partial(net, params):
    """a partially built tree: top-down `splits` (node, left part) and bottom-up `pairs` of existing
    disjoint nodes, as recorded in params"""
    inputs, output, sd = args_of(net)
    t = ccore.ContractionTree(inputs, output, sd)
    for node, left in params["splits"]:
        l = frozenset(left)
        t.contract_nodes_pair(l, frozenset(node) - l)
    for x, y in params["pairs"]:
        t.contract_nodes_pair(frozenset(x), frozenset(y))
    return t


def gen_partial(rng, n):
    splits, pairs = [], []
    childless = [list(range(n))]
    for _ in range(rng.randint(0, 3)):
        big = [c for c in childless if len(c) >= 2]
        if not big:
            break
        c = rng.choice(big)
        k = rng.randint(1, len(c) - 1)
        left = sorted(rng.sample(c, k))
        right = sorted(set(c) - set(left))
        splits.append([c, left])
        childless.remove(c)
        childless += [left, right]
    # bottom-up pieces inside the childless nodes
    for c in [c for c in childless if len(c) >= 3]:
        avail = [[x] for x in c]
        for _ in range(rng.randint(0, len(c) - 2)):
            if len(avail) < 3:
                break
            x, y = rng.sample(avail, 2)
            avail.remove(x)
            avail.remove(y)
            pairs.append([x, y])
            avail.append(sorted(x + y))
    return {"splits": splits, "pairs": pairs}


def check_autocomplete(ctx, drv, rng):
    """`get_incomplete_nodes` / `autocomplete` (core.py:412-472): (flat) after a partial `from_path` the
    one group is the model's list of live subtrees and completing it gives the model's tree; (nested)
    trees built partly top-down and partly bottom-up are completed -- certificate: `checkTree`"""
    if rng.random() < 0.5:
        net = gen.rand_net(rng, nmin=3, nmax=9)
        n = len(net.inputs)
        inputs, output, sd = args_of(net)
        path = rand_linear_path(rng, n, arity_max=rng.choice([2, 3, 4]), stop_early=rng.randint(1, 4))
        left = n - sum(len(st) - 1 for st in path)
        if left < 1:
            return
        keys = kary_keys(n, path, autocomplete=False)
        ans1 = [rand_linear_path(rng, k) for _, k in keys]
        ans2 = [rand_linear_path(rng, left)] if left >= 3 else []
        params = {"path": path, "inner": ans1, "final": ans2}
        groups_seen = []

        def thunk():
            t = ccore.ContractionTree.from_path(inputs, output, sd, path=path, autocomplete=False,
                                                optimize=InnerFinder(answers=[list(a) for a in ans1]))
            g = t.get_incomplete_nodes()
            groups_seen.append([[sorted(int(x) for x in k), [sorted(int(x) for x in nd) for nd in v]]
                                for k, v in g.items()])
            t.autocomplete(optimize=InnerFinder(answers=[list(a) for a in ans2]))
            return t
        ctx.count("autocomplete:flat")
        tree = run_finder(ctx, drv, net, "autocomplete", "autocomplete(flat)", "tree", "partial-path", thunk, params)
        if tree is None:
            return
        inner = [[key, pth] for (key, _), pth in zip(keys, ans1)]
        r0 = drv.call("c05.from_path_kary", n=n, path=path, inner=inner, autocomplete=False)
        ctx.traces += 1

        def leafsets(ts):
            def lv(t):
                return [t] if isinstance(t, int) else lv(t[0]) + lv(t[1])
            return [sorted(lv(t)) for t in ts]
        want = leafsets(r0.get("trees", [])) if r0.get("result") == "ok" else None
        got = groups_seen[-1] if groups_seen else None
        exp_groups = [] if left == 1 else [[list(range(n)), want]]
        if want is None or got is None or \
                [[k, sorted(v)] for k, v in got] != [[k, sorted(v)] for k, v in exp_groups]:
            ctx.corr_broken("get_incomplete_nodes after a partial from_path differs from the model's live subtrees",
                            {"net": net.json(), "params": params, "real": got, "model": r0})
            return
        same_order = got == exp_groups
        ctx.count("autocomplete:group_in_model_order" if same_order else "autocomplete:group_other_order")
        if same_order:
            inner2 = inner + ([[list(range(n)), ans2[0]]] if ans2 else [])
            r1 = drv.call("c05.from_path_kary", n=n, path=path, inner=inner2, autocomplete=True)
            ok = r1.get("result") == "ok" and len(r1.get("trees", [])) == 1 and \
                canon_tree(r1["trees"][0])[0] == canon_tree(tree["nested"])[0]
            if not ok:
                ctx.corr_broken("autocomplete: completed tree differs from the model", 
                                {"net": net.json(), "params": params, "real": tree["nested"], "model": r1})
            else:
                ctx.count("autocomplete:tree_equal")
        return
    net = gen.rand_net(rng, nmin=2, nmax=10) if rng.random() < 0.6 else medium_net(rng, 6, 12)
    n = len(net.inputs)
    params = gen_partial(rng, n)
    params["optimize"] = rng.choice(["greedy", "auto", "auto-hq", "optimal" if n <= 8 else "greedy"])
    ctx.count("autocomplete:nested")
    ctx.count("autocomplete:nested_splits", len(params["splits"]))
    ctx.count("autocomplete:nested_pairs", len(params["pairs"]))

    def thunk2():
        t = build_partial(net, params)
        t.autocomplete(optimize=params["optimize"])
        return t
    run_finder(ctx, drv, net, "autocomplete", "autocomplete(nested)", "tree", "partial-tree", thunk2, params)


# ------------------------------------------------------------------------------ hyper optimizer route


def check_hyperopt(ctx, drv, net, netname, rng):
    inputs, output, sd = args_of(net)
    m = rng.choice(HYPER_METHODS)
    reps = rng.choice([1, 2, 4])

    def thunk():
        opt = ctg.HyperOptimizer(methods=[m], max_repeats=reps, optlib="random", parallel=False,
                                 progbar=False, on_trial_error="raise")
        return opt.search(inputs, output, sd)
    run_finder(ctx, drv, net, netname, "HyperOptimizer.search", "tree", m, thunk,
               {"max_repeats": reps, "optlib": "random"})


# ------------------------------------------------------------------------------ main


def replay_corpus(ctx):
    d = os.path.join(common.VERIF, "corpus", PROP)
    if not os.path.isdir(d):
        return
    for fn in sorted(os.listdir(d)):
        if not fn.endswith(".json"):
            continue
        obj = json.load(open(os.path.join(d, fn)))
        rp = obj.get("replay", obj)
        ctx.count("corpus_replayed")
        if not replay(ctx, rp):
            ctx.violation(obj.get("signature", {"site": "corpus"}), rp, "corpus case %s fails" % fn)


def run(ctx, drv):
    zygote(ctx, drv)            # before this process makes its first call into cotengra
    _CALLED_INTO_COTENGRA[0] = True
    rng = ctx.rng
    quick = ctx.tier == "quick"
    check_c16_agreement(ctx)
    check_sessions(ctx, drv, rng, budget_s=(75 if quick else 600), rounds=(2 if quick else 12))
    replay_corpus(ctx)
    for _ in range(600 if quick else 6000):
        check_separate(ctx, drv, rng)
    for _ in range(150 if quick else 1500):
        check_kahypar_shortcuts(ctx, drv, rng)
    nets = list(corner_nets())
    for k in range(400 if quick else 4000):
        nets.append(("rand-%d" % k, gen.rand_net(rng, nmin=1, nmax=7)))
    for k in range(60 if quick else 600):
        nets.append(("medium-%d" % k, medium_net(rng)))
    for name, net in nets:
        if ctx.time_left() < 30:
            ctx.count("plan_cut_short")
            break
        for f in net.features():
            ctx.count("feature:" + f)
        for site, kind, label, thunk, params in finder_catalogue(rng, net):
            run_finder(ctx, drv, net, name, site, kind, label, thunk, params)
        check_hyperopt(ctx, drv, net, name, rng)
        for _ in range(3):
            check_explicit(ctx, drv, net, name, rng)
        check_processor(ctx, drv, net, rng)
    for _ in range(400 if quick else 4000):
        if ctx.time_left() < 20:
            break
        check_builders(ctx, drv, rng)
    for _ in range(120 if quick else 1200):
        if ctx.time_left() < 20:
            break
        check_labels_options(ctx, drv, rng)
    for _ in range(60 if quick else 600):
        if ctx.time_left() < 20:
            break
        check_sequence(ctx, drv, rng)
    for _ in range(40 if quick else 400):
        if ctx.time_left() < 20:
            break
        check_best_so_far(ctx, drv, rng)
    for _ in range(300 if quick else 3000):
        if ctx.time_left() < 20:
            break
        check_kary(ctx, drv, rng)
        check_autocomplete(ctx, drv, rng)
        check_random_optimizer(ctx, drv, rng)
        check_ssa_to_linear(ctx, drv, rng)
        check_ssa_to_linear(ctx, drv, rng)


def _rebuild(case):
    """re-create the call described by a replay case"""
    net = gen.Net.from_json(case["net"])
    inputs, output, sd = args_of(net)
    site, label, params = case["site"], case["label"], case.get("params", {})
    if site == "array_contract_path":
        return net, "path", lambda: iface_call("path", net, label, params.get("iface") or {})
    if site == "array_contract_tree":
        return net, "tree", lambda: iface_call("tree", net, label, params.get("iface") or {})
    if site in ("optimize_greedy", "optimize_optimal"):
        fn = getattr(pb, site)
        pr = {k: (tuple(v) if isinstance(v, list) else v) for k, v in params.items()}
        return net, ("ssa" if params.get("use_ssa") else "path"), lambda: fn(inputs, output, sd, **pr)
    if site == "hyper_function":
        return net, "tree", lambda: chyper.base_trial_fn(inputs, output, sd, label, **dict(params))["tree"]
    if site == "HyperOptimizer.search":
        return net, "tree", lambda: ctg.HyperOptimizer(
            methods=[label], max_repeats=params.get("max_repeats", 1), optlib=params.get("optlib", "random"),
            parallel=False, progbar=False, on_trial_error="raise").search(inputs, output, sd)
    if site.startswith("RandomGreedyOptimizer"):
        params = {k: (tuple(v) if isinstance(v, list) else v) for k, v in params.items()}
    if site == "RandomGreedyOptimizer":
        return net, "path", lambda: pb.RandomGreedyOptimizer(parallel=False, **params)(inputs, output, sd)
    if site == "RandomGreedyOptimizer.search":
        return net, "tree", lambda: pb.RandomGreedyOptimizer(parallel=False, **params).search(inputs, output, sd)
    if site == "GreedyOptimizer":
        return net, "path", lambda: pb.GreedyOptimizer(**params)(inputs, output, sd)
    if site == "GreedyOptimizer.search":
        return net, "tree", lambda: pb.GreedyOptimizer(**params).search(inputs, output, sd)
    if site == "OptimalOptimizer":
        return net, "path", lambda: pb.OptimalOptimizer(**params)(inputs, output, sd)
    if site == "RandomOptimizer":
        return net, "path", lambda: ctg.pathfinders.path_random.RandomOptimizer(**params)(inputs, output, sd)
    if site == "autocomplete(flat)":
        def thunk_flat():
            t = ccore.ContractionTree.from_path(inputs, output, sd, path=params["path"], autocomplete=False,
                                                optimize=InnerFinder(answers=[list(a) for a in params["inner"]]))
            t.autocomplete(optimize=InnerFinder(answers=[list(a) for a in params["final"]]))
            return t
        return net, "tree", thunk_flat
    if site == "autocomplete(nested)":
        def thunk_nested():
            t = build_partial(net, params)
            t.autocomplete(optimize=params["optimize"])
            return t
        return net, "tree", thunk_nested
    if site == "from_path(kary)":
        finder = InnerFinder(answers=[list(a) for a in params["inner"]])
        return net, "tree", lambda: ccore.ContractionTree.from_path(inputs, output, sd, path=params["path"],
                                                                   optimize=finder, autocomplete=True)
    if site in ("from_path(linear)", "from_path(ssa)"):
        key = "ssa_path" if site.endswith("(ssa)") else "path"
        return net, "tree", lambda: ccore.ContractionTree.from_path(inputs, output, sd, autocomplete=True,
                                                                   **{key: params["path"]})
    if site == "explicit-linear-path":
        p = [tuple(s) for s in params["path"]]
        if label == "tree":
            return net, "tree", lambda: ctg.array_contract_tree(inputs, output, sd, optimize=p)
        return net, "path", lambda: ctg.array_contract_path(inputs, output, sd, optimize=p, cache=False)
    if site == "explicit-edge-path":
        ep = tuple(params["edge_path"])
        if label == "path":
            return net, "path", lambda: ctg.array_contract_path(inputs, output, sd, optimize=ep, cache=False)
        return net, "tree", lambda: ctg.array_contract_tree(inputs, output, sd, optimize=ep)
    if site == "sequence":
        route = case.get("route", label)
        path_fn, tree_fn = make_route(route, params.get("seed", 0))

        def thunk():
            for pj, which in case.get("prefix") or []:
                pnet = gen.Net.from_json(pj)
                try:
                    with warnings.catch_warnings():
                        warnings.simplefilter("ignore")
                        (path_fn if which == "path" else tree_fn)(pnet)
                except Exception:  # noqa: BLE001 -- only the state left behind matters here
                    pass
            return (path_fn if case.get("kind", "path") == "path" else tree_fn)(net)
        return net, case.get("kind", "path"), thunk
    if site.startswith("labels_to_tree."):
        from cotengra.pathfinders import path_labels as pl
        fn = pl.labels_to_tree.build_divide if site.endswith("divide") else pl.labels_to_tree.build_agglom
        return net, "tree", lambda: fn(inputs, output, sd, seed=7, **params)
    if site.startswith("PartitionTreeBuilder."):
        style = params["partitioner"]
        import random as _r
        rng = _r.Random(0)

        def fn(inputs_, output_, size_dict_, parts=2, **kw):
            nv = len(inputs_)
            return {"one": [7] * nv, "identity": list(range(nv)), "two": [i % 2 for i in range(nv)]}.get(
                style, [rng.randrange(max(1, parts)) for _ in range(nv)])
        b = ccore.PartitionTreeBuilder(fn)
        extra = {k: params[k] for k in ("sub_optimize", "super_optimize", "parts_decay", "random_strength")
                 if k in params}
        extra["seed"] = params.get("seed", 1)
        if site.endswith("divide"):
            return net, "tree", lambda: b.build_divide(inputs, output, sd, cutoff=params["cutoff"],
                                                       parts=params["parts"], **extra)
        extra.pop("super_optimize", None)
        extra.pop("parts_decay", None)
        return net, "tree", lambda: b.build_agglom(inputs, output, sd, groupsize=params["groupsize"], **extra)
    raise KeyError(site)


def replay_session(case):
    """the calls of a session, in order, in a process image that has not called into cotengra yet
    (a forked child of this fresh replay process, so that it can be repeated for unseeded finders);
    the verdict is on the answer to the last call"""
    calls = case["calls"]
    limit = max(c.get("limit", 60) for c in calls)
    names = " ".join(str(c.get("opt", {}).get("name", "")) + str(c.get("raw", {}).get("optimize", {}).get("preset", ""))
                     for c in calls)
    unseeded = any(w in names for w in ("random", "hyper", "auto"))
    for _ in range(12 if unseeded else 2):
        st, recs = forked(lambda: c05_sessions.run_inprocess(calls, limit), limit=limit * len(calls) + 30)
        if st != "ok":
            print("# replay:", st, recs)
            return False
        if not record_ok(calls[-1], recs[-1]):
            print("# replay: call %d of the session: %s" % (len(calls) - 1,
                  recs[-1].get("msg") or "returned contraction is not valid/complete"))
            return False
    return True


def replay(ctx, obj):
    case = obj.get("case", obj)
    if "which" in case and "parts" in case:      # a kahypar short-circuit case
        from cotengra.pathfinders.path_kahypar import kahypar_subgraph_find_membership as kfm
        net = gen.Net.from_json(case["net"])
        st, real = forked(lambda: [int(x) for x in kfm(*args_of(net), parts=case["parts"], seed=1,
                                                       fix_output_nodes=(case["which"] == "fix-outputs"))])
        if st != "ok" or len(real) != len(net.inputs):
            print("# replay:", st, real)
            return False
        return True
    if "site" not in case:
        return True
    if case["site"] == "session":
        return replay_session(case)
    try:
        net, kind, thunk = _rebuild(case)
    except KeyError:
        print("# replay: unknown site", case.get("site"))
        return True
    n = len(net.inputs)
    prime_dispatch(case.get("dispatch_first"))

    def produce():
        val = thunk()
        if kind == "ssa":
            return valid_ssa(n, [c05_sessions._jsonable_step(s_) for s_ in val])
        if kind == "path":
            return valid_linear(n, [c05_sessions._jsonable_step(s_) for s_ in val],
                                partial=(case.get("kind") == "path-partial"))
        ch = dump_children(val)
        if not (tree_ok(n, ch) and valid_linear(n, [list(map(int, s_)) for s_ in val.get_path()])):
            return False
        o = ordered_paths(val, n)
        return bool(valid_linear(n, o["lin_ord"]) and valid_ssa(n, o["ssa_ord"]))
    # finders drawing from an unseeded generator are tried repeatedly: one failure fails the property
    unseeded = case.get("label") == "random" or case.get("site") in ("HyperOptimizer.search", "hyper_function")
    for _ in range(25 if unseeded else 1):
        st, ok = forked(produce) if "kahypar" in str(case.get("label")) else guarded(produce)
        if st != "ok":
            print("# replay:", st, ok)
            return False
        if not ok:
            print("# replay: returned contraction is not valid/complete")
            return False
    return True


def search(ctx):
    """implementation-only: more networks through every finder with the independent oracles"""
    rng = ctx.rng
    found = False

    class _NoDrv:
        def call(self, *a, **k):
            return {"complete": True, "replays": True, "result": "ok"}
    nd = _NoDrv()
    for k in range(300):
        if ctx.time_left() < 30:
            break
        net = gen.rand_net(rng, nmin=1, nmax=8) if k % 4 else medium_net(rng)
        before = ctx.violations
        for site, kind, label, thunk, params in finder_catalogue(rng, net):
            run_finder(ctx, nd, net, "search-%d" % k, site, kind, label, thunk, params)
        if ctx.violations > before:
            found = True
            break
    return found
