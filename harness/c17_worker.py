"""C17 worker -- runs in a *fresh interpreter* (own PYTHONHASHSEED) and executes a batch of seeded
API calls of /repo's cotengra, printing one canonical JSON result per case.

stdin : {"repo": path, "perturb": int, "order": [case positions], "cases": [case, ...]}
stdout: {"results": {"<pos>": canonical, ...}}

Before every call the process-global `random` and `numpy.random` generators are re-seeded from
(`perturb`, position) and a pseudo-random number of draws is consumed, so that between two workers
(and between the calls of one worker) the global RNG state is never the same.  Nothing here imports
the harness: the only inputs are the JSON cases.
"""

import hashlib
import json
import os
import random
import sys
import warnings


def _canon_tree(tree):
    nodes = sorted(sorted(n) for n in tree.children)
    return {
        "nodes": nodes,
        "ssa_path": [list(map(int, p)) for p in tree.get_ssa_path()],
        "sliced": [[str(k), None if v.project is None else int(v.project)] for k, v in tree.sliced_inds.items()],
        "flops": str(int(tree.contraction_cost())) if tree.is_complete() else None,
    }


def _canon_con(con):
    return {
        "inputs": [list(map(str, t)) for t in con.inputs],
        "output": list(map(str, con.output)),
        "shapes": [list(map(int, s)) for s in con.shapes],
        "size_dict": [[str(k), int(v)] for k, v in con.size_dict.items()],
    }


def _net(case):
    n = case["net"]
    inputs = [tuple(t) for t in n["inputs"]]
    output = tuple(n["output"])
    size_dict = {k: v for k, v in n["size_dict"]}
    return inputs, output, size_dict


def _tree(ctg, case):
    inputs, output, size_dict = _net(case)
    tree = ctg.ContractionTree.from_path(inputs, output, size_dict,
                                         ssa_path=[tuple(p) for p in case["ssa_path"]])
    for ix in case.get("presliced", []):
        tree.remove_ind_(ix)
    return tree


def run_api(ctg, case):
    api = case["api"]
    seed = case["seed"]
    o = dict(case.get("opts", {}))
    U = ctg.utils

    # ---- generators of random numbers / test networks ----------------------------------------
    if api == "get_rng":
        rng = U.get_rng(seed)
        return [repr(rng.random()) for _ in range(4)] + [rng.randint(0, 10**9)]
    if api == "gumbel":
        g = U.GumbelBatchedGenerator(seed)
        return [repr(g()) for _ in range(4)]
    if api == "jitter_dict":
        _, _, size_dict = _net(case)
        from cotengra.core import jitter_dict
        return [[k, repr(v)] for k, v in jitter_dict(size_dict, o.get("strength", 0.3), seed).items()]
    if api == "rand_equation":
        return _canon_con(U.rand_equation(seed=seed, **o))
    if api == "tree_equation":
        return _canon_con(U.tree_equation(seed=seed, **o))
    if api == "randreg_equation":
        return _canon_con(U.randreg_equation(seed=seed, **o))
    if api == "perverse_equation":
        return _canon_con(U.perverse_equation(seed=seed, **o))
    if api == "lattice_equation":
        return _canon_con(U.lattice_equation(seed=seed, **o))
    if api == "networkx_graph_to_equation":
        import networkx as nx
        G = nx.Graph()
        G.add_nodes_from(range(o["n"]))
        G.add_edges_from([tuple(e) for e in o["edges"]])
        return _canon_con(U.networkx_graph_to_equation(G, d_min=2, d_max=5, seed=seed))
    if api == "rand_tree":
        return _canon_tree(U.rand_tree(seed=seed, **o))
    if api == "make_rand_size_dict_from_inputs":
        inputs, _, _ = _net(case)
        return [[k, int(v)] for k, v in U.make_rand_size_dict_from_inputs(inputs, 2, 9, seed=seed).items()]
    if api == "make_arrays_from_inputs":
        inputs, _, size_dict = _net(case)
        arrs = U.make_arrays_from_inputs(inputs, size_dict, seed=seed, dtype=o.get("dtype", "float64"))
        return [hashlib.sha1(a.tobytes()).hexdigest()[:16] for a in arrs]
    if api == "make_arrays_from_eq":
        arrs = U.make_arrays_from_eq(o["eq"], d_min=2, d_max=4, seed=seed)
        return [[list(a.shape), hashlib.sha1(a.tobytes()).hexdigest()[:16]] for a in arrs]

    # ---- path finders --------------------------------------------------------------------------
    if api == "random_greedy_track_flops":
        from cotengra.pathfinders.path_basic import optimize_random_greedy_track_flops
        inputs, output, size_dict = _net(case)
        kw = {}
        if "temperature" in o:
            kw["temperature"] = o["temperature"] if isinstance(o["temperature"], float) else tuple(o["temperature"])
        if "costmod" in o:
            kw["costmod"] = o["costmod"] if isinstance(o["costmod"], float) else tuple(o["costmod"])
        path, flops = optimize_random_greedy_track_flops(
            inputs, output, size_dict, ntrials=o.get("ntrials", 4), seed=seed,
            simplify=o.get("simplify", True), use_ssa=o.get("use_ssa", True), **kw)
        return {"path": [list(map(int, p)) for p in path], "flops": repr(flops)}
    if api == "RandomGreedyOptimizer":
        inputs, output, size_dict = _net(case)
        opt = ctg.RandomGreedyOptimizer(max_repeats=o.get("max_repeats", 4), seed=seed, parallel=False,
                                        accel=False)
        if o.get("mode") == "search":
            t1 = _canon_tree(opt.search(inputs, output, size_dict))
            t2 = _canon_tree(opt.search(inputs, output, size_dict))
            return [t1, t2, repr(opt.best_flops)]
        p1 = opt(inputs, output, size_dict)
        p2 = opt(inputs, output, size_dict)
        return [[list(map(int, p)) for p in p1], [list(map(int, p)) for p in p2], repr(opt.best_flops)]
    if api == "optimize_greedy":
        from cotengra.pathfinders.path_basic import ContractionProcessor
        inputs, output, size_dict = _net(case)
        cp = ContractionProcessor(inputs, output, size_dict)
        cp.simplify()
        cp.optimize_greedy(costmod=o.get("costmod", 1.0), temperature=o.get("temperature", 0.7), seed=seed)
        cp.optimize_remaining_by_size()
        return [list(map(int, p)) for p in cp.ssa_path]
    if api == "RandomOptimizer":
        inputs, output, size_dict = _net(case)
        opt = ctg.RandomOptimizer(seed=seed)
        if o.get("mode") == "search":
            return _canon_tree(opt.search(inputs, output, size_dict))
        return [list(map(int, p)) for p in opt(inputs, output, size_dict)]
    if api in ("labels_partition", "kahypar_membership"):
        inputs, output, size_dict = _net(case)
        if api == "labels_partition":
            from cotengra.pathfinders.path_labels import labels_partition as fn
        else:
            from cotengra.pathfinders.path_kahypar import kahypar_subgraph_find_membership as fn
        return [int(x) for x in fn(inputs, output, size_dict, parts=o.get("parts", 2), seed=seed)]
    if api in ("labels_divide", "labels_agglom", "kahypar_divide", "kahypar_agglom"):
        inputs, output, size_dict = _net(case)
        if api.startswith("labels"):
            from cotengra.pathfinders.path_labels import labels_to_tree as builder
        else:
            from cotengra.pathfinders.path_kahypar import kahypar_to_tree as builder
        if api.endswith("divide"):
            t = builder.build_divide(inputs, output, size_dict, seed=seed,
                                     random_strength=o.get("random_strength", 0.3),
                                     cutoff=o.get("cutoff", 2), parts=o.get("parts", 2),
                                     super_optimize="greedy")
        else:
            t = builder.build_agglom(inputs, output, size_dict, seed=seed,
                                     random_strength=o.get("random_strength", 0.3),
                                     groupsize=o.get("groupsize", 2))
        return _canon_tree(t)
    if api in ("greedy_compressed", "greedy_span"):
        inputs, output, size_dict = _net(case)
        from cotengra.pathfinders import path_compressed_greedy as pcg
        if api == "greedy_compressed":
            opt = pcg.GreedyCompressed(chi=o.get("chi", 4), temperature=o.get("temperature", 0.5), seed=seed)
        else:
            opt = pcg.GreedySpan(temperature=o.get("temperature", 0.5), seed=seed)
        return [list(map(int, p)) for p in opt.get_ssa_path(inputs, output, size_dict)]

    # ---- operations on trees -------------------------------------------------------------------
    tree = _tree(ctg, case)
    if api == "slice":
        t = tree.slice(seed=seed, **o)
        return _canon_tree(t)
    if api == "SliceFinder":
        sf = ctg.SliceFinder(tree, seed=seed, **o)
        ix_sl, cost = sf.search(max_repeats=6)
        return {"sliced": sorted(ix_sl), "flops": str(int(cost.total_flops)), "ncand": len(sf.costs)}
    if api == "unslice_rand":
        return _canon_tree(tree.unslice_rand(seed=seed))
    if api == "get_subtree":
        node = sorted(tree.children, key=lambda x: (-len(x), sorted(x)))[o.get("which", 0) % len(tree.children)]
        leaves, branches = tree.get_subtree(node, o.get("size", 4), search=o.get("search", "random"), seed=seed)
        return [[sorted(x) for x in leaves], [sorted(x) for x in branches]]
    if api == "subtree_reconfigure":
        t = tree.subtree_reconfigure(seed=seed, **o)
        return _canon_tree(t)
    if api == "subtree_reconfigure_forest":
        kw = dict(o)
        for k in ("subtree_search", "subtree_select", "subtree_weight_what", "subtree_weight_pwr"):
            if k in kw:
                kw[k] = tuple(kw[k])
        t = tree.subtree_reconfigure_forest(seed=seed, parallel=False, **kw)
        return _canon_tree(t)
    if api == "simulated_anneal":
        t = tree.simulated_anneal(seed=seed, **o)
        return _canon_tree(t)
    if api == "parallel_temper":
        t = tree.parallel_temper(seed=seed, parallel=False, **o)
        return _canon_tree(t)
    raise ValueError("unknown api " + api)


def _perturb_globals(perturb, pos, np):
    """Reseed and advance the process-global generators (differently per worker and per call)."""
    r = random.Random(f"{perturb}/{pos}")
    random.seed(r.randrange(1 << 62))
    for _ in range(r.randrange(0, 17)):
        random.random()
    np.random.seed(r.randrange(1 << 31))
    for _ in range(r.randrange(0, 7)):
        np.random.random()


def main():
    job = json.load(sys.stdin)
    sys.path.insert(0, job["repo"])
    warnings.simplefilter("ignore")
    import numpy as np
    import cotengra as ctg
    assert os.path.realpath(ctg.__file__).startswith(os.path.realpath(job["repo"])), ctg.__file__
    results = {}
    cases = job["cases"]
    for pos in job.get("order") or range(len(cases)):
        case = cases[pos]
        _perturb_globals(job["perturb"], pos, np)
        try:
            out = run_api(ctg, case)
        except Exception as e:  # the error class is part of the observable result
            out = {"exception": type(e).__name__, "msg": str(e)[:120]}
        results[str(pos)] = out
    json.dump({"results": results, "hashseed": os.environ.get("PYTHONHASHSEED"),
               "probe": hash("cotengra") % 1000}, sys.stdout)


if __name__ == "__main__":
    main()
