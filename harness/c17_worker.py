"""C17 worker -- runs in a *fresh interpreter* (own PYTHONHASHSEED) and executes a batch of seeded
API calls of /repo's cotengra, printing one canonical JSON result per case.

stdin : {"repo": path, "perturb": int, "order": [case positions], "cases": [case, ...],
         "same_object": bool}
stdout: {"results": {"<pos>": canonical, ...}, "selfcheck": {"<pos>": [labels that differ]}}

A case may carry a "history": in-place warm-up operations applied to the tree object before the
call (identically in every interpreter).  With "same_object" the identical call is repeated on
the SAME object, on copies, after a call with another seed, and through the inplace variant
(`same_object_checks`) -- the result must not depend on what was called before.

Before every call the process-global `random` and `numpy.random` generators are re-seeded from
(`perturb`, position) and a pseudo-random number of draws is consumed, so that between two workers
(and between the calls of one worker) the global RNG state is never the same.  Nothing here imports
the harness: the only inputs are the JSON cases.
"""

import hashlib
import json
import os
import random
import sys
import threading
import time
import warnings
from concurrent.futures import Future

SCHED = {"order": "fifo", "salt": 0}     # completion order of the pools of this interpreter (job["sched"])
POOL_LOGS = []                           # pools created while running the current case


class _Fut(Future):
    """a future of OrderedPool: asking for its result (or polling it) makes the pool hand back
    everything that is pending, in the pool's completion order"""

    def __init__(self, pool):
        super().__init__()
        self._pool = pool

    def result(self, timeout=None):
        if not super().done():
            self._pool.release()
        return super().result(timeout)

    def done(self):
        if not super().done():
            self._pool.release()
        return super().done()

    def exception(self, timeout=None):
        if not super().done():
            self._pool.release()
        return super().exception(timeout)


class OrderedPool:
    """An executor to pass as `parallel=`.  Every task is computed faithfully and synchronously at
    `submit` (so the computation itself is single-threaded and reproducible); what varies is only
    the ORDER in which the futures complete: first-in-first-out, last-in-first-out or shuffled --
    workers finishing at different speeds.  Futures complete when somebody waits for them
    (`result()`, `as_completed`, `wait`: a watcher thread sees the installed waiters).  The pool
    records what was submitted and returned, batch by batch (a batch = everything completed by one
    release)."""

    def __init__(self, order, salt=0, n_workers=2):
        self.order, self.salt, self._max_workers = order, salt, n_workers
        self.pending, self.batches, self.cur = [], [], []
        self.lock = threading.RLock()
        self.closed = False
        self.last_submit = 0.0
        self.watcher = None
        POOL_LOGS.append(self)

    def submit(self, fn, *args, **kwargs):
        fut = _Fut(self)
        try:
            res = (True, fn(*args, **kwargs))
        except BaseException as e:  # noqa: BLE001
            res = (False, e)
        with self.lock:
            self.pending.append((fut, res))
            self.cur.append({"fn": getattr(fn, "__name__", str(fn)), "args": args, "kwargs": kwargs, "res": res})
            self.last_submit = time.time()
            if self.watcher is None:
                self.watcher = threading.Thread(target=self._watch, daemon=True)
                self.watcher.start()
        return fut

    def _watch(self):
        while not self.closed:
            time.sleep(0.0005)
            with self.lock:
                pend = list(self.pending)
            if not pend:
                continue
            # `as_completed` / `wait` have installed their waiter (they do so for all their futures
            # at once, holding the futures' locks; `set_result` below waits for those locks).  No
            # time-out: a release happens only when the consumer asks, so what a batch contains
            # never depends on how fast anything ran.
            if any(len(f._waiters) > 0 for f, _ in pend):
                self.release()

    def release(self):
        with self.lock:
            batch, self.pending = self.pending, []
            rec, self.cur = self.cur, []
            if not batch:
                return
            idx = list(range(len(batch)))
            if self.order == "lifo":
                idx.reverse()
            elif self.order == "shuffle":
                random.Random(f"{self.salt}/{len(self.batches)}").shuffle(idx)
            self.batches.append({"tasks": rec, "order": idx})
        for i in idx:
            fut, (ok, res) = batch[i]
            if ok:
                fut.set_result(res)
            else:
                fut.set_exception(res)

    def shutdown(self, wait=True):
        self.release()
        self.closed = True


def new_pool(n_workers=2):
    return OrderedPool(SCHED["order"], SCHED["salt"], n_workers)


def _tree_key(t):
    return json.dumps([[list(map(int, p)) for p in t.get_ssa_path()], sorted(map(str, t.sliced_inds))])


def pool_log(ctg, minimize=None):
    """what the pools of the current case saw: per batch the parent tree and sub-seed of every
    task, the tree it returned and its score (the sort key of the forest); the completion orders
    are reported separately (they differ between interpreters by construction)"""
    from cotengra.scoring import get_score_fn
    rounds, orders = [], []
    for pool in POOL_LOGS:
        for b in pool.batches:
            r = {"fn": [], "parent": [], "seed": [], "result": [], "score": []}
            for t in b["tasks"]:
                r["fn"].append(t["fn"])
                par = t["kwargs"].get("tree", t["args"][0] if t["args"] else None)
                r["parent"].append(_tree_key(par) if hasattr(par, "get_ssa_path") else None)
                r["seed"].append(t["kwargs"].get("seed"))
                ok, res = t["res"]
                if ok and hasattr(res, "get_ssa_path"):
                    r["result"].append(_tree_key(res))
                    try:
                        obj = minimize if minimize is not None else res.get_default_objective()
                        from cotengra.core import _get_tree_info
                        r["score"].append(repr(float(get_score_fn(obj)({"tree": res, **_get_tree_info(res)}))))
                    except Exception as e:  # noqa: BLE001
                        r["score"].append("err:" + type(e).__name__)
                elif ok:
                    r["result"].append(hashlib.sha1(repr(res).encode()).hexdigest()[:12])
                    r["score"].append(repr(res[1]) if isinstance(res, tuple) and len(res) == 2 else None)
                else:
                    r["result"].append("exc:" + type(res).__name__)
                    r["score"].append(None)
            rounds.append(r)
            orders.append(b["order"])
    return rounds, orders


def _canon_tree(tree):
    nodes = sorted(sorted(n) for n in tree.children)
    return {
        "nodes": nodes,
        "ssa_path": [list(map(int, p)) for p in tree.get_ssa_path()],
        "sliced": [[str(k), None if v.project is None else int(v.project)] for k, v in tree.sliced_inds.items()],
        "flops": str(int(tree.contraction_cost())) if tree.is_complete() else None,
    }


def _canon_con(con):
    return {
        "inputs": [list(map(str, t)) for t in con.inputs],
        "output": list(map(str, con.output)),
        "shapes": [list(map(int, s)) for s in con.shapes],
        "size_dict": [[str(k), int(v)] for k, v in con.size_dict.items()],
    }


def _net(case):
    n = case["net"]
    inputs = [tuple(t) for t in n["inputs"]]
    output = tuple(n["output"])
    size_dict = {k: v for k, v in n["size_dict"]}
    return inputs, output, size_dict


def _tree(ctg, case):
    inputs, output, size_dict = _net(case)
    tree = ctg.ContractionTree.from_path(inputs, output, size_dict,
                                         ssa_path=[tuple(p) for p in case["ssa_path"]])
    for ix in case.get("presliced", []):
        tree.remove_ind_(ix)
    return tree


def run_api(ctg, case):
    api = case["api"]
    seed = case["seed"]
    o = dict(case.get("opts", {}))
    U = ctg.utils

    # ---- generators of random numbers / test networks ----------------------------------------
    if api == "get_rng":
        rng = U.get_rng(seed)
        return [repr(rng.random()) for _ in range(4)] + [rng.randint(0, 10**9)]
    if api == "gumbel":
        g = U.GumbelBatchedGenerator(seed)
        return [repr(g()) for _ in range(4)]
    if api == "jitter_dict":
        _, _, size_dict = _net(case)
        from cotengra.core import jitter_dict
        return [[k, repr(v)] for k, v in jitter_dict(size_dict, o.get("strength", 0.3), seed).items()]
    if api == "rand_equation":
        return _canon_con(U.rand_equation(seed=seed, **o))
    if api == "tree_equation":
        return _canon_con(U.tree_equation(seed=seed, **o))
    if api == "randreg_equation":
        return _canon_con(U.randreg_equation(seed=seed, **o))
    if api == "perverse_equation":
        return _canon_con(U.perverse_equation(seed=seed, **o))
    if api == "lattice_equation":
        return _canon_con(U.lattice_equation(seed=seed, **o))
    if api == "networkx_graph_to_equation":
        import networkx as nx
        G = nx.Graph()
        G.add_nodes_from(range(o["n"]))
        G.add_edges_from([tuple(e) for e in o["edges"]])
        return _canon_con(U.networkx_graph_to_equation(G, d_min=2, d_max=5, seed=seed))
    if api == "rand_tree":
        return _canon_tree(U.rand_tree(seed=seed, **o))
    if api == "make_rand_size_dict_from_inputs":
        inputs, _, _ = _net(case)
        return [[k, int(v)] for k, v in U.make_rand_size_dict_from_inputs(inputs, 2, 9, seed=seed).items()]
    if api == "make_arrays_from_inputs":
        inputs, _, size_dict = _net(case)
        arrs = U.make_arrays_from_inputs(inputs, size_dict, seed=seed, dtype=o.get("dtype", "float64"))
        return [hashlib.sha1(a.tobytes()).hexdigest()[:16] for a in arrs]
    if api == "make_arrays_from_eq":
        arrs = U.make_arrays_from_eq(o["eq"], d_min=2, d_max=4, seed=seed)
        return [[list(a.shape), hashlib.sha1(a.tobytes()).hexdigest()[:16]] for a in arrs]

    # ---- path finders --------------------------------------------------------------------------
    if api == "random_greedy_track_flops":
        from cotengra.pathfinders.path_basic import optimize_random_greedy_track_flops
        inputs, output, size_dict = _net(case)
        kw = {}
        if "temperature" in o:
            kw["temperature"] = o["temperature"] if isinstance(o["temperature"], float) else tuple(o["temperature"])
        if "costmod" in o:
            kw["costmod"] = o["costmod"] if isinstance(o["costmod"], float) else tuple(o["costmod"])
        path, flops = optimize_random_greedy_track_flops(
            inputs, output, size_dict, ntrials=o.get("ntrials", 4), seed=seed,
            simplify=o.get("simplify", True), use_ssa=o.get("use_ssa", True), **kw)
        return {"path": [list(map(int, p)) for p in path], "flops": repr(flops)}
    if api == "RandomGreedyOptimizer":
        inputs, output, size_dict = _net(case)
        par = new_pool(o.get("workers", 2)) if o.get("parallel") == "pool" else False
        kwx = {k: (tuple(v) if isinstance(v, list) else v) for k, v in o.items() if k in ("temperature", "costmod")}
        opt = ctg.RandomGreedyOptimizer(max_repeats=o.get("max_repeats", 4), seed=seed, parallel=par,
                                        accel=False, **kwx)
        if o.get("mode") == "search":
            t1 = _canon_tree(opt.search(inputs, output, size_dict))
            t2 = _canon_tree(opt.search(inputs, output, size_dict))
            return [t1, t2, repr(opt.best_flops)]
        p1 = opt(inputs, output, size_dict)
        p2 = opt(inputs, output, size_dict)
        return [[list(map(int, p)) for p in p1], [list(map(int, p)) for p in p2], repr(opt.best_flops)]
    if api == "optimize_greedy":
        from cotengra.pathfinders.path_basic import ContractionProcessor
        inputs, output, size_dict = _net(case)
        cp = ContractionProcessor(inputs, output, size_dict)
        cp.simplify()
        cp.optimize_greedy(costmod=o.get("costmod", 1.0), temperature=o.get("temperature", 0.7), seed=seed)
        cp.optimize_remaining_by_size()
        return [list(map(int, p)) for p in cp.ssa_path]
    if api == "RandomOptimizer":
        inputs, output, size_dict = _net(case)
        opt = ctg.RandomOptimizer(seed=seed)
        if o.get("mode") == "search":
            return _canon_tree(opt.search(inputs, output, size_dict))
        return [list(map(int, p)) for p in opt(inputs, output, size_dict)]
    if api in ("labels_partition", "kahypar_membership"):
        inputs, output, size_dict = _net(case)
        if api == "labels_partition":
            from cotengra.pathfinders.path_labels import labels_partition as fn
        else:
            from cotengra.pathfinders.path_kahypar import kahypar_subgraph_find_membership as fn
        kw = dict(o)
        kw.setdefault("parts", 2)
        return [int(x) for x in fn(inputs, output, size_dict, seed=seed, **kw)]
    if api in ("labels_divide", "labels_agglom", "kahypar_divide", "kahypar_agglom"):
        inputs, output, size_dict = _net(case)
        if api.startswith("labels"):
            from cotengra.pathfinders.path_labels import labels_to_tree as builder
        else:
            from cotengra.pathfinders.path_kahypar import kahypar_to_tree as builder
        kw = {k: v for k, v in o.items() if k not in ("via",)}
        if api.endswith("divide"):
            kw.setdefault("cutoff", 2)
            kw.setdefault("super_optimize", "greedy")
            fn = builder.trial_fn if o.get("via") == "trial_fn" else builder.build_divide
        else:
            kw.setdefault("groupsize", 2)
            fn = builder.trial_fn_agglom if o.get("via") == "trial_fn" else builder.build_agglom
        # `random_strength` absent = the default of the builder
        return _canon_tree(fn(inputs, output, size_dict, seed=seed, **kw))
    if api in ("greedy_compressed", "greedy_span"):
        inputs, output, size_dict = _net(case)
        from cotengra.pathfinders import path_compressed_greedy as pcg
        if api == "greedy_compressed":
            opt = pcg.GreedyCompressed(chi=o.get("chi", 4), temperature=o.get("temperature", 0.5), seed=seed)
        else:
            opt = pcg.GreedySpan(temperature=o.get("temperature", 0.5), seed=seed)
        return [list(map(int, p)) for p in opt.get_ssa_path(inputs, output, size_dict)]

    if api == "optimize_object":
        # an optimizer OBJECT (seeded at construction) passed as `optimize=`: part of the arguments
        inputs, output, size_dict = _net(case)
        kind = o.get("kind", "random_greedy")
        if kind == "random_greedy":
            opt = ctg.RandomGreedyOptimizer(max_repeats=o.get("max_repeats", 4), seed=seed, parallel=False,
                                            accel=False)
        elif kind == "random":
            opt = ctg.RandomOptimizer(seed=seed)
        elif kind == "greedy_compressed":
            from cotengra.pathfinders import path_compressed_greedy as pcg
            opt = pcg.GreedyCompressed(chi=o.get("chi", 4), temperature=0.5, seed=seed)
        else:
            raise ValueError(kind)
        via = o.get("via", "array_contract_tree")
        if via == "array_contract_tree":
            return _canon_tree(ctg.array_contract_tree(inputs, output, size_dict, optimize=opt))
        if via == "array_contract_path":
            return [list(map(int, p)) for p in ctg.array_contract_path(inputs, output, size_dict, optimize=opt)]
        if via == "rand_tree":
            return _canon_tree(U.rand_tree(o.get("n", 6), 3, seed=seed + 1, optimize=opt))
        if via == "subtree_optimize":
            tree = _tree(ctg, case)
            return _canon_tree(tree.subtree_reconfigure(subtree_size=4, maxiter=3, seed=seed, optimize=opt))
        raise ValueError(via)
    if api == "windowed_reconfigure":
        inputs, output, size_dict = _net(case)
        tree = ctg.ContractionTreeCompressed.from_path(inputs, output, size_dict,
                                                       ssa_path=[tuple(p) for p in case["ssa_path"]])
        t = tree.windowed_reconfigure(seed=seed, **o)
        return _canon_tree(t)
    if api == "slice_and_reconfigure_forest_globalseed":
        # no seed parameter: the "seed" is the state of the global generator (outside C17's
        # statement; reported as a note).  The pool's completion order must still not matter.
        tree = _tree(ctg, case)
        random.seed(seed)
        kw = dict(o)
        par = kw.pop("parallel", False)
        kw["parallel"] = new_pool(kw.pop("workers", 2)) if par == "pool" else False
        return _canon_tree(tree.slice_and_reconfigure_forest(**kw))

    # ---- operations on trees -------------------------------------------------------------------
    tree = _tree(ctg, case)
    apply_history(ctg, tree, case)
    return tree_call(ctg, tree, api, seed, o)


def _drop_history_pools():
    for pl in POOL_LOGS:
        pl.shutdown()
    del POOL_LOGS[:]


TREE_APIS = ("slice", "SliceFinder", "unslice_rand", "get_subtree", "subtree_reconfigure",
             "subtree_reconfigure_forest", "simulated_anneal", "parallel_temper")
INPLACE = {"slice": "slice_", "unslice_rand": "unslice_rand_", "subtree_reconfigure": "subtree_reconfigure_",
           "subtree_reconfigure_forest": "subtree_reconfigure_forest_", "simulated_anneal": "simulated_anneal_",
           "parallel_temper": "parallel_temper_"}


def _kwargs(api, seed, o):
    kw = dict(o)
    if api == "subtree_reconfigure_forest":
        for k in ("subtree_search", "subtree_select", "subtree_weight_what", "subtree_weight_pwr"):
            if k in kw:
                kw[k] = tuple(kw[k])
    if api in ("subtree_reconfigure_forest", "parallel_temper"):
        par = kw.pop("parallel", False)
        kw["parallel"] = new_pool(kw.pop("workers", 2)) if par == "pool" else False
    kw["seed"] = seed
    return kw


def tree_call(ctg, tree, api, seed, o, inplace=False):
    """one seeded call on the given tree object; canonical result"""
    if api == "SliceFinder":
        sf = ctg.SliceFinder(tree, seed=seed, **o)
        ix_sl, cost = sf.search(max_repeats=6)
        return {"sliced": sorted(ix_sl), "flops": str(int(cost.total_flops)), "ncand": len(sf.costs)}
    if api == "get_subtree":
        node = sorted(tree.children, key=lambda x: (-len(x), sorted(x)))[o.get("which", 0) % len(tree.children)]
        leaves, branches = tree.get_subtree(node, o.get("size", 4), search=o.get("search", "random"), seed=seed)
        return [[sorted(x) for x in leaves], [sorted(x) for x in branches]]
    name = INPLACE[api] if inplace else api
    t = getattr(tree, name)(**_kwargs(api, seed, o))
    return _canon_tree(t)


def apply_history(ctg, tree, case):
    """warm-up history on the tree object itself, the same in every interpreter: it exercises the
    caches an object carries (already_optimized, contraction_cores, tracked totals, info)"""
    for op in case.get("history", []):
        try:
            _history_op(ctg, tree, case, op)
        except Exception:  # noqa: BLE001  (e.g. "Ran out of valid indices to slice": same everywhere)
            pass
    _drop_history_pools()      # pools created by warm-up calls are not part of the observed call


def _history_op(ctg, tree, case, op):
    if True:
        kind, arg = op[0], (op[1] if len(op) > 1 else {})
        if kind == "reconf_":
            tree.subtree_reconfigure_(**arg)
        elif kind == "forest_":
            tree.subtree_reconfigure_forest_(parallel=False, **arg)
        elif kind == "anneal_":
            tree.simulated_anneal_(**arg)
        elif kind == "stats":
            tree.contract_stats()
            tree.get_path()
            tree.contraction_width()
            tree.peak_size()
        elif kind == "contractor":
            tree.get_contractor()
        elif kind == "slice_unslice":
            tree.slice_(target_slices=2, seed=arg.get("seed", 0))
            tree.unslice_all_()
        elif kind == "seeded_other":
            # the same API, another seed, result discarded (non-inplace)
            tree_call(ctg, tree, case["api"], arg["seed"], dict(case.get("opts", {})))
        else:
            raise ValueError("unknown history op " + str(kind))


def same_object_checks(ctg, case, first):
    """Repeat the identical seeded call on the SAME object (and on copies of it) inside this
    interpreter.  Returns the list of comparisons that differ (empty = deterministic):
      repeat        the same non-inplace call again on the same object
      copy          ... on a copy taken now
      after-other   ... again after a call with another seed
      inplace-copies / inplace-original   the inplace variant on two copies taken at the same
                    moment, and on the original itself"""
    api, seed, o = case["api"], case["seed"], dict(case.get("opts", {}))
    bad = []
    if isinstance(first, dict) and "pool_rounds" in first:
        first = first["value"]
    if api not in TREE_APIS:
        try:
            again = run_api(ctg, case)
        except Exception as e:  # noqa: BLE001
            again = {"exception": type(e).__name__}
        if _k(again) != _k(first):
            bad.append("repeat")
        return bad
    tree = _tree(ctg, case)
    apply_history(ctg, tree, case)

    def call(t, inplace=False, sd=seed):
        try:
            return _k(tree_call(ctg, t, api, sd, o, inplace=inplace))
        except Exception as e:  # noqa: BLE001
            return _k({"exception": type(e).__name__})

    r1 = call(tree)
    if r1 != _k(first):
        bad.append("rebuilt")          # an identically prepared twin object
    if call(tree) != r1:
        bad.append("repeat")
    if call(tree.copy()) != r1:
        bad.append("copy")
    call(tree, sd=seed + 12345)
    if call(tree) != r1:
        bad.append("after-other")
    if api in INPLACE:
        c1, c2 = tree.copy(), tree.copy()
        i1, i2 = call(c1, inplace=True), call(c2, inplace=True)
        if i1 != i2:
            bad.append("inplace-copies")
        if call(tree, inplace=True) != i1:
            bad.append("inplace-original")
    return bad


def _k(r):
    if isinstance(r, dict) and "exception" in r:
        return json.dumps({"exception": r["exception"]})
    return json.dumps(r, sort_keys=True)


def _perturb_globals(perturb, pos, np):
    """Reseed and advance the process-global generators (differently per worker and per call)."""
    r = random.Random(f"{perturb}/{pos}")
    random.seed(r.randrange(1 << 62))
    for _ in range(r.randrange(0, 17)):
        random.random()
    np.random.seed(r.randrange(1 << 31))
    for _ in range(r.randrange(0, 7)):
        np.random.random()


def _global_state(np):
    """digest of the state of the two process-global generators"""
    st = np.random.get_state()
    return hashlib.sha1(repr(random.getstate()).encode() + st[1].tobytes() + repr(st[2:]).encode()).hexdigest()[:16]


# calls that legitimately consume the global generator (they have no seed parameter)
GLOBAL_BY_DESIGN = {"slice_and_reconfigure_forest_globalseed"}


def main():
    job = json.load(sys.stdin)
    sys.path.insert(0, job["repo"])
    warnings.simplefilter("ignore")
    import numpy as np
    import cotengra as ctg
    assert os.path.realpath(ctg.__file__).startswith(os.path.realpath(job["repo"])), ctg.__file__
    results = {}
    selfcheck = {}
    pools = {}
    touched = []
    cases = job["cases"]
    SCHED["order"] = job.get("sched") or "fifo"
    SCHED["salt"] = job["perturb"]
    for pos in job.get("order") or range(len(cases)):
        case = cases[pos]
        _perturb_globals(job["perturb"], pos, np)
        del POOL_LOGS[:]
        g0 = _global_state(np)
        try:
            out = run_api(ctg, case)
        except Exception as e:  # the error class is part of the observable result
            out = {"exception": type(e).__name__, "msg": str(e)[:120]}
        if _global_state(np) != g0 and case["api"] not in GLOBAL_BY_DESIGN:
            touched.append(pos)
        if POOL_LOGS:
            for pl in POOL_LOGS:
                pl.shutdown()
            try:
                rounds, orders = pool_log(ctg, case.get("opts", {}).get("minimize"))
            except Exception as e:  # noqa: BLE001
                rounds, orders = [{"error": type(e).__name__}], []
            # what the pool was given and gave back is a function of the arguments too
            out = {"value": out, "pool_rounds": rounds}
            pools[str(pos)] = orders
        del POOL_LOGS[:]
        results[str(pos)] = out
        if job.get("same_object"):
            bad = same_object_checks(ctg, case, out)
            for pl in POOL_LOGS:
                pl.shutdown()
            del POOL_LOGS[:]
            if bad:
                selfcheck[str(pos)] = bad
    json.dump({"results": results, "selfcheck": selfcheck, "pool_orders": pools, "sched": SCHED["order"],
               "global_touched": touched,
               "hashseed": os.environ.get("PYTHONHASHSEED"), "probe": hash("cotengra") % 1000}, sys.stdout)


if __name__ == "__main__":
    main()
