"""C17 worker -- runs in a *fresh interpreter* (own PYTHONHASHSEED) and executes a batch of seeded
API calls of /repo's cotengra, printing one canonical JSON result per case.

stdin : {"repo": path, "perturb": int, "order": [case positions], "cases": [case, ...],
         "same_object": bool}
stdout: {"results": {"<pos>": canonical, ...}, "selfcheck": {"<pos>": [labels that differ]}}

A case may carry a "history": in-place warm-up operations applied to the tree object before the
call (identically in every interpreter).  With "same_object" the identical call is repeated on
the SAME object, on copies, after a call with another seed, and through the inplace variant
(`same_object_checks`) -- the result must not depend on what was called before.

Before every call the process-global `random` and `numpy.random` generators are re-seeded from
(`perturb`, position) and a pseudo-random number of draws is consumed, so that between two workers
(and between the calls of one worker) the global RNG state is never the same.  Nothing here imports
the harness: the only inputs are the JSON cases.
"""

import hashlib
import json
import os
import random
import sys
import warnings


def _canon_tree(tree):
    nodes = sorted(sorted(n) for n in tree.children)
    return {
        "nodes": nodes,
        "ssa_path": [list(map(int, p)) for p in tree.get_ssa_path()],
        "sliced": [[str(k), None if v.project is None else int(v.project)] for k, v in tree.sliced_inds.items()],
        "flops": str(int(tree.contraction_cost())) if tree.is_complete() else None,
    }


def _canon_con(con):
    return {
        "inputs": [list(map(str, t)) for t in con.inputs],
        "output": list(map(str, con.output)),
        "shapes": [list(map(int, s)) for s in con.shapes],
        "size_dict": [[str(k), int(v)] for k, v in con.size_dict.items()],
    }


def _net(case):
    n = case["net"]
    inputs = [tuple(t) for t in n["inputs"]]
    output = tuple(n["output"])
    size_dict = {k: v for k, v in n["size_dict"]}
    return inputs, output, size_dict


def _tree(ctg, case):
    inputs, output, size_dict = _net(case)
    tree = ctg.ContractionTree.from_path(inputs, output, size_dict,
                                         ssa_path=[tuple(p) for p in case["ssa_path"]])
    for ix in case.get("presliced", []):
        tree.remove_ind_(ix)
    return tree


def run_api(ctg, case):
    api = case["api"]
    seed = case["seed"]
    o = dict(case.get("opts", {}))
    U = ctg.utils

    # ---- generators of random numbers / test networks ----------------------------------------
    if api == "get_rng":
        rng = U.get_rng(seed)
        return [repr(rng.random()) for _ in range(4)] + [rng.randint(0, 10**9)]
    if api == "gumbel":
        g = U.GumbelBatchedGenerator(seed)
        return [repr(g()) for _ in range(4)]
    if api == "jitter_dict":
        _, _, size_dict = _net(case)
        from cotengra.core import jitter_dict
        return [[k, repr(v)] for k, v in jitter_dict(size_dict, o.get("strength", 0.3), seed).items()]
    if api == "rand_equation":
        return _canon_con(U.rand_equation(seed=seed, **o))
    if api == "tree_equation":
        return _canon_con(U.tree_equation(seed=seed, **o))
    if api == "randreg_equation":
        return _canon_con(U.randreg_equation(seed=seed, **o))
    if api == "perverse_equation":
        return _canon_con(U.perverse_equation(seed=seed, **o))
    if api == "lattice_equation":
        return _canon_con(U.lattice_equation(seed=seed, **o))
    if api == "networkx_graph_to_equation":
        import networkx as nx
        G = nx.Graph()
        G.add_nodes_from(range(o["n"]))
        G.add_edges_from([tuple(e) for e in o["edges"]])
        return _canon_con(U.networkx_graph_to_equation(G, d_min=2, d_max=5, seed=seed))
    if api == "rand_tree":
        return _canon_tree(U.rand_tree(seed=seed, **o))
    if api == "make_rand_size_dict_from_inputs":
        inputs, _, _ = _net(case)
        return [[k, int(v)] for k, v in U.make_rand_size_dict_from_inputs(inputs, 2, 9, seed=seed).items()]
    if api == "make_arrays_from_inputs":
        inputs, _, size_dict = _net(case)
        arrs = U.make_arrays_from_inputs(inputs, size_dict, seed=seed, dtype=o.get("dtype", "float64"))
        return [hashlib.sha1(a.tobytes()).hexdigest()[:16] for a in arrs]
    if api == "make_arrays_from_eq":
        arrs = U.make_arrays_from_eq(o["eq"], d_min=2, d_max=4, seed=seed)
        return [[list(a.shape), hashlib.sha1(a.tobytes()).hexdigest()[:16]] for a in arrs]

    # ---- path finders --------------------------------------------------------------------------
    if api == "random_greedy_track_flops":
        from cotengra.pathfinders.path_basic import optimize_random_greedy_track_flops
        inputs, output, size_dict = _net(case)
        kw = {}
        if "temperature" in o:
            kw["temperature"] = o["temperature"] if isinstance(o["temperature"], float) else tuple(o["temperature"])
        if "costmod" in o:
            kw["costmod"] = o["costmod"] if isinstance(o["costmod"], float) else tuple(o["costmod"])
        path, flops = optimize_random_greedy_track_flops(
            inputs, output, size_dict, ntrials=o.get("ntrials", 4), seed=seed,
            simplify=o.get("simplify", True), use_ssa=o.get("use_ssa", True), **kw)
        return {"path": [list(map(int, p)) for p in path], "flops": repr(flops)}
    if api == "RandomGreedyOptimizer":
        inputs, output, size_dict = _net(case)
        opt = ctg.RandomGreedyOptimizer(max_repeats=o.get("max_repeats", 4), seed=seed, parallel=False,
                                        accel=False)
        if o.get("mode") == "search":
            t1 = _canon_tree(opt.search(inputs, output, size_dict))
            t2 = _canon_tree(opt.search(inputs, output, size_dict))
            return [t1, t2, repr(opt.best_flops)]
        p1 = opt(inputs, output, size_dict)
        p2 = opt(inputs, output, size_dict)
        return [[list(map(int, p)) for p in p1], [list(map(int, p)) for p in p2], repr(opt.best_flops)]
    if api == "optimize_greedy":
        from cotengra.pathfinders.path_basic import ContractionProcessor
        inputs, output, size_dict = _net(case)
        cp = ContractionProcessor(inputs, output, size_dict)
        cp.simplify()
        cp.optimize_greedy(costmod=o.get("costmod", 1.0), temperature=o.get("temperature", 0.7), seed=seed)
        cp.optimize_remaining_by_size()
        return [list(map(int, p)) for p in cp.ssa_path]
    if api == "RandomOptimizer":
        inputs, output, size_dict = _net(case)
        opt = ctg.RandomOptimizer(seed=seed)
        if o.get("mode") == "search":
            return _canon_tree(opt.search(inputs, output, size_dict))
        return [list(map(int, p)) for p in opt(inputs, output, size_dict)]
    if api in ("labels_partition", "kahypar_membership"):
        inputs, output, size_dict = _net(case)
        if api == "labels_partition":
            from cotengra.pathfinders.path_labels import labels_partition as fn
        else:
            from cotengra.pathfinders.path_kahypar import kahypar_subgraph_find_membership as fn
        return [int(x) for x in fn(inputs, output, size_dict, parts=o.get("parts", 2), seed=seed)]
    if api in ("labels_divide", "labels_agglom", "kahypar_divide", "kahypar_agglom"):
        inputs, output, size_dict = _net(case)
        if api.startswith("labels"):
            from cotengra.pathfinders.path_labels import labels_to_tree as builder
        else:
            from cotengra.pathfinders.path_kahypar import kahypar_to_tree as builder
        if api.endswith("divide"):
            t = builder.build_divide(inputs, output, size_dict, seed=seed,
                                     random_strength=o.get("random_strength", 0.3),
                                     cutoff=o.get("cutoff", 2), parts=o.get("parts", 2),
                                     super_optimize="greedy")
        else:
            t = builder.build_agglom(inputs, output, size_dict, seed=seed,
                                     random_strength=o.get("random_strength", 0.3),
                                     groupsize=o.get("groupsize", 2))
        return _canon_tree(t)
    if api in ("greedy_compressed", "greedy_span"):
        inputs, output, size_dict = _net(case)
        from cotengra.pathfinders import path_compressed_greedy as pcg
        if api == "greedy_compressed":
            opt = pcg.GreedyCompressed(chi=o.get("chi", 4), temperature=o.get("temperature", 0.5), seed=seed)
        else:
            opt = pcg.GreedySpan(temperature=o.get("temperature", 0.5), seed=seed)
        return [list(map(int, p)) for p in opt.get_ssa_path(inputs, output, size_dict)]

    # ---- operations on trees -------------------------------------------------------------------
    tree = _tree(ctg, case)
    apply_history(ctg, tree, case)
    return tree_call(ctg, tree, api, seed, o)


TREE_APIS = ("slice", "SliceFinder", "unslice_rand", "get_subtree", "subtree_reconfigure",
             "subtree_reconfigure_forest", "simulated_anneal", "parallel_temper")
INPLACE = {"slice": "slice_", "unslice_rand": "unslice_rand_", "subtree_reconfigure": "subtree_reconfigure_",
           "subtree_reconfigure_forest": "subtree_reconfigure_forest_", "simulated_anneal": "simulated_anneal_",
           "parallel_temper": "parallel_temper_"}


def _kwargs(api, seed, o):
    kw = dict(o)
    if api == "subtree_reconfigure_forest":
        for k in ("subtree_search", "subtree_select", "subtree_weight_what", "subtree_weight_pwr"):
            if k in kw:
                kw[k] = tuple(kw[k])
        kw["parallel"] = False
    if api == "parallel_temper":
        kw["parallel"] = False
    kw["seed"] = seed
    return kw


def tree_call(ctg, tree, api, seed, o, inplace=False):
    """one seeded call on the given tree object; canonical result"""
    if api == "SliceFinder":
        sf = ctg.SliceFinder(tree, seed=seed, **o)
        ix_sl, cost = sf.search(max_repeats=6)
        return {"sliced": sorted(ix_sl), "flops": str(int(cost.total_flops)), "ncand": len(sf.costs)}
    if api == "get_subtree":
        node = sorted(tree.children, key=lambda x: (-len(x), sorted(x)))[o.get("which", 0) % len(tree.children)]
        leaves, branches = tree.get_subtree(node, o.get("size", 4), search=o.get("search", "random"), seed=seed)
        return [[sorted(x) for x in leaves], [sorted(x) for x in branches]]
    name = INPLACE[api] if inplace else api
    t = getattr(tree, name)(**_kwargs(api, seed, o))
    return _canon_tree(t)


def apply_history(ctg, tree, case):
    """warm-up history on the tree object itself, the same in every interpreter: it exercises the
    caches an object carries (already_optimized, contraction_cores, tracked totals, info)"""
    for op in case.get("history", []):
        try:
            _history_op(ctg, tree, case, op)
        except Exception:  # noqa: BLE001  (e.g. "Ran out of valid indices to slice": same everywhere)
            pass


def _history_op(ctg, tree, case, op):
    if True:
        kind, arg = op[0], (op[1] if len(op) > 1 else {})
        if kind == "reconf_":
            tree.subtree_reconfigure_(**arg)
        elif kind == "forest_":
            tree.subtree_reconfigure_forest_(parallel=False, **arg)
        elif kind == "anneal_":
            tree.simulated_anneal_(**arg)
        elif kind == "stats":
            tree.contract_stats()
            tree.get_path()
            tree.contraction_width()
            tree.peak_size()
        elif kind == "contractor":
            tree.get_contractor()
        elif kind == "slice_unslice":
            tree.slice_(target_slices=2, seed=arg.get("seed", 0))
            tree.unslice_all_()
        elif kind == "seeded_other":
            # the same API, another seed, result discarded (non-inplace)
            tree_call(ctg, tree, case["api"], arg["seed"], dict(case.get("opts", {})))
        else:
            raise ValueError("unknown history op " + str(kind))


def same_object_checks(ctg, case, first):
    """Repeat the identical seeded call on the SAME object (and on copies of it) inside this
    interpreter.  Returns the list of comparisons that differ (empty = deterministic):
      repeat        the same non-inplace call again on the same object
      copy          ... on a copy taken now
      after-other   ... again after a call with another seed
      inplace-copies / inplace-original   the inplace variant on two copies taken at the same
                    moment, and on the original itself"""
    api, seed, o = case["api"], case["seed"], dict(case.get("opts", {}))
    bad = []
    if api not in TREE_APIS:
        try:
            again = run_api(ctg, case)
        except Exception as e:  # noqa: BLE001
            again = {"exception": type(e).__name__}
        if _k(again) != _k(first):
            bad.append("repeat")
        return bad
    tree = _tree(ctg, case)
    apply_history(ctg, tree, case)

    def call(t, inplace=False, sd=seed):
        try:
            return _k(tree_call(ctg, t, api, sd, o, inplace=inplace))
        except Exception as e:  # noqa: BLE001
            return _k({"exception": type(e).__name__})

    r1 = call(tree)
    if r1 != _k(first):
        bad.append("rebuilt")          # an identically prepared twin object
    if call(tree) != r1:
        bad.append("repeat")
    if call(tree.copy()) != r1:
        bad.append("copy")
    call(tree, sd=seed + 12345)
    if call(tree) != r1:
        bad.append("after-other")
    if api in INPLACE:
        c1, c2 = tree.copy(), tree.copy()
        i1, i2 = call(c1, inplace=True), call(c2, inplace=True)
        if i1 != i2:
            bad.append("inplace-copies")
        if call(tree, inplace=True) != i1:
            bad.append("inplace-original")
    return bad


def _k(r):
    if isinstance(r, dict) and "exception" in r:
        return json.dumps({"exception": r["exception"]})
    return json.dumps(r, sort_keys=True)


def _perturb_globals(perturb, pos, np):
    """Reseed and advance the process-global generators (differently per worker and per call)."""
    r = random.Random(f"{perturb}/{pos}")
    random.seed(r.randrange(1 << 62))
    for _ in range(r.randrange(0, 17)):
        random.random()
    np.random.seed(r.randrange(1 << 31))
    for _ in range(r.randrange(0, 7)):
        np.random.random()


def main():
    job = json.load(sys.stdin)
    sys.path.insert(0, job["repo"])
    warnings.simplefilter("ignore")
    import numpy as np
    import cotengra as ctg
    assert os.path.realpath(ctg.__file__).startswith(os.path.realpath(job["repo"])), ctg.__file__
    results = {}
    selfcheck = {}
    cases = job["cases"]
    for pos in job.get("order") or range(len(cases)):
        case = cases[pos]
        _perturb_globals(job["perturb"], pos, np)
        try:
            out = run_api(ctg, case)
        except Exception as e:  # the error class is part of the observable result
            out = {"exception": type(e).__name__, "msg": str(e)[:120]}
        results[str(pos)] = out
        if job.get("same_object"):
            bad = same_object_checks(ctg, case, out)
            if bad:
                selfcheck[str(pos)] = bad
    json.dump({"results": results, "selfcheck": selfcheck, "hashseed": os.environ.get("PYTHONHASHSEED"),
               "probe": hash("cotengra") % 1000}, sys.stdout)


if __name__ == "__main__":
    main()
