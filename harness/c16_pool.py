"""C16 -- overlapping pool-parallel sub-searches: tie of Model/ReusePool.lean to /repo.

A `ReusableHyperOptimizer(parallel=<executor>)` is shared by 2-3 threads; the executor is a
user-supplied `concurrent.futures.Executor` (public API) that is completely deterministic:

  * `submit` creates a future, notes which search dispatched it (one search = one trial function
    object, `HyperOptimizer.setup` builds a new one per `_search`), and is a yield point of the
    thread controller;
  * `Future.done()` answers by policy -- `inline` / `fifo`: every future is done as soon as it is
    asked (the scan of `_get_and_report_next_future` then takes the oldest pending one),
    `lifo`: only the newest pending future of each search is done, `random`: a seeded coin, done
    at the third poll at the latest; the task runs in the polling thread at that moment;
  * `Future.result()` notes which thread (= which search) harvested the future and is a yield
    point; `Future.cancel()` notes the cancellation.

So every interleaving of two searches at the granularity "one submission / one harvest" can be
forced, with every completion order the policies produce.  The event list (begin / submit /
harvest(search, future) / cancel) is handed to the driver op `c16.pool`, which runs the very
`ReusePool.pstep`: a harvested future that is not in the model's list of the harvesting search,
a different set of cancelled futures, or a different contraction of the search's best tree is a
broken correspondence.  The oracle (every returned tree is a tree of the query's contraction) needs
neither the model nor a private attribute.
"""

import random
import threading
from concurrent.futures import Executor, Future

import cotengra as ctg

from . import c16 as B

POLICIES = ("inline", "fifo", "lifo", "random")


class HFuture(Future):
    def __init__(self, ex, fn, args, kwargs, sigma, k):
        super().__init__()
        self.ex, self.fn, self.args, self.kwargs, self.sigma, self.k = ex, fn, args, kwargs, sigma, k
        self._ran = False
        self._polls = 0

    def _run(self):
        if not self._ran:
            self._ran = True
            try:
                self.set_result(self.fn(*self.args, **self.kwargs))
            except BaseException as e:  # noqa
                self.set_exception(e)

    def done(self):
        ex = self.ex
        if self._ran or ex.decide(self):
            self._run()
            ex.false_polls = 0
            return True
        ex.false_polls += 1
        if ex.false_polls > 400:
            raise RuntimeError("verif: a search keeps polling futures none of which can complete")
        return False

    def result(self, timeout=None):
        ex = self.ex
        idx = getattr(B._tls, "idx", 0)
        ex.events.append(["harvest", ex.cur.get(idx, -1), self.sigma, self.k])
        if self in ex.pending.get(self.sigma, []):
            ex.pending[self.sigma].remove(self)
        self._run()
        r = super().result(timeout)
        B._yield("harvest")
        return r

    def cancel(self):
        ex = self.ex
        idx = getattr(B._tls, "idx", 0)
        ex.events.append(["cancelled", ex.cur.get(idx, -1), self.sigma, self.k])
        if self in ex.pending.get(self.sigma, []):
            ex.pending[self.sigma].remove(self)
        return super().cancel()


class PoolExec(Executor):
    """user-supplied executor; `_max_workers = 1` makes `pre_dispatch` 5"""

    _max_workers = 1

    def __init__(self, policy, seed=0):
        self.policy = policy
        self.rng = random.Random(seed)
        self.events = []
        self.sigma_of = {}      # id(trial function object) -> search number
        self.fns = []           # keep the trial function objects alive (ids stay unique)
        self.owner = {}         # search -> thread index
        self.node = {}          # search -> plan node of the query that runs it
        self.nsub = {}
        self.pending = {}
        self.cur = {}           # thread index -> the search it is running
        self.all = []
        self.false_polls = 0

    def submit(self, fn, *args, **kwargs):
        idx = getattr(B._tls, "idx", 0)
        key = id(fn)
        if key not in self.sigma_of:
            s = len(self.sigma_of)
            self.sigma_of[key] = s
            self.fns.append(fn)
            self.owner[s] = idx
            self.node[s] = B._node()
            self.events.append(["begin", s])
        s = self.sigma_of[key]
        self.cur[idx] = s
        k = self.nsub.get(s, 0)
        self.nsub[s] = k + 1
        f = HFuture(self, fn, args, kwargs, s, k)
        self.pending.setdefault(s, []).append(f)
        self.all.append(f)
        self.events.append(["submit", s])
        if self.policy == "inline":
            f._run()
        B._yield("submit")
        return f

    def decide(self, f):
        if self.policy in ("inline", "fifo"):
            return True
        pend = self.pending.get(f.sigma, [])
        if self.policy == "lifo":
            return bool(pend) and pend[-1] is f
        f._polls += 1
        return f._polls >= 3 or self.rng.random() < 0.4

    def shutdown(self, wait=True, **kw):
        pass


def make_pool_optimizer(mode, wrap_r, hyper_kw):
    """mode = 'pool-<policy>[-equil]': `-equil` adds a stop rule (`max_time='equil:0'`) and more
    repeats, so that searches end with futures still pending, which are cancelled."""
    parts = mode.split("-")
    policy = parts[1]
    kw = dict(hyper_kw)
    kw["max_repeats"] = 2
    if "equil" in parts:
        kw["max_repeats"] = 7
        kw["max_time"] = "equil:0"
    if "long" in parts:
        kw["max_repeats"] = 7
    ex = PoolExec(policy, seed=17)
    kw["parallel"] = ex
    opt = ctg.ReusableHyperOptimizer(**kw)
    opt._verif_exec = ex
    return opt


MODES = tuple(f"pool-{p}" for p in POLICIES) + ("pool-fifo-equil", "pool-lifo-equil", "pool-random-long",
                                                "pool-lifo-long")


def model_events(ex):
    """the executor's records as events of Model/ReusePool.lean"""
    evs = []
    cancelled = {}
    for e in ex.events:
        if e[0] == "cancelled":
            s = e[1]
            if s not in cancelled:
                cancelled[s] = []
                evs.append(["cancel", s])
            cancelled[s].append([e[2], e[3]])
        else:
            evs.append(e)
    return evs, cancelled


def compare(drv, ex, obs):
    ns = len(ex.sigma_of)
    if ns == 0:
        return None
    nets = [(ex.node.get(s) or {}).get("nid", 0) for s in range(ns)]
    raw = {}
    for f in ex.all:
        sc = None
        if f._ran and f.exception() is None:
            try:
                v = Future.result(f, 0)
                sc = v.get("score")
                if sc is not None and not (sc < float("inf")):
                    sc = None
            except Exception:
                sc = None
        raw[(f.sigma, f.k)] = sc
    allsc = sorted({v for v in raw.values() if v is not None})
    scores = [[(allsc.index(raw[(s, k)]) if raw.get((s, k)) is not None else None) for k in range(ex.nsub.get(s, 0))]
              for s in range(ns)]
    evs, cancelled = model_events(ex)
    if any(e[0] == "harvest" and e[1] < 0 for e in evs):
        return "a future was harvested by a thread that never submitted"
    resp = drv.call("c16.pool", fresh=True, nets=nets, scores=scores, events=evs)
    if "error" in resp:
        return "c16.pool driver error: " + resp["error"]
    if resp["mismatch"]:
        m = resp["mismatch"][0]
        msg = (f"search {m['search']} (thread {ex.owner.get(m['search'])}) reported the future ({m['origin']}, {m['k']}) "
               f"dispatched by search {m['origin']}: it is not in the model's list of that search")
        try:
            alt = drv.call("c16.pool", fresh=False, nets=nets, scores=scores, events=evs)
            if not alt.get("mismatch"):
                msg += ("  [the run agrees with the model's variant freshList = false: one list shared by all "
                        "searches, see C16.shared_list_counterexample]")
        except Exception:
            pass
        return msg
    for s, sr in enumerate(resp["searches"]):
        if sr["cancelled"] != cancelled.get(s, []):
            return f"search {s}: cancelled futures model {sr['cancelled']} vs implementation {cancelled.get(s, [])}"
        if sr["pending"] != 0:
            return f"search {s}: the model still has {sr['pending']} pending futures at the end"
        node = ex.node.get(s) or {}
        got = node.get("pool_got", "?")
        if got != "?" and sr["tree"] != got:
            return f"search {s}: contraction of the best tree model {sr['tree']} vs implementation {got}"
    return None


def check(ctx, drv, mode, programs, chooser, tag):
    obs = B.run_threads(mode, programs, chooser, instr="none")
    opt = obs.get("_opt")
    ex = getattr(opt, "_verif_exec", None)
    ctx.count(f"Q:{tag}:{mode}")
    sw = sum(1 for a, b in zip(obs["schedule"], obs["schedule"][1:]) if a != b)
    ctx.count("Q:context_switches", sw)
    if ex is not None:
        ctx.count("Q:searches", len(ex.sigma_of))
        ctx.count("Q:submissions", sum(1 for e in ex.events if e[0] == "submit"))
        ctx.count("Q:harvests", sum(1 for e in ex.events if e[0] == "harvest"))
        ctx.count("Q:cancelled", sum(1 for e in ex.events if e[0] == "cancelled"))
        # searches of different threads whose events interleave
        spans = {}
        for i, e in enumerate(ex.events):
            s = e[1]
            spans.setdefault(s, [i, i])[1] = i
        ov = sum(1 for a in spans for b in spans if a < b and ex.owner.get(a) != ex.owner.get(b)
                 and spans[a][0] < spans[b][1] and spans[b][0] < spans[a][1])
        ctx.count("Q:overlapping_search_pairs", ov)
    case = {"kind": "schedule", "mode": mode, "programs": programs, "schedule": obs["schedule"], "instr": "none"}
    ctx.case(case, nontrivial=len(programs) > 1 and sw > 0)
    bad = B.oracle(programs, obs, mode)
    if bad is not None:
        ctx.violation(B.signature(mode, programs, bad), {"case": case, "failed": [bad[0], bad[1]]},
                      f"{mode}: {bad[0]} {bad[1]}")
        return obs, False
    if obs.get("blocked"):
        ctx.count("runs_with_a_thread_blocked_outside_the_controller")
    elif drv is not None and ex is not None:
        # the tree each search's query got (tree interface, the query ran exactly this search)
        for i, per in enumerate(obs["nodes"]):
            for node, res in zip(per, obs["results"][i]):
                node["pool_got"] = res[1]
        try:
            diff = compare(drv, ex, obs)
        except Exception as e:
            diff = f"comparison failed: {type(e).__name__}: {e}"
        ctx.traces += 1
        if diff:
            ctx.corr_broken("c16.pool: " + diff, case)
    return obs, True


def explore_all(ctx, drv, mode, programs, max_runs, tag):
    prefix, runs = [], 0
    while True:
        if runs >= max_runs or ctx.time_left() < 20:
            return runs, False
        pf = list(prefix)

        def chooser(enabled, k, pf=pf):
            return enabled[pf[k]] if k < len(pf) and pf[k] < len(enabled) else enabled[0]

        obs, _ = check(ctx, drv, mode, programs, chooser, tag)
        runs += 1
        pos = [en.index(ch) for en, ch in zip(obs["enabled"], obs["schedule"])]
        k = len(pos) - 1
        while k >= 0 and pos[k] + 1 >= len(obs["enabled"][k]):
            k -= 1
        if k < 0:
            return runs, True
        prefix = pos[:k] + [pos[k] + 1]


def run(ctx, drv):
    quick = ctx.tier == "quick"
    rng = ctx.rng
    notes = []
    # every interleaving (submission / harvest granularity) of two threads asking different
    # contractions, one cheap and one dear, in both roles, per completion policy
    ex = [("pool-fifo", [[3], [5]]), ("pool-lifo", [[5], [3]]), ("pool-inline", [[3], [6]])]
    if not quick:
        ex += [("pool-random", [[3], [5]]), ("pool-fifo", [[3, 5], [5]]), ("pool-lifo", [[3], [4], [5]])]
    for mode, programs in ex:
        runs, complete = explore_all(ctx, drv, mode, programs, 400 if quick else 3200, "exhaustive")
        notes.append({"mode": mode, "programs": programs, "interleavings": runs, "complete": complete})
    ctx.notes["pool_exhaustive_interleavings"] = notes
    for _ in range(120 if quick else 2000):
        if ctx.time_left() < 50:
            break
        mode = rng.choice(MODES)
        programs = [[rng.choice([3, 3, 4, 5, 6, 7]) for _ in range(rng.randint(1, 2))]
                    for _ in range(rng.choice([2, 2, 3]))]
        r2 = random.Random(rng.randrange(1 << 30))
        check(ctx, drv, mode, programs, lambda en, k, r2=r2: r2.choice(en), "random")


def search(ctx):
    """Implementation-only: overlapping pool-parallel searches through one Reusable object."""
    rng = ctx.rng
    for i in range(600):
        if ctx.time_left() < 10:
            return False
        mode = MODES[i % len(MODES)]
        programs = [[3], [5]] if i < 16 else [[rng.choice([3, 4, 5, 6]) for _ in range(rng.randint(1, 2))]
                                               for _ in range(rng.choice([2, 3]))]
        if i < 16 and i % 2:
            programs = [[5], [3]]
        r2 = random.Random(rng.randrange(1 << 30))
        obs = B.run_threads(mode, programs, lambda en, k: r2.choice(en), instr="none")
        bad = B.oracle(programs, obs, mode)
        if bad is not None:
            case = {"kind": "schedule", "mode": mode, "programs": programs, "schedule": obs["schedule"],
                    "instr": "none"}
            sig = B.signature(mode, programs, bad)
            sig["found_by"] = "search"
            return bool(ctx.violation(sig, {"case": case, "failed": [bad[0], bad[1]]},
                                      f"failing input found by search: {mode}: {bad[0]} {bad[1]}"))
    return False
