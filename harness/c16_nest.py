"""C16 -- re-entrant (nested) queries: tie of Model/ReuseNest.lean to /repo.

A hyper method registered through the public `register_hyper_function` ("verif-nest") plays the
part of a partitioning driver: while it builds the tree of a trial it puts queries to the shared
optimizer objects of the run (the one whose search is running, or another one) through `search`
or `__call__`, following a *plan* -- a nesting tree generated beforehand: per query which object
and interface it uses and, for each of the `R` trials of its sub-search should it come to one,
which nested queries the trial function puts and whether the trial fails.  Nesting depth 1-3, cache
hits and misses arise at every level (small pool, repeated contractions).

Observed per thread: the answers in the order the calls returned (contraction of the returned tree
/ validity of the returned path, per nesting depth), the number of sub-optimizers created, which
keys the objects cache, and -- under forced schedules -- which shared access ended every segment.
All of it is compared with the driver op `c16.nrun` (the very `ReuseNest.step`); the oracle
(`tree.inputs/output/size_dict/N` equal the query's, for outer *and* nested queries) needs no
model and no private attribute.
"""

import random
import threading
import warnings

import cotengra as ctg
from cotengra.hyperoptimizers.hyper import register_hyper_function
from cotengra.pathfinders.path_basic import GreedyOptimizer

from . import c16 as B

METHOD = "verif-nest"
R = 2          # max_repeats of every optimizer of a nested run = trials per sub-search
_GREEDY = GreedyOptimizer()

KINDS = ("reusable-no", "reusable-yes", "reusable-improved", "reusable-cacheonly", "auto-cached", "auto-plain")


def valid_path(path, n):
    """`path` is a complete linear contraction path for `n` tensors."""
    try:
        cnt = n
        for step in path:
            step = tuple(step)
            if len(set(step)) != len(step) or not step or any((not isinstance(i, int)) or i < 0 or i >= cnt for i in step):
                return False
            cnt -= len(step) - 1
        return cnt == 1
    except Exception:
        return False


def ask(node):
    """Put the query of plan node `node` to its target object; record what came back."""
    objs = B._tls.nest_objs
    obj = objs[node["target"]]
    net = B.POOL[node["nid"]]
    st = B._tls.qstack
    depth = len(st)
    fr = {"node": node, "k": 0}
    st.append(fr)
    err = None
    try:
        with warnings.catch_warnings():
            warnings.simplefilter("ignore")
            if node.get("call"):
                path = obj(net.sym_inputs(), net.sym_output(), net.sym_sizes())
                got = node["nid"] if valid_path(path, len(net.inputs)) else -1
            else:
                tree = obj.search(net.sym_inputs(), net.sym_output(), net.sym_sizes())
                got = B.net_of_tree(tree)
    except Exception as e:           # the call raised: nothing returned
        got = None
        err = type(e).__name__
    finally:
        st.pop()
    node["got"] = got
    node["error"] = err
    node["ntrials"] = fr["k"]
    B._tls.nest_results.append([node["nid"], depth, bool(node.get("call")), got])
    return got


def trial_nest(inputs, output, size_dict, **kwargs):
    """The registered hyper method: nested queries according to the plan, then a greedy tree over
    the inputs it was given."""
    st = getattr(B._tls, "qstack", None)
    plan = None
    if st:
        fr = st[-1]
        k = fr["k"]
        fr["k"] = k + 1
        trials = fr["node"].get("trials") or []
        if k < len(trials):
            plan = trials[k]
    if plan is not None and getattr(B._tls, "nest_objs", None) is not None:
        for child in plan.get("nested", []):
            B._yield("call")
            ask(child)
    tree = _GREEDY.search(inputs, output, size_dict)
    if plan is not None and plan.get("fail"):
        raise RuntimeError("verif: scripted trial failure")
    return tree


register_hyper_function(METHOD, trial_nest, space={})


def strip(node):
    """the plan without observations (JSON-serialisable, what a replay needs)"""
    return {"nid": node["nid"], "target": node["target"], "call": bool(node.get("call")),
            "trials": [{"nested": [strip(c) for c in t.get("nested", [])], "fail": bool(t.get("fail"))}
                       for t in node.get("trials", [])]}


def walk(node):
    yield node
    for t in node.get("trials", []):
        for c in t.get("nested", []):
            yield from walk(c)


def depth_of(node):
    return 1 + max([depth_of(c) for t in node.get("trials", []) for c in t.get("nested", [])] or [0])


def rand_node(rng, kinds, depth, maxdepth, budget):
    """`budget`: one-element list, number of further nodes the plan may still get"""
    target = rng.randrange(len(kinds))
    kind = kinds[target]
    if kind.startswith("auto"):
        nid = rng.choice([0, 1, 3, 3, 4, 5, 6])
    else:
        nid = rng.choice([3, 3, 4, 4, 5, 7, 0])
    trials = []
    for _ in range(R):
        nested = []
        if depth < maxdepth:
            for _ in range(rng.choice([0, 1, 1, 2] if depth == 0 else [0, 1, 1, 2, 0])):
                if budget[0] > 0:
                    budget[0] -= 1
                    nested.append(rand_node(rng, kinds, depth + 1, maxdepth, budget))
        trials.append({"nested": nested, "fail": rng.random() < 0.1})
    return {"nid": nid, "target": target, "call": rng.random() < 0.25, "trials": trials}


def make_objects(kinds, instr):
    return [B.make_optimizer(k, instr, methods=(METHOD,), max_repeats=R) for k in kinds]


def run_nested(kinds, programs, chooser=None, instr="private", free=False):
    """programs: per thread a list of plan nodes (observations are written into them)."""
    B._ROBJS.clear()
    objs = make_objects(kinds, instr)
    n = len(programs)
    ctl = B.Controller(n, chooser or (lambda en, k: en[0]))
    ctl.free = free
    results = [[] for _ in range(n)]

    def worker(i):
        B._tls.ctl, B._tls.idx = ctl, i
        B._tls.nest_objs = objs
        B._tls.nest_results = results[i]
        B._tls.qstack = []
        try:
            ctl.start(i)
            for j, node in enumerate(programs[i]):
                ask(node)
                if j + 1 < len(programs[i]):
                    ctl.yield_(i)
        finally:
            B._tls.ctl = None
            B._tls.nest_objs = None
            B._tls.qstack = None
            ctl.finish(i)

    ths = [threading.Thread(target=worker, args=(i,), daemon=True) for i in range(n)]
    for t in ths:
        t.start()
    completed = True
    if not free:
        completed = ctl.drive()
    for t in ths:
        t.join(timeout=120)
    obs = {"results": results, "schedule": list(ctl.effective), "enabled": ctl.enabled_log,
           "seg_labels": list(ctl.seg_labels), "instr": instr,
           "completed": completed and all(not t.is_alive() for t in ths), "_objs": objs}
    if ctl.degraded:
        obs["blocked"] = ctl.degraded
    for o in objs:
        if getattr(o, "_verif_instr_error", None):
            obs["degraded"] = o._verif_instr_error
    return obs


def oracle(kinds, programs, obs):
    """Every query, outer or nested, got a tree / path of the contraction it asked about."""
    if not obs["completed"]:
        return ("threads-did-not-finish", obs["schedule"][-10:])
    for i, prog in enumerate(programs):
        for top in prog:
            for node in walk(top):
                if "got" not in node:
                    continue          # never put (its parent was a cache hit / raised before)
                got = node["got"]
                if got is None:
                    allfail = node["trials"] and all(t.get("fail") for t in node["trials"])
                    if kinds[node["target"]] == "reusable-cacheonly" and node.get("error") == "KeyError":
                        continue
                    if allfail and node.get("error") == "KeyError":
                        continue      # every trial failed: HyperOptimizer has no tree to return
                    return ("call-raised", {"thread": i, "asked": node["nid"], "error": node.get("error"),
                                            "interface": "call" if node.get("call") else "search"})
                if got != node["nid"]:
                    return ("tree-of-another-contraction" if not node.get("call") else "path-of-another-contraction",
                            {"thread": i, "asked": node["nid"], "returned": got, "nested": node is not top})
        if [r for r in obs["results"][i] if r[1] == 0 and True] and \
                [r[0] for r in obs["results"][i] if r[1] == 0] != [top["nid"] for top in prog]:
            return ("missing-answers", [i, obs["results"][i]])
    return None


def model_kind(kind):
    if kind.startswith("reusable"):
        return "reusable"
    return "auto_plain" if kind == "auto-plain" else "auto_cached"


def model_compare(drv, kinds, programs, obs, segments=True, register_first=False):
    """c16.nrun on the same plan, with the scores / object grouping observed in the run."""
    allsc = sorted({nd["score"] for prog in programs for top in prog for nd in walk(top)
                    if nd.get("score") is not None})
    objmap = {}
    objkind = {}

    def obj_of(node):
        k = node.get("obj_key")
        if k is None:
            return 900 + node["target"]
        if k not in objmap:
            objmap[k] = len(objmap)
            objkind[objmap[k]] = kinds[node["target"]]
        return objmap[k]

    def qtree(node):
        sc = node.get("score")
        rank = allsc.index(sc) if sc in allsc else 0
        return {"q": [node["nid"], B.KEY[node["nid"]], bool(B.HARD[node["nid"]])],
                "kind": model_kind(kinds[node["target"]]), "obj": obj_of(node), "call": bool(node.get("call")),
                "trials": [{"nested": [qtree(c) for c in t.get("nested", [])],
                            "score": None if t.get("fail") else rank} for t in node.get("trials", [])]}

    queues = [[qtree(top) for top in prog] for prog in programs]
    # objects never reached by a hash in the run keep their configured kind
    for ti, k in enumerate(kinds):
        objkind.setdefault(900 + ti, k)
    ov = {"reusable-yes": "yes", "reusable-improved": "improved"}
    probe, real = [], {}
    if obs["instr"] == "private":
        for key, o in objmap.items():
            robj = B._ROBJS.get(key)
            if robj is None:
                continue
            for nid in sorted({nd["nid"] for prog in programs for top in prog for nd in walk(top)}):
                net = B.POOL[nid]
                try:
                    hh = B.hash_contraction(net.sym_inputs(), net.sym_output(), net.sym_sizes(), robj._hash_method)
                    if robj.directory_split:
                        hh = (hh[:2], hh[2:])
                    inner = getattr(robj._cache, "_inner", robj._cache)
                    real[(o, B.KEY[nid])] = hh in inner
                    probe.append([o, B.KEY[nid]])
                except Exception:
                    pass
    kw = {}
    if segments and obs["instr"] == "private" and len(obs["seg_labels"]) == len(obs["schedule"]):
        kw = dict(segments=[[t, l] for t, l in zip(obs["schedule"], obs["seg_labels"])], observable=B.OBSERVABLE)
    resp = drv.call("c16.nrun", queues=queues,
                    overwrite=[[o, ov.get(k, "no")] for o, k in objkind.items()],
                    cache_only=[o for o, k in objkind.items() if k == "reusable-cacheonly"],
                    probe=probe, fuel=4000, register_first=register_first, **kw)
    if "error" in resp:
        return "c16.nrun driver error: " + resp["error"]
    if resp["mismatch"] is not None:
        m = resp["mismatch"]
        return (f"segment {m['segment']} of the schedule ended at yield point {m['expected']!r} in the "
                f"implementation, the model's thread comes to {m['got']!r} next")
    for i, th in enumerate(resp["threads"]):
        if th["left"] != 0 or th["stack"] != 0:
            return f"thread {i}: model has not finished its program"
        if kw and th["after_segments"] != len(th["results"]):
            return f"thread {i}: the model needed steps beyond the implementation's schedule"
        # path interface: the implementation side can only see that the path fits the contraction;
        # the model names the contraction whose search found it -- equal up to the hash (C14)
        mres = [[n, d, c, (n if (c and g is not None and B.KEY[g] == B.KEY[n]) else g)] for n, d, c, g in th["results"]]
        if mres != obs["results"][i]:
            return f"thread {i}: answers model {mres} vs implementation {obs['results'][i]}"
        nalloc = sum(1 for top in programs[i] for nd in walk(top) if nd.get("ntrials", 0) > 0)
        if th["nalloc"] != nalloc:
            return f"thread {i}: sub-optimizers created model {th['nalloc']} vs implementation {nalloc}"
        if obs["instr"] == "private":
            priv = sum(1 for top in programs[i] for nd in walk(top) if nd.get("searched"))
            if priv != nalloc:
                return f"thread {i}: {priv} sub-optimizers created but {nalloc} queries ran trials"
    for o, k, v in resp["cached"]:
        if real.get((o, k)) != v:
            return f"object {o} key {k}: cached model {v} vs implementation {real.get((o, k))}"
    return None


def signature(kinds, bad):
    return {"site": "nested-query", "optimizer": "+".join(sorted(set(kinds))), "kind": bad[0]}


_DEGRADED = {}


def check(ctx, drv, kinds, programs, chooser, tag, instr="private"):
    if instr == "private" and _DEGRADED.get("instr"):
        instr = "none"
    try:
        obs = run_nested(kinds, programs, chooser, instr=instr)
    except B.InstrumentationError as e:
        if not _DEGRADED.get("instr"):
            _DEGRADED["instr"] = str(e)
            ctx.corr_broken("nested: instrumentation of the private yield points is not possible: " + str(e),
                            {"kinds": kinds})
        instr = "none"
        programs = [[strip(t) for t in p] for p in programs]
        obs = run_nested(kinds, programs, chooser, instr=instr)
    nodes = [nd for p in programs for top in p for nd in walk(top)]
    put = [nd for nd in nodes if "got" in nd]
    ctx.count(f"N:{tag}:{instr}")
    ctx.count("N:queries_put", len(put))
    ctx.count("N:nested_queries_put", sum(1 for r in sum(obs["results"], []) if r[1] > 0))
    for r in sum(obs["results"], []):
        ctx.count(f"N:depth{r[1]}:" + ("call" if r[2] else "search"))
    for nd in put:
        hit = nd.get("ntrials", 0) == 0 and nd.get("got") is not None
        ctx.count("N:answer_without_search" if hit else ("N:raised:" + str(nd.get("error")) if nd["got"] is None
                                                         else "N:answer_after_search"))
    ctx.count("N:nesting_depth_%d" % (max([depth_of(t) for p in programs for t in p] or [1]) - 1))
    for k in kinds:
        ctx.count("N:object:" + k)
    sw = sum(1 for a, b in zip(obs["schedule"], obs["schedule"][1:]) if a != b)
    ctx.count("N:context_switches", sw)
    case = {"kind": "nested", "kinds": list(kinds), "programs": [[strip(t) for t in p] for p in programs],
            "schedule": obs["schedule"], "instr": instr}
    ctx.case(case, nontrivial=any(r[1] > 0 for r in sum(obs["results"], [])))
    bad = oracle(kinds, programs, obs)
    if bad is not None:
        ctx.violation(signature(kinds, bad), {"case": case, "failed": [bad[0], bad[1]]},
                      f"nested queries on {'+'.join(kinds)}: {bad[0]} {bad[1]}")
        return obs, False
    if obs.get("blocked"):
        ctx.count("runs_with_a_thread_blocked_outside_the_controller")
    elif obs.get("degraded"):
        if not _DEGRADED.get("obs"):
            _DEGRADED["obs"] = obs["degraded"]
            ctx.corr_broken("nested: private state could not be observed: " + obs["degraded"], case)
    elif drv is not None:
        try:
            diff = model_compare(drv, kinds, programs, obs)
        except Exception as e:
            diff = f"comparison failed: {type(e).__name__}: {e}"
        ctx.traces += 1
        if diff:
            try:
                if model_compare(drv, kinds, programs, obs, register_first=True) is None:
                    diff += ("  [the run agrees with the model's variant registerFirst = true: the sub-optimizer "
                             "is registered before its search, see C16.register_first_counterexample]")
            except Exception:
                pass
            ctx.corr_broken("c16.nrun: " + diff, case)
    return obs, True


def rand_case(rng, nthreads, maxdepth):
    kinds = [rng.choice(KINDS[:3] + KINDS[:3] + KINDS)]
    if rng.random() < 0.45:
        kinds.append(rng.choice(KINDS))
    programs = [[rand_node(rng, kinds, 0, maxdepth, [rng.randint(2, 9)]) for _ in range(rng.randint(1, 2))]
                for _ in range(nthreads)]
    return kinds, programs


def replay_case(case):
    sched = list(case.get("schedule") or [])

    def chooser(enabled, k):
        if k < len(sched) and sched[k] in enabled:
            return sched[k]
        return enabled[0]

    programs = [[strip(t) for t in p] for p in case["programs"]]
    instr = case.get("instr", "private")
    try:
        obs = run_nested(case["kinds"], programs, chooser, instr=instr)
    except B.InstrumentationError:
        programs = [[strip(t) for t in p] for p in case["programs"]]
        obs = run_nested(case["kinds"], programs, chooser, instr="none")
    bad = oracle(case["kinds"], programs, obs)
    return bad is None, (signature(case["kinds"], bad) if bad else None), bad


def explore_all(ctx, drv, kinds, programs, max_runs, tag):
    """every interleaving of the private yield points (stateless DFS)"""
    prefix, runs = [], 0
    while True:
        if runs >= max_runs or ctx.time_left() < 20:
            return runs, False
        pf = list(prefix)

        def chooser(enabled, k, pf=pf):
            return enabled[pf[k]] if k < len(pf) and pf[k] < len(enabled) else enabled[0]

        obs, _ = check(ctx, drv, kinds, [[strip(t) for t in p] for p in programs], chooser, tag)
        runs += 1
        pos = [en.index(ch) for en, ch in zip(obs["enabled"], obs["schedule"])]
        k = len(pos) - 1
        while k >= 0 and pos[k] + 1 >= len(obs["enabled"][k]):
            k -= 1
        if k < 0:
            return runs, True
        prefix = pos[:k] + [pos[k] + 1]


def leaf(nid, target=0, call=False):
    return {"nid": nid, "target": target, "call": call, "trials": [{"nested": [], "fail": False} for _ in range(R)]}


def witness_r2_2():
    """the Lean counter-example history (`register_first_counterexample`): an outer query whose
    first trial consults the same object about another contraction"""
    return {"nid": 4, "target": 0, "call": False,
            "trials": [{"nested": [leaf(3)], "fail": False}, {"nested": [], "fail": False}]}


def run(ctx, drv):
    quick = ctx.tier == "quick"
    rng = ctx.rng
    # the witness of the Lean counter-example, on every kind of object and both interfaces inside
    for kind in ("reusable-no", "reusable-yes", "reusable-improved", "auto-cached", "auto-plain"):
        for call in (False, True):
            w = witness_r2_2()
            w["trials"][0]["nested"][0]["call"] = call
            check(ctx, drv, [kind], [[w, leaf(3), witness_r2_2()]], None, "witness")
            check(ctx, None, [kind], [[strip(w)]], None, "witness", instr="none")
    # NS: sequential nested programs, private yield points + model, and on the plain objects
    for i in range(140 if quick else 1000):
        if ctx.time_left() < 60:
            break
        kinds, programs = rand_case(rng, 1, rng.choice([1, 2, 2, 3]))
        check(ctx, drv, kinds, programs, None, "sequential", instr="private" if i % 3 else "none")
    # NT: 2-3 threads, random schedules over the private yield points and the nested call sites
    for i in range(110 if quick else 1000):
        if ctx.time_left() < 60:
            break
        kinds, programs = rand_case(rng, rng.choice([2, 2, 3]), rng.choice([1, 1, 2]))
        r2 = random.Random(rng.randrange(1 << 30))
        check(ctx, drv, kinds, programs, lambda en, k, r2=r2: r2.choice(en), "threads")
    # NX: one thread nests a query on the shared object while another thread asks about the nested
    # contraction: random schedules in the quick tier, every interleaving (DFS) in the thorough one
    notes = []
    nx = [[{"nid": 4, "target": 0, "call": False,
            "trials": [{"nested": [leaf(3)], "fail": False}, {"nested": [], "fail": False}]}], [leaf(3)]]
    both = [[{"nid": 4, "target": 0, "call": False,
              "trials": [{"nested": [leaf(3)], "fail": False}, {"nested": [], "fail": False}]}],
            [{"nid": 3, "target": 0, "call": False,
              "trials": [{"nested": [leaf(4)], "fail": False}, {"nested": [], "fail": False}]}]]
    for kind in ("reusable-no", "reusable-improved", "auto-cached"):
        for programs in (nx, both):
            for _ in range(25 if quick else 150):
                if ctx.time_left() < 60:
                    break
                r2 = random.Random(rng.randrange(1 << 30))
                check(ctx, drv, [kind], [[strip(t) for t in p] for p in programs],
                      lambda en, k, r2=r2: r2.choice(en), "window")
    if not quick:
        for kinds in (["reusable-no"], ["reusable-improved"]):
            runs, complete = explore_all(ctx, drv, kinds, nx, 4000, "exhaustive")
            notes.append({"kinds": kinds, "interleavings": runs, "complete": complete})
    ctx.notes["nested_exhaustive_interleavings"] = notes


def search(ctx):
    """Implementation-only: nested programs on the plain objects (public hooks only)."""
    rng = ctx.rng
    for i in range(400):
        if ctx.time_left() < 10:
            return False
        if i < 10:
            kind = KINDS[:3][i % 3] if i < 6 else ("auto-cached" if i < 8 else "auto-plain")
            kinds, programs = [kind], [[witness_r2_2()]]
        else:
            kinds, programs = rand_case(rng, 1, rng.choice([1, 2, 3]))
        obs = run_nested(kinds, programs, None, instr="none")
        bad = oracle(kinds, programs, obs)
        if bad is not None:
            case = {"kind": "nested", "kinds": list(kinds), "programs": [[strip(t) for t in p] for p in programs],
                    "schedule": obs["schedule"], "instr": "none"}
            sig = signature(kinds, bad)
            sig["found_by"] = "search"
            return bool(ctx.violation(sig, {"case": case, "failed": [bad[0], bad[1]]},
                                      f"failing input found by search: nested queries on {'+'.join(kinds)}: "
                                      f"{bad[0]} {bad[1]}"))
    return False
