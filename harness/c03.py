"""C03 -- reported flops / write / max size / peak match the definition and the execution.

Tie (E): per-node legs/involved/size/flops, totals, multiplicity and peak_size(order) of the
real tree (after a chain of remove_ind slice/project) versus the Lean model `Net.legs/…/stats/
peak` run on the same (net, tree, removed); plus observed shapes of intermediates from a
recording implementation versus tree.get_size.
Oracle (implementation only): refimpl.spec_costs -- the leaf-set definition from the network.
"""

import numpy as np

import sys

import cotengra as ctg

cmod = sys.modules["cotengra.contract"]

from . import gen, refimpl

PROP = "C03"
LEVEL = "proof"
LEVEL_TEXT = ("Lean 4 theorems, for every network / tree / removed-index set: the legs, size and flops the "
              "model computes recursively (as core.py does) equal the leaf-set definition from the network "
              "alone (legs_get_eq_spec, size_eq_spec, flops_eq_spec), slicing divides exactly the carrying "
              "nodes (slice_size/slice_flops), totals = definition x multiplicity (stats_eq_spec). The model "
              "is tied to /repo on every run by equality correspondence of every node's figures, totals, "
              "multiplicity and peak_size(order), and observed intermediate shapes are compared with get_size. "
              "peak_size(order) equals, for every children-first order, the independent definition of peak "
              "memory along the schedule (inputs live at the start; each step needs all live tensors and its "
              "output; operands die): peak_eq_spec via the invariant 'running total = size of the live multiset' "
              "(peakFold_eq), and max_size <= peak for every order (max_size_le_peak); the definition is also "
              "evaluated on the real traversal orders on every run.")
LEVEL_NOTE = ("Trusted: Lean kernel; the hand-written model (validated only on the generated cases); the "
              "harness canonicalisation; numpy for the observed shapes. Guard: output indices occur in some input.")
TECHNIQUE = "Lean 4 proof (structural induction, L1 leaf-set lemma) + differential correspondence with core.py"
LEAN_MODULES = ["CotengraVerif.Props.C03"]
THEOREMS = [
    "Cotengra.Net.legs_get_eq_spec",
    "Cotengra.C03.mem_legs_iff_surv",
    "Cotengra.C03.size_eq_spec",
    "Cotengra.C03.flops_eq_spec",
    "Cotengra.C03.involved_iff",
    "Cotengra.C03.slice_size",
    "Cotengra.C03.slice_flops",
    "Cotengra.C03.stats_eq_spec",
    "Cotengra.Net.peakFold_eq",
    "Cotengra.C03.peak_eq_spec",
    "Cotengra.C03.peak_running_total_final",
    "Cotengra.C03.max_size_le_peak",
]
TRUSTED = [
    "Lean 4.33 kernel; axioms ⊆ {propext, Classical.choice, Quot.sound}",
    "hand-written model Model/Net.lean + Model/Stats.lean of core.py:743-848, 930-1056, tied by "
    "this differential correspondence on the generated cases only",
    "harness canonicalisation (symbols -> naturals, legs compared as sorted key/count lists)",
]
ASSUMPTIONS = [
    "every index of the output occurs in some input; sizes >= 1; trees with N >= 2",
    "array shapes are observed with numpy integer arrays through implementation=(einsum, tensordot) "
    "recorders; other backends not exercised",
]
RULE = ("(a) random networks over index kinds {bond,hyper,dangling,out1,outk,all,repeated,batch} x random/"
        "caterpillar/balanced trees x 0-3 removed indices (slice or project, any kind); non-trivial = "
        ">= 3 tensors and (a removed index or a hyper/repeated/dangling feature); (b) trees produced by random histories of "
        "public transformations (copy, anneal, reconfigure, slice/project/unslice, ...), checked after every prefix on the "
        "live tree and on trees kept aside; distinct by content hash")


def _apply_removed(tree, net, removed):
    for ix, proj in removed:
        if proj is None:
            tree.remove_ind_(gen.sym(ix))
        else:
            tree.remove_ind_(gen.sym(ix), project=proj)


def real_rows(tree, net):
    us = gen.unsym(net)
    rows = []
    for node in gen.real_nodes_children_first(tree):
        legs = sorted([us[k], v] for k, v in tree.get_legs(node).items())
        inv = sorted([us[k], v] for k, v in tree.get_involved(node).items())
        rows.append({"leaves": sorted(node), "legs": legs, "involved": inv,
                     "size": int(tree.get_size(node)), "flops": int(tree.get_flops(node))})
    return rows


def model_rows(resp):
    rows = []
    for r in resp["nodes"]:
        rows.append({"leaves": sorted(r["leaves"]), "legs": sorted(r["legs"]),
                     "involved": sorted(r["involved"]), "size": r["size"], "flops": r["flops"]})
    return rows


def gen_case(rng, tier):
    nmax = 7 if tier == "quick" else 9
    net = gen.rand_net(rng, nmin=2, nmax=nmax, max_inds=9, dims=(1, 2, 3, 4))
    n = len(net.inputs)
    tree = gen.rand_tree(rng, n)
    inds = net.indices()
    k = rng.choice([0, 1, 1, 2, 3])
    removed = []
    for ix in rng.sample(inds, min(k, len(inds))):
        if rng.random() < 0.3:
            removed.append([ix, rng.randrange(net.sizes[ix])])
        else:
            removed.append([ix, None])
    order_seed = rng.randrange(1 << 30)
    # the figures are exact integers of any magnitude (python ints), whatever integer type the caller's
    # size_dict uses: some cases have dimensions so large that the totals exceed 2**63 / 2**31, and/or hand the
    # sizes over as numpy integer scalars
    size_type = rng.choice(["int"] * 6 + ["np.int64", "np.int64", "np.int32", "np.intp"])
    big = rng.random() < 0.3
    if big:
        for ix in inds:
            net.sizes[ix] = rng.choice([1, 2, 127, 1 << 13, 46341, 1 << 16, 1000003, (1 << 31) - 1, (1 << 31) - 1])
        removed = [[ix, (None if pj is None else rng.randrange(net.sizes[ix]))] for ix, pj in removed]
    return {"net": net.json(), "tree": tree, "removed": removed, "order_seed": order_seed,
            "alphabet": rng.choice(gen.ALPHABETS), "size_type": size_type, "big": big}


def observe(case):
    """Run the real code. Returns dict of observations."""
    import random
    gen.set_alphabet(case.get("alphabet", "ascii"), case.get("order_seed", 0))
    net = gen.Net.from_json(case["net"])
    st = case.get("size_type", "int")
    if st == "int":
        tree = gen.real_tree(ctg, net, case["tree"])
    else:
        conv = {"np.int64": np.int64, "np.int32": np.int32, "np.intp": np.intp}[st]
        sizes = {k: conv(v) for k, v in net.sym_sizes().items()}
        tree = ctg.ContractionTree.from_path(net.sym_inputs(), net.sym_output(), sizes,
                                             ssa_path=gen.tree_to_ssa(case["tree"], len(net.inputs)))
    # query stats before slicing sometimes, so both tracked/untracked branches are hit
    if case["order_seed"] % 2:
        tree.contract_stats()
    _apply_removed(tree, net, case["removed"])
    bt = gen.bt_of_real(tree)
    rows = real_rows(tree, net)
    stats = tree.contract_stats()
    obs = {"bt": bt, "rows": rows, "flops": int(stats["flops"]), "write": int(stats["write"]),
           "size": int(stats["size"]), "mult": int(tree.multiplicity),
           "total_flops": int(tree.total_flops()), "total_write": int(tree.total_write()),
           "max_size": int(tree.max_size())}
    # traversal orders: dfs and a random callable
    internal = [frozenset(r["leaves"]) for r in rows if len(r["leaves"]) > 1]
    orr = random.Random(case["order_seed"])
    scores = {}

    def order_fn(node):
        if node not in scores:
            scores[node] = orr.random()
        return scores[node]

    obs["peaks"] = []
    for name, o in (("dfs", None), ("callable", order_fn)):
        seq = [internal.index(frozenset(p)) for p, _, _ in tree.traverse(o)]
        obs["peaks"].append({"order": name, "seq": seq, "peak": int(tree.peak_size(order=o))})
    return obs, tree, net


def observed_shapes(tree, net, case):
    """Contract integer arrays with recording einsum/tensordot; returns mismatches between the
    element count of each produced intermediate and tree.get_size of the same step."""
    rng = np.random.default_rng(case["order_seed"])
    arrays = [rng.integers(-2, 3, size=s) for s in net.shapes()]
    produced = []

    def rec_einsum(eq, *xs):
        out = np.einsum(eq, *xs)
        produced.append(("einsum", eq, tuple(out.shape)))
        return out

    def rec_tensordot(a, b, axes):
        out = np.tensordot(a, b, axes)
        produced.append(("tensordot", axes, tuple(out.shape)))
        return out

    contractions = cmod.extract_contractions(tree)
    steps = [c for c in contractions]
    fn = cmod.Contractor(contractions, implementation=(rec_einsum, rec_tensordot))
    sliced = tree.slice_arrays(arrays, 0) if tree.sliced_inds else arrays
    fn(*sliced)
    bad = []
    if len(produced) != len(steps):
        bad.append(("count", len(produced), len(steps)))
    else:
        for (p, l, r, tdot, arg, perm), (kind, a, shape) in zip(steps, produced):
            want = tree.get_size(p)
            got = int(np.prod(shape)) if shape else 1
            if want != got:
                bad.append((sorted(p), want, got, kind))
    return bad, len(produced)


def check_case(ctx, drv, case):
    obs, tree, net = observe(case)
    removed = [ix for ix, _ in case["removed"]]
    sliced = [ix for ix, p in case["removed"] if p is None]
    feats = net.features()
    for f in feats:
        ctx.count("feature:" + f)
    ctx.count("removed:%d" % len(removed))
    ctx.count("projected", sum(1 for _, p in case["removed"] if p is not None))
    nontrivial = len(net.inputs) >= 3 and (bool(removed) or bool(set(feats) & {"hyper", "repeated", "dangling"}))
    ctx.case(case, nontrivial=nontrivial)

    # --- implementation-side oracle: leaf-set definition from the network alone -------------
    spec = refimpl.spec_costs(net, obs["bt"], removed, sliced)
    spec_rows = {tuple(r["leaves"]): r for r in spec["rows"]}
    fail = None
    for r in obs["rows"]:
        s = spec_rows[tuple(r["leaves"])]
        if [k for k, _ in r["legs"]] != s["legs"] or [k for k, _ in r["involved"]] != s["involved"] \
                or r["size"] != s["size"] or r["flops"] != s["flops"]:
            fail = ("node", r, s)
            break
    if fail is None:
        for key in ("flops", "write", "size"):
            if obs[key] != spec[key]:
                fail = ("total:" + key, obs[key], spec[key])
        if obs["total_flops"] != spec["flops"] or obs["total_write"] != spec["write"] or \
                obs["max_size"] != spec["size"] or obs["mult"] != spec["mult"]:
            fail = fail or ("total-getters", [obs["total_flops"], obs["total_write"], obs["max_size"],
                                              obs["mult"]], [spec["flops"], spec["write"], spec["size"],
                                                             spec["mult"]])
    if fail is None:
        # peak memory along each traversal, recomputed from the definition's sizes alone
        size_of = {tuple(r["leaves"]): r["size"] for r in spec["rows"]}
        internal = [r["leaves"] for r in spec["rows"] if len(r["leaves"]) > 1]
        kids = {}

        def walk(t):
            if isinstance(t, int):
                return [t]
            a, b = walk(t[0]), walk(t[1])
            kids[tuple(sorted(a + b))] = (tuple(sorted(a)), tuple(sorted(b)))
            return a + b

        walk(obs["bt"])
        for pk in obs["peaks"]:
            # the definition: the inputs are live; each step needs its two operands among the live tensors
            # (a schedule in which an operand does not exist yet is not executable: its "peak" is the peak of
            # nothing), all live tensors and its output exist at the same time; then the operands are gone
            live = {(i,) for i in range(len(net.inputs))}
            tot = sum(size_of[x] for x in live)
            peak = tot
            for k in pk["seq"]:
                p_ = tuple(internal[k])
                a_, b_ = kids[p_]
                if a_ not in live or b_ not in live:
                    fail = ("peak:" + pk["order"] + ":order-not-executable", sorted(p_), pk["seq"])
                    break
                peak = max(peak, tot + size_of[p_])
                live -= {a_, b_}
                live.add(p_)
                tot = sum(size_of[x] for x in live)
            else:
                if len(pk["seq"]) != len(internal) or (len(net.inputs) >= 2 and len(live) != 1):
                    fail = ("peak:" + pk["order"] + ":order-incomplete", pk["seq"], len(internal))
                elif peak != pk["peak"]:
                    fail = ("peak:" + pk["order"], pk["peak"], peak)
            if fail is not None:
                break
    ctx.count("sizes:" + case.get("size_type", "int") + ("/big" if case.get("big") else ""))
    if case.get("big") and obs["flops"] >= 1 << 63:
        ctx.count("sizes:flops>=2^63")
    if fail is None and not case.get("big"):
        bad, nprod = observed_shapes(tree, net, case)
        ctx.count("intermediates_observed", nprod)
        if bad:
            fail = ("shape", bad[:3])
    if fail is not None:
        ctx.violation({"site": "contract_stats/get_*", "kind": fail[0]},
                      {"case": case, "observed_vs_spec": fail},
                      f"reported cost figure differs from the definition: {fail[0]}")
        return False

    if drv is None:
        return True
    # --- correspondence with the Lean model ------------------------------------------------
    order = obs["peaks"][1]["seq"]
    resp = drv.call("c03.nodes", net=case["net"], removed=removed, sliced=sliced, tree=obs["bt"],
                    order=order)
    if "error" in resp:
        ctx.corr_broken("driver error: " + resp["error"], case)
        return True
    mrows = model_rows(resp)
    ok = mrows == obs["rows"] and all(resp[k] == obs[k] for k in ("flops", "write", "size", "mult")) \
        and resp["peak"] == obs["peaks"][1]["peak"]
    # dfs order as well
    resp2 = drv.call("c03.nodes", net=case["net"], removed=removed, sliced=sliced, tree=obs["bt"],
                     order=obs["peaks"][0]["seq"])
    ok = ok and resp2.get("peak") == obs["peaks"][0]["peak"]
    # the independent definition of peak memory (C03.peak_eq_spec) evaluated on the REAL traversal orders: must
    # give the reported peak, and the schedule must consume every tensor but the root exactly once
    # (the hypothesis `ChildrenFirst` of the theorem, observed on the real order)
    for r, pk in ((resp, obs["peaks"][1]), (resp2, obs["peaks"][0])):
        if "peak_spec" in r:
            ctx.count("peak:definition-evaluated")
            if r["peak_spec"] != pk["peak"] or (len(net.inputs) >= 2 and r.get("live_at_end") != 1):
                ok = False
                ctx.count("peak:definition-differs")
    ctx.traces += 1
    if not ok:
        ctx.corr_broken("model and implementation disagree on node rows / totals / peak", case)
    return True


def history_case(ctx, drv, case):
    """Trees produced by *histories* of public transformations (copies, annealing, reconfiguration,
    slice / project / unslice …): after every prefix the figures the live tree reports through its
    public getters must equal the definition recomputed from the network alone, and the shapes of
    the intermediates actually produced must have the reported sizes."""
    from . import c04, treehist
    net, tree = c04.build(case)
    prefix = []
    aside = []
    for op in case["history"]:
        try:
            old = tree
            tree, _ = treehist.apply_op(tree, net, op)
            if tree is not old:
                aside.append(old)
        except treehist.Rejected:
            continue
        except treehist.Aborted as e:
            tree = e.tree
        except Exception as e:
            ctx.violation({"site": "tree-history", "kind": "raised:" + type(e).__name__},
                          {"hcase": {**case, "history": prefix + [op]}, "error": repr(e)[:200]},
                          f"{op['k']} raised {type(e).__name__}")
            return False
        prefix.append(op)
        ctx.count("hist-op:" + op["k"])
        for which, t in [("live", tree)] + [("aside", a) for a in aside[-2:]]:
            if not t.is_complete():
                continue
            fig = c04.figures(t, net)
            bt = gen.bt_of_real(t)
            us = gen.unsym(net)
            removed = [us[i] for i in t.sliced_inds]
            sliced = [us[i] for i, si in t.sliced_inds.items() if si.project is None]
            spec = refimpl.spec_costs(net, bt, removed, sliced)
            bad = None
            for k in ("flops", "write", "size", "mult"):
                if fig[k] != spec[k]:
                    bad = (k, fig[k], spec[k])
            if bad is None:
                for r in spec["rows"]:
                    f = fig["rows"].get(tuple(r["leaves"]))
                    if f is None:
                        continue
                    if f["size"] != r["size"] or ("flops" in f and f["flops"] != r["flops"]) or f["legs"] != r["legs"]:
                        bad = ("node", f, r)
                        break
            if bad is None and which == "live":
                tc = t.copy()
                shapes_bad, nprod = observed_shapes(tc, net, {"order_seed": op["seed"]})
                ctx.count("intermediates_observed", nprod)
                if shapes_bad:
                    bad = ("shape", shapes_bad[:2])
            ctx.case({"net": case["net"], "tree": case["tree"], "prefix": prefix, "which": which},
                     nontrivial=len(prefix) >= 1, sample=False)
            if bad is not None:
                ctx.violation({"site": "tree-history", "kind": bad[0], "which": which},
                              {"hcase": {**case, "history": list(prefix)}, "observed_vs_spec": str(bad)[:600]},
                              f"after {[o['k'] for o in prefix]} the {which} tree reports {bad[0]} different from the definition")
                return False
    return True


def run(ctx, drv):
    from . import c04
    ncases = 500 if ctx.tier == "quick" else 8000
    for _ in range(ncases):
        if ctx.time_left() < 5:
            break
        case = gen_case(ctx.rng, ctx.tier)
        check_case(ctx, drv, case)
    for _ in range(150 if ctx.tier == "quick" else 2500):
        if ctx.time_left() < 5:
            break
        history_case(ctx, drv, c04.make_case(ctx.rng, ctx.tier, big_ok=False))


def search(ctx):
    """Implementation-only search (no model): more cases against the from-scratch definition."""
    found = False
    for _ in range(3000):
        if ctx.time_left() < 5:
            break
        case = gen_case(ctx.rng, "thorough")
        obs, tree, net = observe(case)
        removed = [ix for ix, _ in case["removed"]]
        sliced = [ix for ix, p in case["removed"] if p is None]
        spec = refimpl.spec_costs(net, obs["bt"], removed, sliced)
        if any(obs[k] != spec[k] for k in ("flops", "write", "size")):
            ctx.violation({"site": "contract_stats", "kind": "search"}, {"case": case},
                          "contract_stats differs from the definition")
            found = True
            break
    return found


def replay(ctx, obj):
    if "hcase" in obj:
        from . import common
        c2 = common.Ctx(PROP, "quick", 0)
        c2.violation = lambda *a, **k: True
        return history_case(c2, None, obj["hcase"])
    from . import common
    c2 = common.Ctx(PROP, "quick", 0)
    c2.violation = lambda *a, **k: True
    return check_case(c2, None, obj["case"])
