"""C16 -- one optimizer object can serve many contractions, in sequence or across threads.

Tie of the Lean small-step model (Model/Reuse.lean) to /repo, on every run:

  E  forced schedules: real `ReusableHyperOptimizer` / `ReusableRandomGreedyOptimizer` shared by
     2-3 threads, `AutoOptimizer(cache=True)` and `AutoOptimizer(cache=False)`, instrumented from
     the harness side only (instance attributes: a wrapped `hash_query`, `_get_suboptimizer`,
     `_get_optimizer_hyper_threadsafe`, a yielding dict for `_suboptimizers`, a yielding proxy for
     `_cache`) so that a controller runs exactly one thread at a time from one shared access to
     the next.  Every interleaving of small programs is enumerated (stateless DFS over the enabled
     threads), larger ones are sampled.  For each schedule: the network of every returned tree,
     the number of sub-searches each thread ran and which keys ended up cached are compared with
     the driver op `c16.run` on the same schedule.
  F  source facts: `GreedyOptimizer` / `OptimalOptimizer` store nothing on `self` in
     `search/__call__/ssa_path`; the only stores of `ReusableOptimizer`'s query path are
     `_suboptimizers[<thread ident>]` and `_cache[h]`; `last_opt` reads the caller's ident;
     `AutoOptimizer` stores only `_hyperoptimizers_by_thread[<thread ident>]`.

  N  re-entrant queries (harness/c16_nest.py, Model/ReuseNest.lean, op `c16.nrun`): a hyper method
     registered through `register_hyper_function` puts nested queries to the shared objects while
     the outer search runs (depth 1-3, both interfaces, cache hits and misses at every level).
  Q  overlapping pool-parallel sub-searches (harness/c16_pool.py, Model/ReusePool.lean, op
     `c16.pool`): a deterministic user-supplied executor as `parallel=`.
  Every forced schedule of E is also run through `c16.nrun` segment by segment: the kind of
  shared access that ended each segment must be what the model's thread reaches next.

Implementation-side oracle (no model): `tree.inputs / output / size_dict / N` of every returned
tree equal the query's -- under forced schedules, under free-running threads with
`sys.setswitchinterval(1e-6)`, and sequentially, for the string presets, Auto / AutoHQ with and
without caching, and the Reusable optimizers.
"""

import ast
import glob
import json
import os
import sys
import threading
import warnings

import cotengra as ctg
from cotengra.hyperoptimizers import hyper as H
from cotengra.pathfinders.path_basic import ReusableRandomGreedyOptimizer
from cotengra.presets import AutoHQOptimizer, AutoOptimizer, estimate_optimal_hardness
from cotengra.reusable import hash_contraction
from cotengra.scoring import FlopsObjective

from . import common, gen

PROP = "C16"
LEVEL = "proof"
LEVEL_TEXT = (
    "Lean 4 theorems over small-step interleaving semantics of ReusableOptimizer.search/__call__ and "
    "AutoOptimizer.search (one step = a thread's code up to its next shared dict access): for every "
    "schedule, any number of threads with any query queues, every behaviour of the trial functions, every "
    "hash function (collisions allowed), all overwrite / cache_only settings, each returned tree belongs to "
    "the contraction its call asked about (per_thread_isolation, by the inductive invariant "
    "'_suboptimizers[t] holds, between store and fetch, an optimizer searched on t's current query only; "
    "no step of another thread writes key t'). Re-entrant queries (a trial function of a running sub-search "
    "queries the same or another optimizer object, to any depth, through either interface) are covered by a "
    "second semantics with a stack of frames per thread: nested_isolation for every nesting tree and every "
    "schedule, nested_path_isolation for the path interface under a separating hash, and a decide "
    "counter-example for the order 'register the sub-optimizer, then search' (register_first_counterexample). "
    "Overlapping pool-parallel sub-searches: with a fresh `_futures` list per search every search reports only "
    "trials it dispatched itself and moves exactly like C08's single-search model, for every interleaving and "
    "completion order (pool_isolation, pool_refines_single_search); refuted for one shared list "
    "(shared_list_counterexample). Object identity: with a new sub-optimizer object per call the tree read "
    "from the registered object is the caller's own for every schedule at trial granularity "
    "(fresh_suboptimizer_isolation, heap model); one recycled instance behind a lock is refuted "
    "(shared_suboptimizer_counterexample). The interface's _PATH_CACHE hands out only paths of the query's "
    "contraction given a separating key and an isolated layer below (iface_path_isolation). "
    "sequential_fresh is the one-thread case for the "
    "non-caching AutoOptimizer with a fresh sub-optimizer per call; for the code as found (per-thread "
    "HyperOptimizer re-used, `best` persists) the statement is refuted by a concrete history "
    "(sequential_fresh_counterexample, DESIGN 7k) and proved under the guard 'at most one hard query per "
    "thread id' (sequential_fresh_partial). The models are tied to /repo on every run by equality "
    "correspondence under forced schedules (exhaustive for small programs; per segment the kind of shared "
    "access reached is compared as well), by real nested queries issued from a registered hyper function, by "
    "a deterministic user-supplied executor for overlapping pool searches, plus free-running stress."
)
LEVEL_NOTE = (
    "Proof over the marked granularity: atomicity of single dict get/set under the GIL is assumed, "
    "pre-emption inside one bytecode-level dict operation is not modelled; the on-disk side of DiskDict, "
    "hash collisions of fingerprint 'b' (C14) and failures of _reconstruct_tree are out of scope; trial "
    "functions are assumed to build trees over the inputs they receive (C05); on_trial_error='raise' (an "
    "exception of a nested query aborting the outer search) is not modelled; the pool model takes worker "
    "results as an oracle and imposes no control flow on the event sequence (it proves more than needed)."
)
TECHNIQUE = ("Lean 4 proof (inductive invariants over small-step interleaving semantics: frame lemma per thread "
             "slot, stack-of-frames invariant for re-entrancy, list-identity invariant for the pool) + "
             "schedule-forced differential correspondence with the real optimizers + AST facts")
LEAN_MODULES = ["CotengraVerif.Props.C16", "CotengraVerif.Props.C16Nest", "CotengraVerif.Props.C16Pool",
                "CotengraVerif.Props.C16Iface", "CotengraVerif.Props.C16Shared", "CotengraVerif.Props.C16Facts"]
THEOREMS = [
    "Cotengra.C16.per_thread_isolation",
    "Cotengra.C16.per_thread_isolation_from",
    "Cotengra.C16.step_inv",
    "Cotengra.C16.stepLocal_subopts_other",
    "Cotengra.C16.treeOf_runLog_stamp",
    "Cotengra.C16.no_spurious_errors",
    "Cotengra.C16.step_live",
    "Cotengra.C16.sequential_fresh",
    "Cotengra.C16.sequential_fresh_counterexample",
    "Cotengra.C16.sequential_fresh_partial",
    "Cotengra.C16.presets_stateless",
    "Cotengra.C16.shared_stores_keyed_by_thread",
    # re-entrant queries (Props/C16Nest.lean)
    "Cotengra.C16.nested_isolation",
    "Cotengra.C16.nested_isolation_from",
    "Cotengra.C16.nested_isolation_seq",
    "Cotengra.C16.nstep_inv",
    "Cotengra.C16.stepTop_subopts_other",
    "Cotengra.C16.register_first_counterexample",
    "Cotengra.C16.nested_no_spurious_errors",
    "Cotengra.C16.nested_path_isolation",
    "Cotengra.C16.path_collision_counterexample",
    # overlapping pool-parallel sub-searches (Props/C16Pool.lean)
    "Cotengra.C16.pool_isolation",
    "Cotengra.C16.pool_refines_single_search",
    "Cotengra.C16.shared_list_counterexample",
    "Cotengra.C16.futures_fresh_per_search",
    # the path cache of the functional interface (Props/C16Iface.lean)
    "Cotengra.C16.iface_path_isolation",
    "Cotengra.C16.iface_key_collision_counterexample",
    "Cotengra.C16.iface_key_is_full_tuple",
    # object identity of the sub-optimizer (Props/C16Shared.lean)
    "Cotengra.C16.fresh_suboptimizer_isolation",
    "Cotengra.C16.sstep_inv",
    "Cotengra.C16.shared_suboptimizer_counterexample",
    "Cotengra.C16.suboptimizer_fresh_per_call",
]
TRUSTED = [
    "Lean 4.33 kernel; axioms ⊆ {propext, Classical.choice, Quot.sound}",
    "hand-written models Model/Reuse.lean, Model/ReuseNest.lean, Model/ReusePool.lean, Model/ReuseShared.lean, "
    "Model/ReuseIface.lean (+ Model/Hyper.lean) of reusable.py:141-143,161-172,240-297, presets.py:41-123, "
    "hyper.py:571-575,625-659 and interface.py:227,284-300, tied by the forced-schedule correspondences on the "
    "explored schedules only",
    "CPython: single dict get/set/contains are atomic under the GIL; threading.get_ident() is unique "
    "among live threads",
    "the harness-side instrumentation (wrappers installed as instance attributes; the controller that "
    "serialises threads and sets aside a thread that does not return within 3 s as blocked; the registered "
    "hyper function 'verif-nest'; the deterministic executor; the sys.settrace line hook; the yielding dict put "
    "in place of interface._PATH_CACHE for the duration of a run) and the AST fact extractor (gen_facts)",
]
ASSUMPTIONS = [
    "yield points = after each shared access (hash_query, sub-search return, _suboptimizers store, _cache "
    "read/write, _get_optimizer_hyper_threadsafe return, a nested query being put, a pool submission, a pool "
    "harvest, end of query); finer pre-emption is explored only by the free-running stress runs",
    "distinct contractions get distinct 'a' fingerprints except the deliberately colliding pair in the pool",
]
RULE = ("pool of 8 small contractions (easy and hard for AutoOptimizer's cutoff, one pair with equal "
        "fingerprint); programs = 1-3 queries per thread, 2-3 threads; modes {Reusable overwrite no/yes/"
        "improved, cache_only, ReusableRandomGreedy, Auto cached, Auto plain}; schedules: all interleavings "
        "(DFS) of small programs + random ones; nested: random nesting trees (depth 1-3, <= 10 nested queries, "
        "2 trials per sub-search, 10% scripted trial failures, 25% path interface, 1-2 objects of random kinds) "
        "run sequentially and under random / exhaustive schedules of 2-3 threads; pool: 2-3 threads x 1-2 "
        "queries through one ReusableHyperOptimizer(parallel=<deterministic executor>), completion policies "
        "inline/fifo/lifo/random, with and without a stop rule, all interleavings of two one-query threads + "
        "random ones; non-trivial = at least two threads touching one object or a "
        "repeated key or a second hard query on one thread or a nested query; distinct by (mode, programs, "
        "effective schedule)")
BUDGET = {"quick": 700, "thorough": 3300}

warnings.filterwarnings("ignore", message="Trial error")


# ------------------------------------------------------------------------------------------
#  pool of contractions
# ------------------------------------------------------------------------------------------

def build_pool():
    """8 contractions: ids 0-2 easy (3-4 tensors), 3-6 hard (6-8 tensors, increasing cost so that a
    stale best of an earlier one beats the later ones), 7 = net 3 with one term's indices permuted
    (same 'a' fingerprint, different contraction)."""
    import random
    rng = random.Random(20240916)
    pool = []

    def chain(n, d, extra=()):
        inputs = [[i, i + 1] for i in range(n)]
        for a, b, ix in extra:
            inputs[a].append(ix)
            inputs[b].append(ix)
        sizes = {}
        for t in inputs:
            for ix in t:
                sizes.setdefault(ix, d)
        return gen.Net(inputs, [0, n], sizes)

    pool.append(chain(3, 2))
    pool.append(chain(4, 3))
    pool.append(gen.Net([[0, 1], [1, 2], [2, 0]], [], {0: 2, 1: 3, 2: 2}))
    pool.append(chain(6, 2, extra=[(0, 3, 20)]))
    pool.append(chain(7, 3, extra=[(1, 5, 21)]))
    pool.append(chain(8, 4, extra=[(0, 4, 22), (2, 6, 23)]))
    n6 = chain(7, 5, extra=[(0, 6, 24)])
    pool.append(n6)
    p3 = pool[3]
    perm = [list(t) for t in p3.inputs]
    perm[0] = list(reversed(perm[0]))
    pool.append(gen.Net(perm, p3.output, p3.sizes))
    return pool


POOL = build_pool()
HARDNESS = [estimate_optimal_hardness(n.sym_inputs()) for n in POOL]
CUTOFF = 50.0  # ids 0-2 below, 3-7 above
HARD = [h >= CUTOFF for h in HARDNESS]
_KEYS = {}
KEY = []
for _n in POOL:
    _h = hash_contraction(_n.sym_inputs(), _n.sym_output(), _n.sym_sizes(), "a")
    KEY.append(_KEYS.setdefault(_h, len(_KEYS)))


_KEYSB = {}
KEYB = []
for _n in POOL:
    try:
        _h = hash_contraction(_n.sym_inputs(), _n.sym_output(), _n.sym_sizes(), "b")
    except Exception:
        _h = ("pool", len(KEYB))
    KEYB.append(_KEYSB.setdefault(_h, len(_KEYSB)))


def base_mode(mode):
    """modes may carry option flags: '<mode>+b' = hash_method 'b', '+dir' = a disk cache directory,
    '+flat' = directory_split=False"""
    return mode.split("+")[0]


def mode_flags(mode):
    return mode.split("+")[1:]


def keyof(mode, nid):
    return KEYB[nid] if "b" in mode_flags(mode) else KEY[nid]


def net_of_tree_canon(tree, nid):
    """`nid` if the tree is built over the canonicalised form of pool contraction `nid` (what
    `array_contract_tree(..., canonicalize=True)` searches), else -1"""
    from cotengra import interface as _I
    n = POOL[nid]
    try:
        ins, out, sd, _ = _I.normalize_input(n.sym_inputs(), n.sym_output(), n.sym_sizes(), None, "greedy", True)
        ok = [tuple(t) for t in tree.inputs] == [tuple(t) for t in ins] and tuple(tree.output) == tuple(out) \
            and all(dict(tree.size_dict).get(k) == v for k, v in dict(sd).items()) and tree.N == len(n.inputs)
        return nid if ok else -1
    except Exception:
        return -1


def net_of_tree(tree):
    """pool id of the contraction the tree is built over, -1 if none."""
    try:
        ins = [tuple(t) for t in tree.inputs]
        out = tuple(tree.output)
        sd = dict(tree.size_dict)
    except Exception:
        return -1
    for i, n in enumerate(POOL):
        if ins == [tuple(t) for t in n.sym_inputs()] and out == tuple(n.sym_output()) and \
                all(sd.get(k) == v for k, v in n.sym_sizes().items()) and tree.N == len(n.inputs):
            return i
    return -1


# ------------------------------------------------------------------------------------------
#  controller: runs exactly one thread at a time, from yield point to yield point
# ------------------------------------------------------------------------------------------

class Controller:
    """Runs exactly one thread at a time, from yield point to yield point.

    A thread that is given the turn and does not come back within `block_timeout` seconds is
    taken to be blocked outside the controller (e.g. on a lock held by a parked thread): it is set
    aside until it arrives at a yield point, and another thread gets the turn.  From then on the
    run is no longer strictly serialised (`degraded` is set: such a run is judged by the oracle
    only, never compared with the model); it can still not hang."""

    block_timeout = 3.0

    def __init__(self, n, chooser):
        self.cv = threading.Condition()
        self.turn = None
        self.done = [False] * n
        self.chooser = chooser     # callable(enabled list) -> thread index
        self.effective = []
        self.enabled_log = []
        self.seg_labels = []       # what ended each segment of `effective` (name of the yield point / "end")
        self.free = False          # stress mode: yields are no-ops
        self.blocked = set()       # threads that did not come back from their turn
        self.degraded = None

    def start(self, i):
        if self.free:
            return
        with self.cv:
            while self.turn != i:
                self.cv.wait()

    def yield_(self, i, label="end"):
        if self.free:
            return
        with self.cv:
            if self.turn == i:
                self.seg_labels.append(label)
                self.turn = None
            # else: this thread was set aside as blocked and has been released meanwhile
            self.blocked.discard(i)
            self.cv.notify_all()
            while self.turn != i:
                self.cv.wait()

    def finish(self, i):
        with self.cv:
            self.done[i] = True
            self.blocked.discard(i)
            if not self.free and self.turn == i:
                self.seg_labels.append("end")
                self.turn = None
            self.cv.notify_all()

    def drive(self, limit=10000):
        for _ in range(limit):
            with self.cv:
                if all(self.done):
                    return True
                enabled = [i for i, d in enumerate(self.done) if not d and i not in self.blocked]
                if not enabled:
                    # every unfinished thread is blocked: wait for one of them to be released
                    if not self.cv.wait_for(lambda: all(self.done) or any(
                            (not d) and i not in self.blocked for i, d in enumerate(self.done)), timeout=10):
                        self.degraded = "deadlock: every unfinished thread is blocked outside the controller"
                        return False
                    continue
                i = self.chooser(enabled, len(self.effective))
                self.enabled_log.append(list(enabled))
                self.effective.append(i)
                self.turn = i
                self.cv.notify_all()
                if not self.cv.wait_for(lambda: self.turn is None, timeout=self.block_timeout):
                    self.blocked.add(i)
                    self.degraded = (f"thread {i} did not reach a yield point within {self.block_timeout}s "
                                     "(blocked outside the controller)")
                    _BLOCKING["seen"] += 1
                    self.seg_labels.append("blocked")
                    self.turn = None
        return False


_BLOCKING = {"seen": 0}


_tls = threading.local()
_ROBJS = {}    # id(instrumented Reusable object) -> object (cleared per nested run)


def _yield(label="hook"):
    ctl = getattr(_tls, "ctl", None)
    if ctl is not None:
        ctl.yield_(_tls.idx, label)


def _node():
    """the plan node of the query this thread is currently inside (innermost), or None"""
    st = getattr(_tls, "qstack", None)
    return st[-1]["node"] if st else None


class YieldDict(dict):
    """`_suboptimizers`: yields after a store"""

    def __setitem__(self, k, v):
        dict.__setitem__(self, k, v)
        _yield("store")


class CacheProxy:
    """`_cache` (a DiskDict): yields after a read of an entry and after a write"""

    def __init__(self, inner):
        self._inner = inner

    def __contains__(self, k):
        return k in self._inner

    def __getitem__(self, k):
        v = self._inner[k]
        _yield("cacheGet")
        return v

    def __setitem__(self, k, v):
        self._inner[k] = v
        _yield("cacheSet")

    def __getattr__(self, name):
        return getattr(self._inner, name)


class InstrumentationError(Exception):
    """The private attributes the yield-point wrappers need are not there (any more)."""


def _require(obj, name, pred, what):
    if not hasattr(obj, name) or not pred(getattr(obj, name)):
        raise InstrumentationError(f"{type(obj).__name__}.{name}: {what}")


def instrument_reusable(ropt):
    """Install the yield points on one ReusableOptimizer instance (instance attributes only)."""
    if getattr(ropt, "_verif_instrumented", False):
        return ropt
    _require(ropt, "_suboptimizers", lambda v: isinstance(v, dict), "expected the per-thread dict")
    _require(ropt, "_cache", lambda v: hasattr(v, "__getitem__") and hasattr(v, "__setitem__"), "expected a mapping")
    for nm in ("hash_query", "_get_suboptimizer", "_run_optimizer"):
        _require(ropt, nm, callable, "expected a method")
    ropt._verif_instrumented = True
    ropt._verif_scores = {}      # thread index -> [score of each sub-search]
    ropt._verif_nsearch = {}
    ropt._verif_subopt_ids = []  # id() of the object every `_get_suboptimizer()` call returned
    ropt._verif_subopt_keep = []
    ropt._suboptimizers = YieldDict(ropt._suboptimizers)
    ropt._cache = CacheProxy(ropt._cache)
    orig_hash = ropt.hash_query
    orig_get = ropt._get_suboptimizer
    orig_run = ropt._run_optimizer

    # the wrappers pass through whatever arguments the real methods take
    def hash_query(*a, **kw):
        r = orig_hash(*a, **kw)
        nd = _node()
        if nd is not None:
            nd["obj_key"] = id(ropt)
            _ROBJS[id(ropt)] = ropt
        _yield("hash")
        return r

    def _get_suboptimizer(*a, **kw):
        opt = orig_get(*a, **kw)
        idx = getattr(_tls, "idx", 0)
        ropt._verif_nsearch[idx] = ropt._verif_nsearch.get(idx, 0) + 1
        nd = _node()
        if nd is not None:
            nd["searched"] = True
        ropt._verif_subopt_ids.append(id(opt))
        ropt._verif_subopt_keep.append(opt)          # keeps the ids unique
        if getattr(opt, "_verif_search_wrapped", False):
            return opt                                # the same object handed out again
        orig_search = opt.search

        def search(*a, **kw):
            tree = orig_search(*a, **kw)
            _yield("search")
            return tree

        opt.search = search
        try:
            opt._verif_search_wrapped = True
        except Exception:
            pass
        return opt

    def _run_optimizer(*a, **kw):
        nd = _node()               # the query that runs this sub-search (nested ones pop before we return)
        con = orig_run(*a, **kw)
        try:
            sc = con["score"]
        except Exception:
            sc = None
        ropt._verif_scores.setdefault(getattr(_tls, "idx", 0), []).append(sc)
        if nd is not None:
            nd["score"] = sc
        return con

    ropt.hash_query = hash_query
    ropt._get_suboptimizer = _get_suboptimizer
    ropt._run_optimizer = _run_optimizer
    return ropt


def instrument_auto(aopt):
    _require(aopt, "_get_optimizer_hyper_threadsafe", callable, "expected a method")
    aopt._verif_objs = {}
    aopt._verif_nsearch = {}
    orig = aopt._get_optimizer_hyper_threadsafe

    def getter(*a, **kw):
        opt = orig(*a, **kw)
        idx = getattr(_tls, "idx", 0)
        if isinstance(opt, ctg.ReusableHyperOptimizer):
            try:
                instrument_reusable(opt)
            except InstrumentationError as e:
                aopt._verif_instr_error = str(e)
        else:
            aopt._verif_nsearch[idx] = aopt._verif_nsearch.get(idx, 0) + 1
            nd = _node()
            if nd is not None:
                nd["searched"] = True
        aopt._verif_objs[idx] = opt
        nd = _node()
        if nd is not None:
            nd["obj_key"] = id(opt)
        _yield("getopt")
        return opt

    aopt._get_optimizer_hyper_threadsafe = getter
    return aopt


_TMPDIRS = []
HYPER_KW = dict(methods=("greedy",), optlib="random", max_repeats=2, max_time=None, parallel=False,
                progbar=False)

MODES = ("reusable-no", "reusable-yes", "reusable-improved", "reusable-cacheonly", "reusable-rgreedy",
         "auto-cached", "auto-plain", "autohq-cached")


class HookObjective(FlopsObjective):
    """A user-supplied objective (public API: `minimize=<Objective instance>`): scores like 'flops'
    and offers a yield point at every call.  One of the calls is `tree.get_score()` in
    `_deconstruct_tree`, i.e. in the window between "this thread's search is finished and recorded"
    and "its tree is fetched" -- so a controller can park a thread there without touching any
    private attribute of the optimizer."""

    __slots__ = ()

    def __call__(self, trial):
        _yield()
        return super().__call__(trial)


PUBLIC_MODES = ("reusable-no", "reusable-yes", "reusable-improved", "auto-cached", "auto-plain")


def make_optimizer(mode, instr="private", **over):
    """instr: 'private' = yield points on private attributes (instance wrappers); 'public' = yield
    points only inside a user-supplied objective; 'none' = the plain object.  `over`: overrides of
    the hyper-optimizer keyword arguments (the nested streams pass their own `methods`)."""
    wrap_r = instrument_reusable if instr == "private" else (lambda o: o)
    wrap_a = instrument_auto if instr == "private" else (lambda o: o)
    hyper_kw = dict(HYPER_KW)
    hyper_kw.update(over)
    if instr == "public":
        hyper_kw["minimize"] = HookObjective()
    flags = mode_flags(mode)
    mode = base_mode(mode)
    if mode.startswith("reusable"):
        if "b" in flags:
            hyper_kw["hash_method"] = "b"
        if "dir" in flags:
            import tempfile
            hyper_kw["directory"] = tempfile.mkdtemp(prefix="c16-cache-")
            _TMPDIRS.append(hyper_kw["directory"])
            if "flat" in flags:
                hyper_kw["directory_split"] = False
    if mode.startswith("pool"):
        # one ReusableHyperOptimizer whose sub-searches dispatch their trials to a user-supplied
        # executor (public API: `parallel=<executor>`); see harness/c16_pool.py
        from . import c16_pool
        return c16_pool.make_pool_optimizer(mode, wrap_r, hyper_kw)
    if mode.startswith("reusable"):
        kind = mode.split("-")[1]
        if kind == "rgreedy":
            rk = {k: hyper_kw[k] for k in ("hash_method", "directory", "directory_split") if k in hyper_kw}
            return wrap_r(ReusableRandomGreedyOptimizer(max_repeats=2, **rk))
        ov = {"no": False, "yes": True, "improved": "improved", "cacheonly": False}[kind]
        return wrap_r(ctg.ReusableHyperOptimizer(overwrite=ov, cache_only=(kind == "cacheonly"), **hyper_kw))
    kw = dict(hyper_kw)
    kw["reconf_opts"] = {"subtree_size": 3, "maxiter": 2}
    if mode == "auto-cached":
        return wrap_a(AutoOptimizer(optimal_cutoff=CUTOFF, cache=True, **kw))
    if mode == "autohq-cached":
        return wrap_a(AutoHQOptimizer(optimal_cutoff=CUTOFF, cache=True, **kw))
    if mode == "auto-plain":
        return wrap_a(AutoOptimizer(optimal_cutoff=CUTOFF, cache=False, **kw))
    raise ValueError(mode)


def model_mode(mode):
    mode = base_mode(mode)
    if mode.startswith("reusable"):
        kind = mode.split("-")[1]
        return {"mode": "reusable", "overwrite": {"yes": "yes", "improved": "improved"}.get(kind, "no"),
                "cache_only": kind == "cacheonly"}
    if mode == "auto-plain":
        return {"mode": "auto_plain", "overwrite": "no", "cache_only": False}
    return {"mode": "auto_cached", "overwrite": "no", "cache_only": False}


# ------------------------------------------------------------------------------------------
#  one run under a controller
# ------------------------------------------------------------------------------------------

_TRACED_FILES = (os.path.join("cotengra", "reusable.py"), os.path.join("cotengra", "presets.py"))


def _line_tracer(frame, event, arg):
    """`sys.settrace` hook (instr='trace'): every source line of a *method* defined in
    cotengra/reusable.py or cotengra/presets.py is a yield point -- no attribute of the optimizers
    is named, and the granularity is finer than the shared-access yield points."""
    co = frame.f_code
    if not co.co_filename.endswith(_TRACED_FILES) or "self" not in co.co_varnames[:1]:
        return None

    def local(frame, event, arg):
        if event == "line":
            _yield("line")
        return local

    return local


def run_threads(mode, programs, chooser=None, free=False, use_call=False, instr="private"):
    """programs: per thread, list of pool ids. Returns observation dict.
    Raises InstrumentationError (only) when instr='private' cannot be installed."""
    opt = make_optimizer(mode, "none" if instr == "trace" else instr)
    n = len(programs)
    ctl = Controller(n, chooser or (lambda en, k: en[0]))
    ctl.free = free
    results = [[] for _ in range(n)]
    errors = [[] for _ in range(n)]

    nodes = [[] for _ in range(n)]

    def worker(i):
        _tls.ctl, _tls.idx = ctl, i
        try:
            ctl.start(i)
            if instr == "trace":
                sys.settrace(_line_tracer)
            for j, nid in enumerate(programs[i]):
                net = POOL[nid]
                node = {"nid": nid, "searched": False, "score": None, "obj_key": None}
                nodes[i].append(node)
                _tls.qstack = [{"node": node, "k": 0}]
                try:
                    with warnings.catch_warnings():
                        warnings.simplefilter("ignore")
                        if use_call:
                            path = opt(net.sym_inputs(), net.sym_output(), net.sym_sizes())
                            ok = len(path) == len(net.inputs) - 1
                            results[i].append([nid, nid if ok else -1])
                        else:
                            tree = opt.search(net.sym_inputs(), net.sym_output(), net.sym_sizes())
                            results[i].append([nid, net_of_tree(tree)])
                except Exception as e:  # the call raised: no tree returned
                    results[i].append([nid, None])
                    errors[i].append(type(e).__name__)
                if j + 1 < len(programs[i]):
                    ctl.yield_(i)
        finally:
            sys.settrace(None)
            _tls.ctl = None
            _tls.qstack = None
            ctl.finish(i)

    ths = [threading.Thread(target=worker, args=(i,), daemon=True) for i in range(n)]
    for t in ths:
        t.start()
    completed = True
    if not free:
        completed = ctl.drive()
    for t in ths:
        t.join(timeout=60)
    obs = {"results": results, "errors": errors, "schedule": list(ctl.effective),
           "enabled": ctl.enabled_log, "completed": completed and all(not t.is_alive() for t in ths)}
    while _TMPDIRS:
        import shutil
        shutil.rmtree(_TMPDIRS.pop(), ignore_errors=True)
    obs["instr"] = instr
    obs["seg_labels"] = list(ctl.seg_labels)
    obs["nodes"] = nodes
    obs["_opt"] = opt
    if ctl.degraded:
        obs["blocked"] = ctl.degraded
    if instr != "private":
        return obs
    # per-thread sub-search counts, scores and cached keys (private attributes: best effort)
    try:
        _observe_private(opt, mode, programs, obs)
    except Exception as e:
        obs["degraded"] = f"{type(e).__name__}: {e}"
    if getattr(opt, "_verif_instr_error", None):
        obs["degraded"] = opt._verif_instr_error
    return obs


def _observe_private(opt, mode, programs, obs):
    n = len(programs)
    nsearch, scores, cached = [], [], []
    for i in range(n):
        if mode.startswith("reusable"):
            robj = opt
        else:
            robj = opt._verif_objs.get(i)
        if robj is not None and getattr(robj, "_verif_instrumented", False):
            nsearch.append(robj._verif_nsearch.get(i, 0))
            scores.append(list(robj._verif_scores.get(i, [])))
            keys = []
            for nid in dict.fromkeys(programs[i]):
                net = POOL[nid]
                hh = hash_contraction(net.sym_inputs(), net.sym_output(), net.sym_sizes(), robj._hash_method)
                if robj.directory_split:
                    hh = (hh[:2], hh[2:])
                keys.append([keyof(mode, nid), hh in robj._cache._inner])
            ded = {}
            for k, v in keys:
                ded[k] = v
            cached.append([[k, v] for k, v in ded.items()])
        else:
            nsearch.append(getattr(opt, "_verif_nsearch", {}).get(i, 0))
            scores.append([])
            cached.append(None)
    obs["nsearch"], obs["scores"], obs["cached"] = nsearch, scores, cached
    # which Reusable object each thread talked to (grouping is the implementation's freedom)
    if mode.startswith("reusable"):
        obs["obj_of"] = [0] * n
    else:
        ids = {}
        obs["obj_of"] = [ids.setdefault(id(opt._verif_objs.get(i, i)), len(ids)) for i in range(n)]


def oracle(programs, obs, mode=None):
    """Every returned tree is a tree of the contraction that call asked about."""
    if not obs["completed"]:
        return ("threads-did-not-finish", obs["schedule"][-10:])
    for i, prog in enumerate(programs):
        res = obs["results"][i]
        if [r[0] for r in res] != list(prog):
            return ("missing-answers", [i, res])
        for nid, got in res:
            if got is not None and got != nid:
                return ("tree-of-another-contraction", {"thread": i, "asked": nid, "returned": got})
        for e in obs["errors"][i]:
            if not (e == "KeyError" and mode is not None and base_mode(mode) == "reusable-cacheonly"):
                return ("call-raised", {"thread": i, "error": e})
    return None


def model_compare(drv, mode, programs, obs):
    mm = model_mode(mode)
    allsc = sorted({s for per in obs["scores"] for s in per})
    trials = [[[allsc.index(s)] for s in per] + [[0]] * 4 for per in obs["scores"]]
    if mm["mode"] == "auto_plain":
        trials = [[[k] for k in range(len(p) + 2)] for p in programs]
    resp = drv.call("c16.run", queues=[[[nid, keyof(mode, nid), bool(HARD[nid])] for nid in p] for p in programs],
                    trials=trials, schedule=obs["schedule"], fresh_plain=True, obj_of=obs["obj_of"], **mm)
    if "error" in resp:
        return "driver error: " + resp["error"]
    for i, th in enumerate(resp["threads"]):
        if th["left"] != 0 or th["pc"] != "idle":
            return f"thread {i}: model has not finished its program on the effective schedule ({th['pc']}, {th['left']} left)"
        if th["results"] != obs["results"][i]:
            return f"thread {i}: results model {th['results']} vs implementation {obs['results'][i]}"
        if th["nsearch"] != obs["nsearch"][i]:
            return f"thread {i}: sub-searches model {th['nsearch']} vs implementation {obs['nsearch'][i]}"
        if obs["cached"][i] is not None and sorted(th["cached"]) != sorted(obs["cached"][i]):
            return f"thread {i}: cached keys model {th['cached']} vs implementation {obs['cached'][i]}"
    return model_compare_labelled(drv, mode, programs, obs, allsc)


OBSERVABLE = ["hash", "getopt", "search", "store", "cacheGet", "cacheSet", "call"]


def model_compare_labelled(drv, mode, programs, obs, allsc):
    """The same run against the stack-of-frames model (Model/ReuseNest.lean, flat nesting trees),
    segment by segment: which kind of shared access ended every segment of the effective schedule
    must be what the model's thread does next (the intermediate states, not only the end)."""
    if len(obs.get("seg_labels", [])) != len(obs["schedule"]):
        return None
    mm = model_mode(mode)
    queues = []
    for i, prog in enumerate(programs):
        q = []
        for j, nid in enumerate(prog):
            node = obs["nodes"][i][j] if j < len(obs["nodes"][i]) else {}
            sc = node.get("score")
            rank = allsc.index(sc) if sc in allsc else 0
            q.append({"q": [nid, keyof(mode, nid), bool(HARD[nid])], "kind": mm["mode"], "obj": obs["obj_of"][i],
                      "call": False, "trials": [{"nested": [], "score": rank}]})
        queues.append(q)
    objs = sorted(set(obs["obj_of"]))
    resp = drv.call("c16.nrun", queues=queues, overwrite=[[o, mm["overwrite"]] for o in objs],
                    cache_only=objs if mm["cache_only"] else [],
                    segments=[[t, l] for t, l in zip(obs["schedule"], obs["seg_labels"])],
                    observable=OBSERVABLE,
                    probe=[[obs["obj_of"][i], keyof(mode, nid)] for i, p in enumerate(programs) for nid in dict.fromkeys(p)])
    if "error" in resp:
        return "c16.nrun driver error: " + resp["error"]
    if resp["mismatch"] is not None:
        m = resp["mismatch"]
        return (f"c16.nrun: segment {m['segment']} of the schedule ended at yield point {m['expected']!r} in the "
                f"implementation, the model's thread comes to {m['got']!r} next")
    for i, th in enumerate(resp["threads"]):
        got = [[r[0], r[3]] for r in th["results"]]
        if th["left"] != 0 or th["stack"] != 0:
            return f"c16.nrun thread {i}: model has not finished"
        if th["after_segments"] != len(th["results"]):
            return f"c16.nrun thread {i}: the model needed steps beyond the implementation's schedule"
        if got != obs["results"][i]:
            return f"c16.nrun thread {i}: results model {got} vs implementation {obs['results'][i]}"
        if th["nalloc"] != obs["nsearch"][i]:
            return f"c16.nrun thread {i}: sub-optimizers created model {th['nalloc']} vs implementation {obs['nsearch'][i]}"
    probe = {}
    for i, per in enumerate(obs["cached"]):
        for k, v in (per or []):
            probe[(obs["obj_of"][i], k)] = v
    for o, k, v in resp["cached"]:
        if (o, k) in probe and probe[(o, k)] != v:
            return f"c16.nrun: object {o} key {k}: cached model {v} vs implementation {probe[(o, k)]}"
    if mode.startswith("reusable"):
        return model_compare_identity(drv, mode, programs, obs, allsc)
    return None


def model_compare_identity(drv, mode, programs, obs, allsc):
    """The same run against the heap model (Model/ReuseShared.lean, policy `fresh`): besides the
    answers and the labelled segments, *which object* every `_get_suboptimizer()` call handed out
    (first-occurrence numbering of the identities, in the order of the calls)."""
    opt = obs.get("_opt")
    ids = list(getattr(opt, "_verif_subopt_ids", []) or [])
    mm = model_mode(mode)
    trials = [[[allsc.index(s) if s in allsc else 0] for s in per] + [[0]] * 4 for per in obs["scores"]]
    resp = drv.call("c16.srun", policy="fresh", overwrite=mm["overwrite"], cache_only=mm["cache_only"],
                    queues=[[[nid, keyof(mode, nid), bool(HARD[nid])] for nid in p] for p in programs], trials=trials,
                    segments=[[t, l] for t, l in zip(obs["schedule"], obs["seg_labels"])])
    if "error" in resp:
        return "c16.srun driver error: " + resp["error"]
    if resp["mismatch"] is not None:
        m = resp["mismatch"]
        return (f"c16.srun: segment {m['segment']} ended at {m['expected']!r} in the implementation, the heap "
                f"model's thread comes to {m['got']!r}")
    for i, th in enumerate(resp["threads"]):
        if th["left"] != 0 or th["pc"] != "idle":
            return f"c16.srun thread {i}: model has not finished its program"
        if th["results"] != obs["results"][i]:
            return f"c16.srun thread {i}: results model {th['results']} vs implementation {obs['results'][i]}"
        if th["nsearch"] != obs["nsearch"][i]:
            return f"c16.srun thread {i}: sub-searches model {th['nsearch']} vs implementation {obs['nsearch'][i]}"

    def canon(xs):
        seen = {}
        return [seen.setdefault(x, len(seen)) for x in xs]

    if canon(resp["refs"]) != canon(ids):
        return (f"c16.srun: sub-optimizer objects handed out (first-occurrence numbering): model {canon(resp['refs'])} "
                f"vs implementation {canon(ids)} -- `_get_suboptimizer()` does not return a new object per call")
    return None


def signature(mode, programs, bad):
    sig = {"site": "search", "optimizer": mode, "kind": bad[0]}
    if mode == "auto-plain" and bad[0] == "tree-of-another-contraction":
        sig["pattern"] = "second-hard-query-on-one-thread"
    return sig


_DEGRADED = {}


def check_schedule(ctx, drv, mode, programs, chooser, tag, instr="private"):
    """One forced schedule. instr='private': yield points on the private attributes + comparison
    with the model; instr='public': yield points inside the user objective only, oracle only.
    Never raises on behalf of the real code: a missing private attribute is recorded as a broken
    correspondence (once per message) and the run falls back to the public yield points."""
    if instr == "private" and _DEGRADED.get(mode.split("-")[0]):
        instr = "public" if mode in PUBLIC_MODES else "trace"
    try:
        obs = run_threads(mode, programs, chooser, instr=instr)
    except InstrumentationError as e:
        fam = mode.split("-")[0]
        if not _DEGRADED.get(fam):
            _DEGRADED[fam] = str(e)
            ctx.corr_broken("instrumentation of the private yield points is not possible: " + str(e),
                            {"mode": mode})
        instr = "public" if mode in PUBLIC_MODES else "trace"
        obs = run_threads(mode, programs, chooser, instr=instr)
    pre = "E" if instr == "private" else "P"
    ctx.count(f"{pre}:{tag}:{mode}")
    ctx.count(f"{pre}:steps", len(obs["schedule"]))
    sw = sum(1 for a, b in zip(obs["schedule"], obs["schedule"][1:]) if a != b)
    ctx.count(f"{pre}:context_switches", sw)
    for per in obs["errors"]:
        for e in per:
            ctx.count(f"{pre}:raised:" + e)
    if "nsearch" in obs:
        hits = sum(len(p) for p in programs) - sum(obs["nsearch"])
        if mode != "auto-plain" and hits > 0:
            ctx.count("E:answers_without_search", hits)
    case = {"kind": "schedule", "mode": mode, "programs": programs, "schedule": obs["schedule"],
            "instr": instr}
    nontrivial = (len(programs) > 1 and sw > 0) or any(len(p) > 1 for p in programs)
    ctx.case(case, nontrivial=nontrivial)
    bad = oracle(programs, obs, mode)
    if bad is not None:
        ctx.violation(signature(mode, programs, bad), {"case": case, "failed": [bad[0], bad[1]]},
                      f"{mode}: {bad[0]} {bad[1]}")
        return obs, False
    if obs.get("blocked"):
        ctx.count("runs_with_a_thread_blocked_outside_the_controller")
    elif obs.get("degraded"):
        if not _DEGRADED.get("obs:" + mode.split("-")[0]):
            _DEGRADED["obs:" + mode.split("-")[0]] = obs["degraded"]
            ctx.corr_broken("the run could not be compared with the model: " + obs["degraded"], case)
    elif drv is not None and instr == "private":
        try:
            diff = model_compare(drv, mode, programs, obs)
        except Exception as e:
            diff = f"comparison failed: {type(e).__name__}: {e}"
        ctx.traces += 1
        if diff:
            ctx.corr_broken("c16.run: " + diff, case)
    return obs, True


def window_choosers(programs, counts):
    """Schedules of the form: thread `first` runs `k` of its segments, then every other thread runs
    its whole program, then `first` finishes -- i.e. the others' queries fall entirely between two
    consecutive yield points of `first`; for every thread and every k."""
    out = []
    for first in range(len(programs)):
        for k in range(counts[first] + 1):
            def chooser(enabled, pos, first=first, k=k, st={"mine": 0}):
                if pos == 0:
                    st["mine"] = 0
                if st["mine"] < k and first in enabled:
                    st["mine"] += 1
                    return first
                for t in enabled:
                    if t != first:
                        return t
                return enabled[0]
            out.append(chooser)
    return out


def check_windows(ctx, drv, mode, programs, instr, tag="window"):
    """all window schedules of `programs` (see window_choosers); returns the number of runs"""
    obs0, ok = check_schedule(ctx, drv, mode, programs, None, tag, instr=instr)
    if not ok:
        return 1
    counts = [obs0["schedule"].count(t) for t in range(len(programs))]
    runs = 1
    for ch in window_choosers(programs, counts):
        if ctx.time_left() < 40:
            break
        _, ok = check_schedule(ctx, drv if instr == "private" else None, mode, programs, ch, tag, instr=instr)
        runs += 1
        if not ok:
            break
    return runs


def explore_all(ctx, drv, mode, programs, max_runs, tag="exhaustive", instr="private"):
    """Stateless DFS over the enabled threads: every maximal interleaving exactly once."""
    prefix = []
    runs = 0
    while True:
        if runs >= max_runs or ctx.time_left() < 20:
            return runs, False
        pf = list(prefix)

        def chooser(enabled, k, pf=pf):
            if k < len(pf) and pf[k] < len(enabled):
                return enabled[pf[k]]
            return enabled[0]

        obs, _ = check_schedule(ctx, drv, mode, programs, chooser, tag, instr=instr)
        runs += 1
        # positions chosen in this run
        pos = [en.index(ch) for en, ch in zip(obs["enabled"], obs["schedule"])]
        k = len(pos) - 1
        while k >= 0 and pos[k] + 1 >= len(obs["enabled"][k]):
            k -= 1
        if k < 0:
            return runs, True
        prefix = pos[:k] + [pos[k] + 1]


# ------------------------------------------------------------------------------------------
#  stress and sequential (oracle only)
# ------------------------------------------------------------------------------------------

def stress(ctx, mode, nthreads, nq, use_call=False):
    rng = ctx.rng
    programs = [[rng.randrange(len(POOL)) for _ in range(nq)] for _ in range(nthreads)]
    old = sys.getswitchinterval()
    sys.setswitchinterval(1e-6)
    try:
        obs = run_threads(mode, programs, free=True, use_call=use_call, instr="none")
    finally:
        sys.setswitchinterval(old)
    ctx.count(f"S:stress:{mode}" + (":call" if use_call else ""))
    case = {"kind": "stress", "mode": mode, "programs": programs, "call": use_call}
    ctx.case(case, nontrivial=True, sample=False)
    bad = oracle(programs, obs, mode)
    if bad is not None:
        ctx.violation(signature(mode, programs, bad), {"case": case, "failed": [bad[0], bad[1]]},
                      f"{mode} (free-running threads): {bad[0]} {bad[1]}")
        return False
    return True


PRESETS = ("auto", "auto-hq", "greedy", "optimal", "eager", "dp")


def presets_run(programs, free):
    """String presets through the public interface (module-level shared optimizer objects)."""
    n = len(programs)
    results = [[] for _ in range(n)]

    def worker(i):
        for ent in programs[i]:
            name, nid = ent[0], ent[1]
            canon = bool(ent[2]) if len(ent) > 2 else False
            net = POOL[nid]
            try:
                with warnings.catch_warnings():
                    warnings.simplefilter("ignore")
                    tree = ctg.array_contract_tree(net.sym_inputs(), net.sym_output(), net.sym_sizes(),
                                                   optimize=name, canonicalize=canon)
                results[i].append([nid, net_of_tree_canon(tree, nid) if canon else net_of_tree(tree)])
            except Exception as e:
                results[i].append([nid, None])

    if n == 1:
        worker(0)
    else:
        old = sys.getswitchinterval()
        sys.setswitchinterval(1e-6)
        try:
            ths = [threading.Thread(target=worker, args=(i,), daemon=True) for i in range(n)]
            for t in ths:
                t.start()
            for t in ths:
                t.join(timeout=120)
        finally:
            sys.setswitchinterval(old)
    return results


def check_presets(ctx, nthreads, nq):
    rng = ctx.rng
    programs = [[[rng.choice(PRESETS), rng.randrange(len(POOL) - 1), rng.random() < 0.4] for _ in range(nq)]
                for _ in range(nthreads)]
    res = presets_run(programs, nthreads > 1)
    ctx.count("S:presets:%s" % ("threads" if nthreads > 1 else "sequential"))
    case = {"kind": "presets", "programs": programs}
    ctx.case(case, nontrivial=True, sample=False)
    for i, per in enumerate(res):
        for ent, (_, got) in zip(programs[i], per):
            name, nid = ent[0], ent[1]
            if got is not None and got != nid:
                ctx.violation({"site": "array_contract_tree", "optimizer": "preset:" + name,
                               "kind": "tree-of-another-contraction"},
                              {"case": case, "failed": ["tree-of-another-contraction", [i, nid, got]]},
                              f"preset {name!r}: tree of contraction {got} returned for {nid}")
                return False
    return True


# ------------------------------------------------------------------------------------------
#  F. source facts
# ------------------------------------------------------------------------------------------

def _self_stores(fn):
    """Descriptions of every store through `self` in a function body."""
    out = []

    def target_desc(t):
        if isinstance(t, ast.Attribute) and isinstance(t.value, ast.Name) and t.value.id == "self":
            return "self." + t.attr
        if isinstance(t, ast.Subscript):
            v = t.value
            if isinstance(v, ast.Attribute) and isinstance(v.value, ast.Name) and v.value.id == "self":
                key = t.slice.id if isinstance(t.slice, ast.Name) else ast.dump(t.slice)[:20]
                return f"self.{v.attr}[{key}]"
        return None

    for n in ast.walk(fn):
        targets = []
        if isinstance(n, ast.Assign):
            targets = n.targets
        elif isinstance(n, (ast.AugAssign, ast.AnnAssign)):
            targets = [n.target]
        for t in targets:
            for tt in (t.elts if isinstance(t, ast.Tuple) else [t]):
                d = target_desc(tt)
                if d:
                    out.append(d)
        if isinstance(n, ast.Call) and isinstance(n.func, ast.Attribute) and \
                n.func.attr in ("append", "update", "setdefault", "pop", "clear", "add", "extend", "remove"):
            v = n.func.value
            if isinstance(v, ast.Attribute) and isinstance(v.value, ast.Name) and v.value.id == "self":
                out.append(f"self.{v.attr}.{n.func.attr}()")
    return out


def _ident_names(fn):
    """names bound to `threading.get_ident()` in a function"""
    names = set()
    for n in ast.walk(fn):
        if isinstance(n, ast.Assign) and isinstance(n.value, ast.Call):
            f = n.value.func
            if isinstance(f, ast.Attribute) and f.attr == "get_ident":
                for t in n.targets:
                    if isinstance(t, ast.Name):
                        names.add(t.id)
    return names


def extract_facts():
    def load(rel):
        return ast.parse(open(os.path.join(common.REPO, "cotengra", rel)).read())

    pb = load("pathfinders/path_basic.py")
    ru = load("reusable.py")
    pr = load("presets.py")

    def cls(mod, name):
        return next(n for n in mod.body if isinstance(n, ast.ClassDef) and n.name == name)

    def meth(c, name):
        # the last definition wins (ReusableOptimizer defines _run_optimizer twice)
        found = [n for n in c.body if isinstance(n, ast.FunctionDef) and n.name == name]
        return found[-1] if found else None

    presets = {}
    for cname in ("GreedyOptimizer", "OptimalOptimizer"):
        c = cls(pb, cname)
        st = []
        for m in ("search", "__call__", "ssa_path", "maybe_update_defaults"):
            f = meth(c, m)
            if f is not None:
                st += _self_stores(f)
        presets[cname] = st
    rc = cls(ru, "ReusableOptimizer")
    stores = []
    for m in ("search", "__call__", "_maybe_run_optimizer", "_run_optimizer", "hash_query", "last_opt",
              "minimize"):
        f = meth(rc, m)
        if f is None:
            continue
        idents = _ident_names(f)
        for d in _self_stores(f):
            for nm in idents:
                d = d.replace(f"[{nm}]", "[<ident>]")
            stores.append(d)
    last_opt = meth(rc, "last_opt")
    last_opt_reads_ident = any(isinstance(n, ast.Attribute) and n.attr == "get_ident" for n in ast.walk(last_opt))
    ac = cls(pr, "AutoOptimizer")
    astores = []
    for m in ("search", "__call__", "_get_optimizer_hyper_threadsafe"):
        f = meth(ac, m)
        idents = _ident_names(f)
        for d in _self_stores(f):
            for nm in idents:
                d = d.replace(f"[{nm}]", "[<ident>]")
            astores.append(d)
    return {"presets": presets, "reusable_stores": sorted(set(stores)),
            "last_opt_reads_ident": last_opt_reads_ident, "auto_stores": sorted(set(astores))}


_MUTATORS = ("append", "extend", "insert", "pop", "remove", "clear", "update", "setdefault", "add", "popitem",
             "appendleft", "popleft", "discard")


def _is_fresh_container(v):
    """an expression that evaluates to a new empty container"""
    if isinstance(v, (ast.List, ast.Dict, ast.Set)):
        return not (getattr(v, "elts", None) or getattr(v, "keys", None))
    if isinstance(v, ast.Call) and not v.args and not v.keywords:
        f = v.func
        name = f.id if isinstance(f, ast.Name) else (f.attr if isinstance(f, ast.Attribute) else "")
        return name in ("list", "dict", "set", "deque")
    return False


def _is_mutable_value(v):
    if isinstance(v, (ast.List, ast.Dict, ast.Set, ast.ListComp, ast.DictComp, ast.SetComp)):
        return True
    if isinstance(v, ast.Call):
        f = v.func
        name = f.id if isinstance(f, ast.Name) else (f.attr if isinstance(f, ast.Attribute) else "")
        return name in ("list", "dict", "set", "deque", "defaultdict", "OrderedDict")
    return False


def _self_attr(n, attr=None):
    return isinstance(n, ast.Attribute) and isinstance(n.value, ast.Name) and n.value.id == "self" and \
        (attr is None or n.attr == attr)


def extract_futures_facts():
    """How `HyperOptimizer` keeps the in-flight trials of a pool-parallel search (hyper.py):
    is `self._futures` bound to a fresh container at the start of every search, is there a
    class-level mutable container that instances mutate in place, is `_futures` reached other than
    through `self`."""
    src = open(os.path.join(common.REPO, "cotengra", "hyperoptimizers", "hyper.py")).read()
    mod = ast.parse(src)
    classes = {n.name: n for n in mod.body if isinstance(n, ast.ClassDef)}

    def derives(c):
        for b in c.bases:
            nm = b.id if isinstance(b, ast.Name) else (b.attr if isinstance(b, ast.Attribute) else "")
            if nm == "HyperOptimizer" or (nm in classes and derives(classes[nm])):
                return True
        return False

    fam = [c for c in classes.values() if c.name == "HyperOptimizer" or derives(c)]
    # names mutated in place through `self.<name>` in any method of the family
    mutated = set()
    for c in fam:
        for n in ast.walk(c):
            if isinstance(n, ast.Call) and isinstance(n.func, ast.Attribute) and n.func.attr in _MUTATORS \
                    and _self_attr(n.func.value):
                mutated.add(n.func.value.attr)
            if isinstance(n, ast.Delete):
                for t in n.targets:
                    if isinstance(t, ast.Subscript) and _self_attr(t.value):
                        mutated.add(t.value.attr)
            if isinstance(n, (ast.Assign, ast.AugAssign)):
                for t in (n.targets if isinstance(n, ast.Assign) else [n.target]):
                    if isinstance(t, ast.Subscript) and _self_attr(t.value):
                        mutated.add(t.value.attr)
    class_mutables = []
    for c in fam:
        for st in c.body:
            tgts, val = [], None
            if isinstance(st, ast.Assign):
                tgts, val = st.targets, st.value
            elif isinstance(st, ast.AnnAssign) and st.value is not None:
                tgts, val = [st.target], st.value
            for t in tgts:
                if isinstance(t, ast.Name) and _is_mutable_value(val) and t.id in mutated:
                    class_mutables.append(f"{c.name}.{t.id}")
    ho = classes["HyperOptimizer"]
    meths = {n.name: n for n in ho.body if isinstance(n, ast.FunctionDef)}

    def uses(node):
        return any(_self_attr(n, "_futures") for n in ast.walk(node))

    def fresh_at_start(fn):
        """a top-level `self._futures = <fresh empty container>` before any other use"""
        if fn is None:
            return False
        for st in fn.body:
            if isinstance(st, ast.Assign) and len(st.targets) == 1 and _self_attr(st.targets[0], "_futures") \
                    and _is_fresh_container(st.value):
                return True
            if uses(st):
                return False
        return False

    fresh = fresh_at_start(meths.get("_gen_results_parallel"))
    rebinders = sorted({m.name for m in meths.values() for n in ast.walk(m)
                        if isinstance(n, ast.Assign) and any(_self_attr(t, "_futures") for t in n.targets)})
    foreign = []
    for c in fam:
        for m in [n for n in c.body if isinstance(n, ast.FunctionDef)]:
            for n in ast.walk(m):
                if isinstance(n, ast.Attribute) and n.attr == "_futures" and not _self_attr(n):
                    foreign.append(f"{c.name}.{m.name}")
    return {"class_mutables": sorted(set(class_mutables)), "fresh_per_search": bool(fresh),
            "rebinders": rebinders, "foreign_uses": sorted(set(foreign))}


def extract_iface_facts():
    """`interface.hash_contraction` returns the tuple of everything that defines the contraction
    (not a hash of it), and `array_contract_path` looks `_PATH_CACHE` up under exactly that key."""
    src = open(os.path.join(common.REPO, "cotengra", "interface.py")).read()
    mod = ast.parse(src)
    fn = next(n for n in mod.body if isinstance(n, ast.FunctionDef) and n.name == "hash_contraction")
    rets = [n for n in ast.walk(fn) if isinstance(n, ast.Return)]
    parts, ok = [], len(rets) == 1 and isinstance(rets[0].value, ast.Tuple)
    if ok:
        for e in rets[0].value.elts:
            parts.append(sorted({n.id for n in ast.walk(e) if isinstance(n, ast.Name)} &
                                {"inputs", "output", "size_dict", "optimize", "kwargs"}))
    calls_hash = any(isinstance(n, ast.Call) and isinstance(n.func, ast.Name) and n.func.id in ("hash", "id")
                     for n in ast.walk(fn))
    names = sorted({x for p_ in parts for x in p_})
    # `inputs`, `output` must enter the key unprocessed (bare names), the sizes item-wise
    bare = sorted(e.id for e in (rets[0].value.elts if ok else []) if isinstance(e, ast.Name))
    acp = next(n for n in mod.body if isinstance(n, ast.FunctionDef) and n.name == "array_contract_path")
    keyed = any(isinstance(n, ast.Subscript) and isinstance(n.value, ast.Name) and n.value.id == "_PATH_CACHE"
                and isinstance(n.slice, ast.Name) and n.slice.id == "key" for n in ast.walk(acp))
    key_from = any(isinstance(n, ast.Assign) and any(isinstance(t, ast.Name) and t.id == "key" for t in n.targets)
                   and isinstance(n.value, ast.Call) and isinstance(n.value.func, ast.Name)
                   and n.value.func.id == "hash_contraction" for n in ast.walk(acp))
    return {"key_names": names, "bare": bare, "calls_hash": bool(calls_hash), "returns_tuple": bool(ok),
            "cache_keyed_by_it": bool(keyed and key_from)}


def extract_subopt_facts():
    """Every `_get_suboptimizer` of a subclass of `ReusableOptimizer` (hyper.py, path_basic.py) is
    a single `return <ClassName>(...)`: a new object per call."""
    out = []
    for rel in (os.path.join("hyperoptimizers", "hyper.py"), os.path.join("pathfinders", "path_basic.py")):
        mod = ast.parse(open(os.path.join(common.REPO, "cotengra", rel)).read())
        for c in [n for n in mod.body if isinstance(n, ast.ClassDef)]:
            bases = [b.id if isinstance(b, ast.Name) else getattr(b, "attr", "") for b in c.bases]
            if "ReusableOptimizer" not in bases:
                continue
            fn = next((n for n in c.body if isinstance(n, ast.FunctionDef) and n.name == "_get_suboptimizer"), None)
            ok = False
            if fn is not None:
                body = [st for st in fn.body if not (isinstance(st, ast.Expr) and isinstance(st.value, ast.Constant))]
                if len(body) == 1 and isinstance(body[0], ast.Return) and isinstance(body[0].value, ast.Call):
                    f = body[0].value.func
                    name = f.id if isinstance(f, ast.Name) else (f.attr if isinstance(f, ast.Attribute) else "")
                    ok = bool(name) and name[0].isupper()
            out.append([c.name, bool(ok)])
    ru = ast.parse(open(os.path.join(common.REPO, "cotengra", "reusable.py")).read())
    rc = next(n for n in ru.body if isinstance(n, ast.ClassDef) and n.name == "ReusableOptimizer")
    runs = [n for n in rc.body if isinstance(n, ast.FunctionDef) and n.name == "_run_optimizer"]
    calls = sum(1 for n in ast.walk(runs[-1]) if isinstance(n, ast.Call) and isinstance(n.func, ast.Attribute)
                and n.func.attr == "_get_suboptimizer") if runs else 0
    return {"classes": sorted(out), "calls_in_run_optimizer": calls}


def gen_facts():
    f = extract_facts()
    try:
        fs = extract_subopt_facts()
    except Exception as e:  # noqa
        fs = {"classes": [["<extraction failed>", False]], "calls_in_run_optimizer": 0}
    try:
        fi = extract_iface_facts()
    except Exception as e:  # noqa
        fi = {"key_names": [], "bare": [], "calls_hash": True, "returns_tuple": False, "cache_keyed_by_it": False}
    try:
        ff = extract_futures_facts()
    except Exception as e:  # noqa  (the obligation then fails: nothing can be said about the source)
        ff = {"class_mutables": ["<extraction failed: %s>" % type(e).__name__], "fresh_per_search": False,
              "rebinders": [], "foreign_uses": []}

    def lst(xs):
        return "[" + ", ".join(json.dumps(x) for x in xs) + "]"

    pres = ", ".join(f'("{k}", {lst(v)})' for k, v in f["presets"].items())

    def split(d):
        d = d[len("self."):]
        if "[" in d:
            a, k = d.split("[", 1)
            return a, k.rstrip("]")
        return d, ""

    autos = ", ".join("(%s, %s)" % (json.dumps(a), json.dumps(k)) for a, k in map(split, f["auto_stores"]))
    src = f"""-- GENERATED by harness/c16.py (gen_facts) from the AST of cotengra/pathfinders/path_basic.py,
-- cotengra/reusable.py and cotengra/presets.py on every run of ./check C16. Do not edit.
namespace Cotengra.Generated.C16

/-- preset optimizer class -> stores through `self` in search / __call__ / ssa_path -/
def presetStores : List (String × List String) := [{pres}]

/-- stores through `self` on the query path of `ReusableOptimizer`
    (`<ident>` = a name bound to `threading.get_ident()`) -/
def reusableStores : List String := {lst(f["reusable_stores"])}

/-- `last_opt` looks up `threading.get_ident()` -/
def lastOptReadsIdent : Bool := {"true" if f["last_opt_reads_ident"] else "false"}

/-- stores through `self` in `AutoOptimizer.search / __call__ / _get_optimizer_hyper_threadsafe`:
    (attribute, subscript key or "" for a plain attribute store) -/
def autoStores : List (String × String) := [{autos}]

/-- class-level mutable containers of `HyperOptimizer` (and subclasses, hyper.py) that instances
    mutate in place through `self.<name>` -/
def hyperClassMutables : List String := {lst(ff["class_mutables"])}

/-- `_gen_results_parallel` starts with `self._futures = <fresh empty container>` (before any
    other use of `self._futures`) -/
def futuresFreshPerSearch : Bool := {"true" if ff["fresh_per_search"] else "false"}

/-- methods of `HyperOptimizer` that (re)bind `self._futures` -/
def futuresRebinders : List String := {lst(ff["rebinders"])}

/-- methods that reach `_futures` other than through `self` -/
def futuresForeignUses : List String := {lst(ff["foreign_uses"])}

/-- subclass of `ReusableOptimizer` -> its `_get_suboptimizer` is a single `return <Class>(...)` -/
def suboptFreshPerCall : List (String × Bool) := [{", ".join('("%s", %s)' % (c, "true" if b else "false") for c, b in fs["classes"])}]

/-- number of `self._get_suboptimizer()` calls in `ReusableOptimizer._run_optimizer` -/
def suboptCallsPerRun : Nat := {fs["calls_in_run_optimizer"]}

/-- `interface.hash_contraction` has a single `return` of a tuple display -/
def ifaceKeyReturnsTuple : Bool := {"true" if fi["returns_tuple"] else "false"}

/-- which of its parameters enter that tuple -/
def ifaceKeyNames : List String := {lst(fi["key_names"])}

/-- which enter it as they are (a bare name as tuple element) -/
def ifaceKeyBare : List String := {lst(fi["bare"])}

/-- it calls `hash(...)` / `id(...)` -/
def ifaceKeyCallsHash : Bool := {"true" if fi["calls_hash"] else "false"}

/-- `array_contract_path` indexes `_PATH_CACHE` with `key = hash_contraction(...)` -/
def ifaceCacheKeyedByIt : Bool := {"true" if fi["cache_keyed_by_it"] else "false"}

end Cotengra.Generated.C16
"""
    return {"CotengraVerif/Generated/FactsC16.lean": src}


# ------------------------------------------------------------------------------------------
#  protocol
# ------------------------------------------------------------------------------------------

def replay_case(case):
    kind = case["kind"]
    if kind == "nested":
        from . import c16_nest
        return c16_nest.replay_case(case)
    if kind == "iface":
        from . import c16_iface
        return c16_iface.replay_case(case)
    if kind == "policy-flip":
        try:
            bad = policy_flip_case(case)
        except Exception as e:  # noqa: BLE001
            bad = ("raises-" + type(e).__name__, str(e)[:160])
        return bad is None, {"site": "Reusable policy attributes changed on a live object",
                             "kind": bad[0] if bad else None}, bad
    if kind == "schedule":
        sched = list(case["schedule"])
        try:        # warm-up, see run()
            run_threads(case["mode"], [[3, 0]], None, free=True, instr="none")
        except Exception:
            pass

        def chooser(enabled, k):
            if k < len(sched) and sched[k] in enabled:
                return sched[k]
            return enabled[0]

        instr = case.get("instr", "private")
        bad = None
        # the schedule is forced, but the sub-optimizers draw their trials at random: a failure
        # that depends on which trial wins shows up in some of the repetitions only
        for _ in range(6):
            try:
                obs = run_threads(case["mode"], case["programs"], chooser, instr=instr)
            except InstrumentationError:
                # the schedule was recorded at the private yield points, which are gone: the same
                # programs under every public-hook interleaving instead
                return replay_public_all(case["mode"], case["programs"])
            bad = oracle(case["programs"], obs, case["mode"])
            if bad is not None:
                break
        return bad is None, (signature(case["mode"], case["programs"], bad) if bad else None), bad
    if kind == "stress":
        # a stress failure depends on the OS schedule: try a number of times
        for _ in range(30):
            old = sys.getswitchinterval()
            sys.setswitchinterval(1e-6)
            try:
                obs = run_threads(case["mode"], case["programs"], free=True, use_call=case.get("call", False),
                                  instr="none")
            finally:
                sys.setswitchinterval(old)
            bad = oracle(case["programs"], obs, case["mode"])
            if bad is not None:
                return False, signature(case["mode"], case["programs"], bad), bad
        return True, None, None
    if kind == "presets":
        for _ in range(10):
            res = presets_run(case["programs"], len(case["programs"]) > 1)
            for i, per in enumerate(res):
                for ent, (_, got) in zip(case["programs"][i], per):
                    name, nid = ent[0], ent[1]
                    if got is not None and got != nid:
                        return False, {"site": "array_contract_tree", "optimizer": "preset:" + name,
                                       "kind": "tree-of-another-contraction"}, ("tree-of-another-contraction", [nid, got])
        return True, None, None
    raise ValueError(kind)


def replay_public_all(mode, programs, max_runs=400):
    """Oracle over every interleaving of the public yield points (no ctx)."""
    if mode not in PUBLIC_MODES:
        return True, None, None
    prefix, runs = [], 0
    while runs < max_runs:
        pf = list(prefix)

        def chooser(enabled, k, pf=pf):
            return enabled[pf[k]] if k < len(pf) and pf[k] < len(enabled) else enabled[0]

        obs = run_threads(mode, programs, chooser, instr="public")
        runs += 1
        bad = oracle(programs, obs, mode)
        if bad is not None:
            return False, signature(mode, programs, bad), bad
        pos = [en.index(ch) for en, ch in zip(obs["enabled"], obs["schedule"])]
        k = len(pos) - 1
        while k >= 0 and pos[k] + 1 >= len(obs["enabled"][k]):
            k -= 1
        if k < 0:
            break
        prefix = pos[:k] + [pos[k] + 1]
    return True, None, None


def random_programs(rng, nthreads, maxq, mode):
    progs = []
    for _ in range(nthreads):
        k = rng.randint(1, maxq)
        if mode.startswith("auto"):
            progs.append([rng.choice([0, 1, 3, 3, 4, 5, 6]) for _ in range(k)])
        else:
            progs.append([rng.choice([0, 3, 3, 4, 7]) for _ in range(k)])
    return progs


def policy_flip_case(case):
    """One live Reusable* object whose *policy attributes* (`overwrite`, `cache_only`) are changed between queries
    (they are plain public attributes). Whatever the combination does -- answer from the cache, search again, or refuse
    with KeyError -- a tree that is returned must be a tree of the contraction asked. Oracle only.
    Returns None or (kind, detail)."""
    import warnings
    warnings.simplefilter("ignore")
    if case["cls"] == "rgreedy":
        opt = ReusableRandomGreedyOptimizer(max_repeats=2, seed=case["seed"], overwrite=case["overwrite0"])
    else:
        opt = ctg.ReusableHyperOptimizer(methods=["greedy"], max_repeats=2, optlib="random", parallel=False,
                                         progbar=False, overwrite=case["overwrite0"], seed=case["seed"])
    for step in case["steps"]:
        if "set" in step:
            for k, v in step["set"].items():
                setattr(opt, k, v)
            continue
        n = POOL[step["q"]]
        try:
            if step.get("api") == "call":
                path = opt(n.sym_inputs(), n.sym_output(), n.sym_sizes())
                ok = c05_valid_path(len(n.inputs), path)
                if not ok:
                    return ("path-of-another-contraction", {"asked": step["q"], "path": [list(p) for p in path]})
            else:
                tree = opt.search(n.sym_inputs(), n.sym_output(), n.sym_sizes())
                got = net_of_tree(tree)
                if got != step["q"] and not (got >= 0 and KEY[got] == KEY[step["q"]] and
                                             [sorted(t) for t in tree.inputs] == [sorted(t) for t in n.sym_inputs()]):
                    return ("tree-of-another-contraction", {"asked": step["q"], "returned": got, "N": tree.N})
        except KeyError:
            continue      # a refusal (cache_only) is not an answer
    return None


def c05_valid_path(n, path):
    for s in path:
        if not s or len(set(s)) != len(s) or any((not isinstance(i, int)) or i < 0 or i >= n for i in s):
            return False
        n = n - len(s) + 1
    return n == 1


def gen_policy_flip(rng):
    steps = []
    for _ in range(rng.randint(2, 4)):
        steps.append({"q": rng.choice([3, 4, 5, 6, 7]), "api": rng.choice(["search", "search", "call"])})
    steps.append({"set": {rng.choice(["cache_only", "cache_only", "overwrite"]): rng.choice([True, True, False, "improved"])}})
    for _ in range(rng.randint(2, 4)):
        if rng.random() < 0.25:
            steps.append({"set": {rng.choice(["cache_only", "overwrite"]): rng.choice([True, False, "improved"])}})
        steps.append({"q": rng.choice([3, 4, 5, 6, 7]), "api": rng.choice(["search", "search", "call"])})
    for st in steps:
        if "set" in st and "cache_only" in st["set"]:
            st["set"]["cache_only"] = bool(st["set"]["cache_only"])
    return {"kind": "policy-flip", "cls": rng.choice(["hyper", "hyper", "rgreedy"]),
            "overwrite0": rng.choice([False, True, True, "improved"]), "seed": rng.randrange(1 << 30), "steps": steps}


def stream_policy_flip(ctx, n):
    for _ in range(n):
        if ctx.time_left() < 30:
            return
        case = gen_policy_flip(ctx.rng)
        ctx.case(case, nontrivial=True, sample=False)
        ctx.count("policy-flip:" + case["cls"])
        try:
            bad = policy_flip_case(case)
        except Exception as e:  # noqa: BLE001
            bad = ("raises-" + type(e).__name__, str(e)[:160])
        if bad is not None:
            ctx.violation({"site": "Reusable policy attributes changed on a live object", "kind": bad[0]},
                          {"case": case, "failed": [bad[0], bad[1]]},
                          "policy flip history: %s %s" % (bad[0], str(bad[1])[:200]))
            return


def run(ctx, drv):
    quick = ctx.tier == "quick"
    rng = ctx.rng
    ctx.notes["pool"] = {"hardness": [round(h, 1) for h in HARDNESS], "cutoff": CUTOFF, "keys": KEY}
    # corpus first
    for path in sorted(glob.glob(os.path.join(common.VERIF, "corpus", "C16", "*.json"))):
        obj = json.load(open(path))
        case = obj.get("replay", obj).get("case")
        holds, sig, bad = replay_case(case)
        ctx.count("corpus_replayed")
        ctx.case(case, nontrivial=True, sample=False)
        if not holds:
            ctx.violation(sig, {"case": case, "failed": [bad[0], bad[1]], "corpus": os.path.basename(path)},
                          f"corpus case {os.path.basename(path)} fails again: {bad[0]} {bad[1]}")
    try:
        ctx.notes["facts_extracted"] = extract_facts()
        ctx.notes["facts_extracted"]["futures"] = extract_futures_facts()
        ctx.notes["facts_extracted"]["iface_key"] = extract_iface_facts()
        ctx.notes["facts_extracted"]["suboptimizer"] = extract_subopt_facts()
    except Exception as e:
        ctx.obligation("fact extraction from reusable.py / presets.py / path_basic.py", False, repr(e))

    stream_policy_flip(ctx, 40 if quick else 600)

    # warm-up (lazy imports, pools, compiled helpers): the controller takes a thread that does not
    # reach a yield point within `Controller.block_timeout` for blocked
    for mode in MODES:
        try:
            run_threads(mode, [[3, 0]], None, free=True, instr="none")
        except Exception:
            pass

    # E1: every interleaving of small programs
    ex = [("reusable-improved", [[4, 3, 4]]), ("reusable-improved", [[3, 4, 3]]), ("reusable-no", [[3], [3]]), ("reusable-no", [[3], [4]]), ("reusable-yes", [[3], [3]]),
          ("reusable-cacheonly", [[3], [3]]), ("reusable-rgreedy", [[4], [4]]), ("reusable-rgreedy", [[3], [4]]),
          ("auto-cached", [[3], [3]]), ("auto-plain", [[3], [4]]), ("reusable-no", [[3], [7]]),
          ("reusable-improved", [[3], [3]])]
    if not quick:
        ex += [("reusable-no", [[3, 4], [4]]), ("reusable-improved", [[3, 3], [3]]),
               ("auto-cached", [[3, 0], [3], [1]]), ("reusable-no", [[3], [3], [3]]),
               ("auto-plain", [[3, 0], [4], [1, 1]]), ("reusable-yes", [[3, 3], [3]])]
    all_done = True
    exnotes = []
    for mode, programs in ex:
        runs, complete = explore_all(ctx, drv, mode, programs, max_runs=1500 if quick else 40000)
        exnotes.append({"mode": mode, "programs": programs, "interleavings": runs, "complete": complete})
        all_done = all_done and complete
    ctx.notes["exhaustive_interleavings"] = exnotes
    ctx.exhaustive = False  # the property's space (all programs) is infinite; see notes for the finite parts

    # W: window schedules -- another thread's whole query between two consecutive yield points of
    # this one -- for every mode: at the shared-access yield points (with the model), and at every
    # source line of the methods of reusable.py / presets.py (`sys.settrace`, no private name)
    wn = 0
    for mode in MODES + ("reusable-rgreedy+dir", "reusable-no+b+dir+flat", "reusable-improved+b"):
        for programs in ([[3], [4]], [[4], [3]]) if not mode.startswith("auto") else ([[3], [4]],):
            wn += check_windows(ctx, drv, mode, programs, "private")
    tmodes = ("reusable-no", "reusable-rgreedy", "auto-cached") if quick else MODES
    for mode in tmodes:
        for programs in ([[3], [4]],) if quick else ([[3], [4]], [[4], [3]], [[3, 4], [4]]):
            wn += check_windows(ctx, None, mode, programs, "trace", tag="line-window")
    ctx.notes["window_schedules"] = wn

    # P: the same kind of exploration through *public* hooks only (a user-supplied Objective whose
    # calls are the yield points; one of them sits between "search recorded" and "tree fetched")
    pub = [("reusable-no", [[3], [4]]), ("reusable-yes", [[4], [3]]), ("reusable-improved", [[3], [4]]),
           ("auto-cached", [[3], [4]]), ("auto-plain", [[3], [4]]), ("reusable-no", [[3, 4], [4]])]
    if not quick:
        pub += [("reusable-no", [[3], [4], [5]]), ("reusable-yes", [[3, 4], [4, 3]]),
                ("reusable-improved", [[3, 4, 3], [4]])]
    pnotes = []
    for mode, programs in pub:
        runs, complete = explore_all(ctx, None, mode, programs, max_runs=400 if quick else 5000,
                                     tag="public-exhaustive", instr="public")
        pnotes.append({"mode": mode, "programs": programs, "interleavings": runs, "complete": complete})
    ctx.notes["public_hook_interleavings"] = pnotes
    for _ in range(150 if quick else 2000):
        if ctx.time_left() < 60:
            break
        mode = rng.choice(PUBLIC_MODES)
        programs = [[rng.choice([3, 3, 4, 5, 6, 7]) for _ in range(rng.randint(1, 3))]
                    for _ in range(rng.choice([2, 2, 3]))]
        import random as _r
        r3 = _r.Random(rng.randrange(1 << 30))
        check_schedule(ctx, None, mode, programs, lambda en, k, r3=r3: r3.choice(en), "public-random",
                       instr="public")

    # E2: random programs x random schedules
    n2 = 1200 if quick else 9000
    for _ in range(n2):
        if ctx.time_left() < 60:
            break
        mode = rng.choice(MODES)
        nth = rng.choice([1, 2, 2, 3])
        programs = random_programs(rng, nth, 3, mode)
        if mode.startswith("reusable"):       # options: fingerprint method, disk cache, flat directory
            if rng.random() < 0.25:
                mode += "+b"
            if rng.random() < 0.12:
                mode += "+dir" + ("+flat" if rng.random() < 0.4 else "")
        seed = rng.randrange(1 << 30)
        import random as _r
        r2 = _r.Random(seed)
        check_schedule(ctx, drv, mode, programs, lambda en, k, r2=r2: r2.choice(en), "random")

    # E3: sequential histories with revisits on one thread (X, Y, X ...), every mode
    for i in range(240 if quick else 2500):
        if ctx.time_left() < 45:
            break
        mode = MODES[i % len(MODES)]
        ids = [3, 4, 5, 6, 7] if mode.startswith("reusable") else [0, 1, 3, 4, 5, 6]
        a, b = rng.sample(ids, 2)
        hist = [a, b, a] + [rng.choice([a, b, rng.choice(ids)]) for _ in range(rng.randint(0, 3))]
        check_schedule(ctx, drv, mode, [hist], None, "sequential")

    # N: re-entrant (nested) queries -- Model/ReuseNest.lean, driver op c16.nrun
    from . import c16_nest, c16_pool
    c16_nest.run(ctx, drv)
    # Q: overlapping pool-parallel sub-searches -- Model/ReusePool.lean, driver op c16.pool
    c16_pool.run(ctx, drv)
    # I: the path cache of the functional interface -- Model/ReuseIface.lean, driver op c16.iface
    from . import c16_iface
    c16_iface.run(ctx, drv)

    # S: free-running stress, sequential reuse, presets
    ns = 64 if quick else 800
    for i in range(ns):
        if ctx.time_left() < 30:
            break
        mode = MODES[i % len(MODES)]
        stress(ctx, mode, nthreads=rng.choice([2, 4, 6]), nq=rng.randint(3, 6), use_call=(i % 5 == 4))
    for i in range(16 if quick else 160):
        if ctx.time_left() < 20:
            break
        check_presets(ctx, 1 if i % 2 == 0 else 4, 6)

    # the Lean counter-example history of 7k on the implementation: one thread, a cheap hard
    # contraction then a dearer one, non-caching AutoOptimizer
    check_schedule(ctx, drv, "auto-plain", [[3, 5]], None, "witness-7k")
    check_schedule(ctx, drv, "auto-plain", [[3, 6, 4]], None, "witness-7k")


def search(ctx):
    """Implementation-only search that needs no private attribute: interleavings forced through the
    public hook (user-supplied Objective), all of them for small programs and random ones for
    larger, plus free-running stress on the plain objects."""
    import random as _r
    rng = ctx.rng
    found = False
    from . import c16_nest, c16_pool
    if c16_nest.search(ctx):
        return True
    if c16_pool.search(ctx):
        return True
    from . import c16_iface
    if c16_iface.search(ctx):
        return True

    def report(mode, programs, case, bad):
        sig = signature(mode, programs, bad)
        sig["found_by"] = "search"
        return ctx.violation(sig, {"case": case, "failed": [bad[0], bad[1]]},
                             f"failing input found by search: {mode}: {bad[0]} {bad[1]}")

    # 0. window schedules at source-line granularity (sys.settrace: no private name), every mode
    for mode in MODES:
        for programs in ([[3], [4]], [[4], [3]]):
            if ctx.time_left() < 10:
                break
            obs0 = run_threads(mode, programs, None, instr="trace")
            counts = [obs0["schedule"].count(t) for t in range(2)]
            for ch in [None] + window_choosers(programs, counts):
                obs = obs0 if ch is None else run_threads(mode, programs, ch, instr="trace")
                bad = oracle(programs, obs, mode)
                if bad is not None:
                    case = {"kind": "schedule", "mode": mode, "programs": programs,
                            "schedule": obs["schedule"], "instr": "trace"}
                    return bool(report(mode, programs, case, bad))

    # 1. every public-hook interleaving of two threads asking different uncached contractions
    for mode in PUBLIC_MODES:
        for programs in ([[3], [4]], [[4], [3]], [[3, 4], [4]]):
            if found or ctx.time_left() < 10:
                break
            prefix = []
            for _ in range(400):
                pf = list(prefix)
                obs = run_threads(mode, programs, lambda en, k, pf=pf: en[pf[k]] if k < len(pf) and pf[k] < len(en)
                                  else en[0], instr="public")
                bad = oracle(programs, obs, mode)
                if bad is not None:
                    case = {"kind": "schedule", "mode": mode, "programs": programs,
                            "schedule": obs["schedule"], "instr": "public"}
                    found = bool(report(mode, programs, case, bad))
                    break
                pos = [en.index(ch) for en, ch in zip(obs["enabled"], obs["schedule"])]
                k = len(pos) - 1
                while k >= 0 and pos[k] + 1 >= len(obs["enabled"][k]):
                    k -= 1
                if k < 0:
                    break
                prefix = pos[:k] + [pos[k] + 1]
    # 2. random programs: public-hook schedules and free-running stress
    for i in range(3000):
        if ctx.time_left() < 10 or found:
            break
        if i % 3 == 2:
            mode = rng.choice(MODES)
            programs = random_programs(rng, rng.choice([2, 3, 4]), 4, mode)
            case = {"kind": "stress", "mode": mode, "programs": programs, "call": False}
            old = sys.getswitchinterval()
            sys.setswitchinterval(1e-6)
            try:
                obs = run_threads(mode, programs, free=True, instr="none")
            finally:
                sys.setswitchinterval(old)
        else:
            mode = rng.choice(PUBLIC_MODES)
            programs = [[rng.choice([3, 3, 4, 5, 6, 7]) for _ in range(rng.randint(1, 3))]
                        for _ in range(rng.choice([1, 2, 3]))]
            r2 = _r.Random(rng.randrange(1 << 30))
            obs = run_threads(mode, programs, lambda en, k: r2.choice(en), instr="public")
            case = {"kind": "schedule", "mode": mode, "programs": programs, "schedule": obs["schedule"],
                    "instr": "public"}
        bad = oracle(programs, obs, mode)
        if bad is not None:
            found = bool(report(mode, programs, case, bad))
    return found


def replay(ctx, obj):
    for m in ("reusable-no", "reusable-rgreedy", "auto-cached"):       # warm-up, see run()
        try:
            run_threads(m, [[3, 0]], None, free=True, instr="none")
        except Exception:
            pass
    holds, sig, bad = replay_case(obj["case"])
    if not holds:
        print("#", bad[0], bad[1])
    return holds
