"""Shared plumbing for every property check.

  * Ctx        -- evidence accumulation, VIOLATION / KNOWN-FINDING protocol, replay files
  * Lean glue  -- `lake build` of the targets a property needs, forbidden-token scan,
                  `#print axioms` audit of every property theorem
  * Driver     -- line protocol to the compiled Lean model driver

Everything random derives from one `random.Random(VERIF_SEED)`.
"""

import fcntl
import hashlib
import json
import os
import random
import re
import signal
import subprocess
import sys
import time

VERIF = os.path.dirname(os.path.dirname(os.path.abspath(__file__)))
LEAN = os.path.join(VERIF, "lean")
REPO = os.environ.get("COTENGRA_REPO", "/repo")
PY = os.environ.get("COTENGRA_PY", "/venv/bin/python")
GUARD = "COTENGRA_VERIF"
ALLOWED_AXIOMS = {"propext", "Classical.choice", "Quot.sound"}
FORBIDDEN = re.compile(
    r"\bsorry\b|\badmit\b|^\s*axiom\s|native_decide|bv_decide|implemented_by|"
    r"\bunsafe\s|maxHeartbeats\s+0\b|\bpartial\s+def\b"
)

if REPO not in sys.path:
    sys.path.insert(0, REPO)
os.environ.setdefault(GUARD, "1")


class Timeout(Exception):
    pass


def _strip_comments(src):
    """Remove `--` line comments and (nested) `/- -/` block comments from Lean source."""
    out = []
    i, n, depth = 0, len(src), 0
    while i < n:
        if src.startswith("/-", i):
            depth += 1
            i += 2
        elif depth and src.startswith("-/", i):
            depth -= 1
            i += 2
        elif depth:
            if src[i] == "\n":
                out.append("\n")
            i += 1
        elif src.startswith("--", i):
            while i < n and src[i] != "\n":
                i += 1
        else:
            out.append(src[i])
            i += 1
    return "".join(out)


def lean_source_scan(subdirs=("CotengraVerif/Model", "CotengraVerif/Lemmas", "CotengraVerif/Props",
                              "CotengraVerif/Generated")):
    """Forbidden tokens outside comments in model / lemma / property files.
    (`partial def` is only tolerated in the Driver plumbing, which no theorem mentions.)"""
    hits = []
    for sd in subdirs:
        root = os.path.join(LEAN, sd)
        if not os.path.isdir(root):
            continue
        for dp, _, fns in os.walk(root):
            for fn in fns:
                if not fn.endswith(".lean"):
                    continue
                p = os.path.join(dp, fn)
                code = _strip_comments(open(p).read())
                for ln, line in enumerate(code.split("\n"), 1):
                    if FORBIDDEN.search(line):
                        hits.append(f"{os.path.relpath(p, LEAN)}:{ln}: {line.strip()[:120]}")
    return hits


class _Lock:
    def __init__(self):
        os.makedirs(os.path.join(LEAN, ".lake"), exist_ok=True)
        self.path = os.path.join(LEAN, ".lake", "verif.lock")

    def __enter__(self):
        self.f = open(self.path, "w")
        fcntl.flock(self.f, fcntl.LOCK_EX)

    def __exit__(self, *a):
        fcntl.flock(self.f, fcntl.LOCK_UN)
        self.f.close()


def lake_build(targets, timeout=1500):
    """Build the given lake targets. Returns (ok, log)."""
    with _Lock():
        try:
            r = subprocess.run(["lake", "build", *targets], cwd=LEAN, capture_output=True,
                               text=True, timeout=timeout)
        except subprocess.TimeoutExpired:
            return False, "lake build timed out"
    log = r.stdout + r.stderr
    return r.returncode == 0, log


def lean_audit(prop, modules, theorems, timeout=900):
    """`#print axioms` for each theorem. Returns dict name -> (ok, detail)."""
    os.makedirs(os.path.join(LEAN, ".lake", "audit"), exist_ok=True)
    path = os.path.join(LEAN, ".lake", "audit", f"{prop}.lean")
    with open(path, "w") as f:
        for m in modules:
            f.write(f"import {m}\n")
        for t in theorems:
            f.write(f"#print axioms {t}\n")
    try:
        r = subprocess.run(["lake", "env", "lean", path], cwd=LEAN, capture_output=True,
                           text=True, timeout=timeout)
    except subprocess.TimeoutExpired:
        return {t: (False, "audit timed out") for t in theorems}
    out = r.stdout + r.stderr
    res = {}
    # messages may wrap over several lines; normalise whitespace
    flat = re.sub(r"\s+", " ", out)
    for t in theorems:
        m = re.search(r"'" + re.escape(t) + r"' depends on axioms: \[([^\]]*)\]", flat)
        if m:
            axs = {a.strip() for a in m.group(1).split(",") if a.strip()}
            bad = axs - ALLOWED_AXIOMS
            res[t] = (not bad, "axioms: " + ", ".join(sorted(axs)))
        elif re.search(r"'" + re.escape(t) + r"' does not depend on any axioms", flat):
            res[t] = (True, "axioms: none")
        else:
            res[t] = (False, "not found / does not compile")
    return res


class Driver:
    """Compiled Lean model driver, one JSON object per line each way."""

    def __init__(self):
        exe = os.path.join(LEAN, ".lake", "build", "bin", "driver")
        if not os.path.exists(exe):
            raise RuntimeError("driver not built")
        self.p = subprocess.Popen([exe], stdin=subprocess.PIPE, stdout=subprocess.PIPE,
                                  text=True, bufsize=1)
        self.calls = 0

    def call(self, op, **kw):
        kw["op"] = op
        self.p.stdin.write(json.dumps(kw) + "\n")
        self.p.stdin.flush()
        line = self.p.stdout.readline()
        if not line:
            raise RuntimeError(f"driver died on op {op}")
        self.calls += 1
        return json.loads(line)

    def close(self):
        try:
            self.p.stdin.close()
            self.p.wait(timeout=5)
        except Exception:
            self.p.kill()


def load_known():
    p = os.path.join(VERIF, "known_findings.json")
    if not os.path.exists(p):
        return []
    return json.load(open(p))["findings"]


def _sig_match(entry_match, sig):
    return all(sig.get(k) == v for k, v in entry_match.items())


class Ctx:
    def __init__(self, prop, tier, seed, level="proof"):
        self.prop = prop
        self.tier = tier
        self.seed = seed
        self.level = level
        self.rng = random.Random(f"{prop}/{seed}")
        self.t0 = time.time()
        self.evaluations = 0
        self._distinct = set()
        self.samples = []
        self.dist = {}
        self.obligations = []      # (name, ok, detail)
        self.trusted = []
        self.assumptions = []
        self.rule = ""
        self.violations = 0
        self.known_hits = []
        self.notes = {}
        self.exhaustive = False
        self.traces = 0
        self.checker_cmd = ""
        self.budget_s = None
        self._known = load_known()
        self._reported = set()

    # ---- evidence ------------------------------------------------------------------
    def count(self, key, k=1):
        self.dist[key] = self.dist.get(key, 0) + k

    def case(self, obj, nontrivial=True, sample=True):
        """Record one explored case. `obj` must be JSON-serialisable; distinctness is by
        content hash, and only non-trivial cases enter `distinct_nontrivial`."""
        self.evaluations += 1
        if nontrivial:
            h = hashlib.sha1(json.dumps(obj, sort_keys=True, default=str).encode()).hexdigest()
            self._distinct.add(h)
        if sample and len(self.samples) < 3:
            self.samples.append(obj)

    def corr_broken(self, what, case=None):
        """Model and implementation disagree on `case` (the caller has already asked the
        implementation-side oracle about it and reported a violation if that failed)."""
        lst = self.notes.setdefault("correspondence_broken", [])
        self.notes["correspondence_broken_count"] = self.notes.get("correspondence_broken_count", 0) + 1
        if len(lst) < 5:
            lst.append({"what": what[:300], "case": json.dumps(case, default=str)[:1500]})

    def obligation(self, name, ok, detail=""):
        self.obligations.append((name, bool(ok), detail))

    def time_left(self):
        if self.budget_s is None:
            return 1e9
        return self.budget_s - (time.time() - self.t0)

    # ---- reporting -----------------------------------------------------------------
    def violation(self, signature, replay, what, no_input=False):
        """Report a violation (or a known finding). `signature` is a small dict naming the call
        site and the minimal input class; `replay` is a self-contained JSON object."""
        key = json.dumps(signature, sort_keys=True, default=str)
        for e in self._known:
            if e.get("property") == self.prop and e.get("kind") == "known" and \
                    _sig_match(e["match"], signature):
                if key not in self._reported:
                    self._reported.add(key)
                    self.known_hits.append(e["what"])
                    print(f"KNOWN-FINDING: property={self.prop} {e['what']}", flush=True)
                return False
        if key in self._reported:
            return True
        self._reported.add(key)
        self.violations += 1
        os.makedirs(os.path.join(VERIF, "replays"), exist_ok=True)
        body = {"property": self.prop, "signature": signature, "what": what, "replay": replay,
                "seed": self.seed, "tier": self.tier}
        h = hashlib.sha1(json.dumps(body, sort_keys=True, default=str).encode()).hexdigest()[:10]
        path = os.path.join("replays", f"{self.prop}-{h}.json")
        with open(os.path.join(VERIF, path), "w") as f:
            json.dump(body, f, indent=1, default=str)
        tail = " no-failing-input-found" if no_input else ""
        print(f"# {what}", flush=True)
        print(f"VIOLATION property={self.prop} replay={path}{tail}", flush=True)
        return True

    def write_evidence(self):
        n_ob = len(self.obligations)
        n_ok = sum(1 for _, ok, _ in self.obligations if ok)
        cov = {
            "evaluations": self.evaluations,
            "distinct_nontrivial": len(self._distinct),
            "rule": self.rule,
            "samples": self.samples[:3] or ["(no generated case this run)"],
            "obligations": n_ob,
            "discharged": n_ok,
            "obligation_list": [{"name": n, "discharged": ok, "detail": d}
                                for n, ok, d in self.obligations],
            "checker_cmd": self.checker_cmd,
            "trusted_base": self.trusted,
            "traces_validated_against_impl": self.traces,
            "distribution": self.dist,
            "known_findings_hit": self.known_hits,
            "exhaustive": self.exhaustive,
        }
        cov.update(self.notes)
        ev = {
            "property_id": self.prop,
            "tier": self.tier,
            "seed": self.seed,
            "level": self.level,
            "coverage": cov,
            "assumptions": self.assumptions,
            "wall_s": round(time.time() - self.t0, 2),
            "violations": self.violations,
        }
        # evidence/ always describes /repo itself: a run pointed at another checkout (COTENGRA_REPO, used to
        # try a check against a modified copy) leaves its record under replays/ (not committed)
        sub = "evidence" if os.path.realpath(REPO) == "/repo" else os.path.join("replays", "evidence-other-checkout")
        os.makedirs(os.path.join(VERIF, sub), exist_ok=True)
        with open(os.path.join(VERIF, sub, f"{self.prop}.json"), "w") as f:
            json.dump(ev, f, indent=1, default=str)


def install_alarm(seconds):
    def _h(sig, frm):
        raise Timeout()
    signal.signal(signal.SIGALRM, _h)
    signal.alarm(int(seconds))


def repo_fingerprint():
    """sha1 over the cotengra sources the checks read (recorded in the evidence)."""
    h = hashlib.sha1()
    root = os.path.join(REPO, "cotengra")
    for dp, dn, fns in sorted(os.walk(root)):
        dn.sort()
        for fn in sorted(fns):
            if fn.endswith(".py"):
                h.update(open(os.path.join(dp, fn), "rb").read())
    return h.hexdigest()[:12]


# ---- source-change sensitivity -----------------------------------------------------------------
# The models are hand-written and validated against the text of /repo that was current when the
# committed evidence was produced. `anchors.json` (tools/mkanchors.py) records a comment- and
# docstring-insensitive hash of every cotengra source file at that moment. When a file a property is
# anchored in has a different hash now, the model's validation is stale for that text: the check
# then always runs the deeper implementation-side failing-input search as well (never a violation
# by itself).

def source_hashes(repo=None):
    import ast

    def strip(node):
        for n in ast.walk(node):
            if isinstance(n, (ast.FunctionDef, ast.AsyncFunctionDef, ast.ClassDef, ast.Module)):
                b = n.body
                if b and isinstance(b[0], ast.Expr) and isinstance(getattr(b[0], "value", None), ast.Constant) \
                        and isinstance(b[0].value.value, str):
                    n.body = b[1:] or [ast.Pass()]
        return node
    root = os.path.join(repo or REPO, "cotengra")
    out = {}
    for dp, dn, fns in sorted(os.walk(root)):
        dn.sort()
        for fn in sorted(fns):
            if not fn.endswith(".py"):
                continue
            path = os.path.join(dp, fn)
            rel = os.path.relpath(path, repo or REPO)
            try:
                dump = ast.dump(strip(ast.parse(open(path).read())), annotate_fields=False)
            except SyntaxError:
                dump = "syntax-error:" + open(path).read()
            out[rel] = hashlib.sha1(dump.encode()).hexdigest()[:16]
    return out


def anchored_files(prop, mod=None):
    files = set(getattr(mod, "ANCHOR_FILES", []) or [])
    try:
        for line in open(os.path.join(VERIF, "properties.jsonl")):
            p = json.loads(line)
            if p.get("id") == prop:
                files.update(p.get("anchors", {}).get("files", []))
    except OSError:
        pass
    return sorted(files)


def changed_anchor_files(prop, mod=None):
    """Anchored source files of `prop` whose (comment/docstring-insensitive) hash differs from the one
    recorded in anchors.json; [] when there is no record."""
    path = os.path.join(VERIF, "anchors.json")
    if not os.path.exists(path):
        return []
    rec = json.load(open(path)).get("files", {})
    now = source_hashes()
    return [f for f in anchored_files(prop, mod) if rec.get(f) != now.get(f)]

