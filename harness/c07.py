"""C07 -- the slice finder's predicted costs are real and its targets are honoured.

Tie (E): (a) the contraction tuples `ContractionCosts.from_contraction_tree` reads off the real tree
versus the Lean `Slicer.treeCons`; (b) the complete internal state of the real `ContractionCosts`
(`nslices,_flops,size,contractions,_flop_reductions,_write_reductions,_where`) after construction and
after every `remove` of a random chain (including the `KeyError` outcomes) versus `Slicer.Costs.init /
remove`; (c) a whole `SliceFinder.search`: the oracle answers (which index the randomised arg-max chose
at each iteration) are read off the real run through a recording `dict` installed as `sf.costs`, and
the model replays `trial`* / `best` on them: per-trial outcome, the cache (key -> nslices, flops, size,
valid) and the outcome of `best` must coincide (tie-breaks among equal scores are not compared).
Oracle (implementation only): (1) the returned `(ix_sl, cost)` versus the real tree sliced by a
`remove_ind` chain, the specified targets evaluated on that tree, the forbidden set; (2) `tree.slice(...)`
itself for already sliced / projected receivers x reslice x inplace x target kinds x allow_outer: receiver
identity / untouched, figures of the returned tree = fresh tree sliced by hand on its `sliced_inds`, every
specified target on the returned tree ("on top of the current number of slices" for target_slices, overhead
relative to the tree the search starts from); (3) slice_and_reconfigure(_forest) non-inplace.
"""

import json

import cotengra as ctg
from cotengra.slicer import ContractionCosts, SliceFinder

from . import gen, refimpl

PROP = "C07"
LEVEL = "proof"
LEVEL_TEXT = (
    "Lean 4 theorems about a transcription of ContractionCosts / SliceFinder (slicer.py), for every network, "
    "tree, already-removed index set, removal chain, oracle (score/randomness) and target combination: the "
    "incremental cost model equals the tree sliced on the same indices (costs_remove_eq_tree, via the "
    "leaf-set lemma L1 and C03.slice_*), its steering tables stay equal to their definition "
    "(reductions_inv), every cached slicing is a genuine removal chain and avoids the forbidden set "
    "(cache_sound, never_forbidden), and what `best` returns is cached and meets every specified target on "
    "the tree (best_meets_targets); for a finder object that is re-used, after any history of search calls with "
    "any per-call targets (Targets.orElse = _maybe_default) the same holds with the targets in force for the call "
    "(session_cache_sound, session_sound), and for every entry of the list best(k=...) returns (bestK_sound). "
    "The model is tied to /repo on every run by equality correspondence of "
    "the full ContractionCosts state along random removal chains and of whole searches replayed on the "
    "observed oracle answers.")
LEVEL_NOTE = (
    "Trusted: Lean kernel; the hand-written model (validated on the generated cases only); the harness "
    "canonicalisation and its recording dict; the arg-max of the float/Gumbel score is an oracle (any "
    "choice); overhead compared exactly on integers (float division exact below 2^53). Guards: output "
    "indices distinct and present in some input, sizes >= 1, N >= 2.")
TECHNIQUE = ("Lean 4 proof (state invariant of the incremental cost model + L1) + differential "
             "correspondence of ContractionCosts state and SliceFinder searches with slicer.py")
LEAN_MODULES = ["CotengraVerif.Props.C07"]
THEOREMS = [
    "Cotengra.C07.remove_spec",
    "Cotengra.C07.reductions_inv",
    "Cotengra.C07.costs_remove_eq_tree",
    "Cotengra.C07.costs_eq_sliced_tree_stats",
    "Cotengra.C07.cache_sound",
    "Cotengra.C07.never_forbidden",
    "Cotengra.C07.best_meets_targets",
    "Cotengra.C07.search_sound",
    "Cotengra.C07.session_cache_sound",
    "Cotengra.C07.session_sound",
    "Cotengra.C07.orElse_spec",
    "Cotengra.C07.bestK_sound",
    "Cotengra.C07.bestK_sorted_argmin",
    "Cotengra.C07.best_is_argmin",
]
TRUSTED = [
    "Lean 4.33 kernel; axioms within {propext, Classical.choice, Quot.sound}",
    "hand-written model Model/Slicer.lean of slicer.py:17-429 and utils.py:209-276 (MaxCounter), tied by this "
    "differential correspondence on the generated cases only",
    "the randomised arg-max over score_slice_index is an oracle: theorems hold for every choice sequence",
    "harness canonicalisation (symbols -> naturals, python sets -> sorted lists) and the recording dict "
    "installed as SliceFinder.costs",
]
ASSUMPTIONS = [
    "output indices are distinct and each occurs in some input; sizes >= 1; trees with N >= 2",
    "overhead = total_flops / original_flops is compared with the target exactly on integers; the real "
    "float division agrees while the products stay below 2^53 (targets are dyadic fractions)",
    "trees built by from_path (trees produced by simulated_anneal are the lead's finding 7o)",
]
RULE = ("random networks over index kinds {bond,hyper,dangling,out1,outk,all,repeated,batch} x random trees x "
        "0-3 already sliced/projected indices x reslice x inplace x target kind(s)/value x allow_outer in "
        "{True,False,'only'} x "
        "objective x temperature x seed x repeats x 0-3 further search(**per-call targets) calls on the same "
        "finder object; non-trivial = >= 3 tensors and a search that returned a "
        "non-empty slicing or raised; distinct by content hash")
BUDGET = {"quick": 600, "thorough": 3000}

OBJECTIVES = ["flops", "size", "write", "combo", "limit", "combo-256", "limit-4"]


# --------------------------------------------------------------------------------------------
def gen_case(rng, tier):
    nmax = 7 if tier == "quick" else 9
    net = gen.rand_net(rng, nmin=2, nmax=nmax, max_inds=9, dims=(1, 2, 2, 3, 4))
    n = len(net.inputs)
    tree = gen.rand_tree(rng, n)
    inds = net.indices()
    pre = []
    for ix in rng.sample(inds, min(rng.choice([0, 0, 0, 1, 1, 2]), len(inds))):
        pre.append([ix, rng.randrange(net.sizes[ix]) if rng.random() < 0.3 else None])
    kinds = rng.choice([["size"], ["size"], ["size"], ["slices"], ["slices"], ["overhead"], ["overhead"],
                        ["size", "overhead"], ["size", "slices"], ["slices", "overhead"],
                        ["size", "slices", "overhead"]])
    tg = {}
    spec = refimpl.spec_costs(net, tree, [ix for ix, _ in pre], [])
    total = 1
    for ix in inds:
        total *= net.sizes[ix]
    if "size" in kinds:
        tg["size"] = rng.choice([1, 2, 3, 4, 6, 8, 12, 16, 24, 48, 100]) if rng.random() < 0.3 else \
            rng.randint(1, max(1, spec["size"] or 1))
    if "slices" in kinds:
        tg["slices"] = rng.choice([1, 2, 3, 4, 5, 6, 8, 12, 16, 30, 64, 500]) if rng.random() < 0.3 else \
            rng.randint(1, max(1, min(total, 64)))
    if "overhead" in kinds:
        q = rng.choice([1, 2, 4, 8])
        tg["overhead"] = [rng.randint(max(1, q // 2), rng.choice([2, 4, 16]) * q), q]
    reslice = rng.random() < 0.45
    if reslice and not any(pj is None for _, pj in pre) and inds and rng.random() < 0.8:
        # make sure re-slicing has something to undo: at least one genuinely sliced index
        free = [ix for ix in inds if ix not in [i for i, _ in pre]]
        if free:
            pre.append([rng.choice(free), None])
    # further `search(**overrides)` calls on the *same* finder object (its cache persists; a per-call
    # target overrides the constructor's for the trials and for the final selection of that call)
    calls = []
    if rng.random() < 0.5:
        for _ in range(rng.choice([1, 1, 2, 3])):
            over = {}
            for k in rng.sample(["size", "slices", "overhead"], rng.choice([0, 1, 1, 1, 2])):
                tighter = rng.random() < 0.6      # mostly tighter than what the finder was built with
                if k == "size":
                    hi = max(1, spec["size"] or 1)
                    if tighter and "size" in tg:
                        hi = max(1, tg["size"] // rng.choice([2, 2, 3, 4, 8]))
                    over[k] = rng.randint(1, hi)
                elif k == "slices":
                    if tighter and "slices" in tg:
                        over[k] = tg["slices"] * rng.choice([2, 2, 3, 4, 6])
                    else:
                        over[k] = rng.choice([1, 2, 3, 4, 6, 8, 12, 16, 30, 64]) if rng.random() < 0.5 else \
                            rng.randint(1, max(1, min(total, 64)))
                else:
                    q = rng.choice([1, 2, 4, 8])
                    over[k] = [rng.randint(max(1, q // 2), rng.choice([2, 4, 16]) * q), q]
            calls.append({"over": over, "repeats": rng.choice([1, 2, 4, 8]),
                          "temperature": rng.choice([None, None, 0.01, 0.5, 3.0]), "k": rng.choice([0, 0, 1, 2, 3, 10])})
    return {"net": net.json(), "tree": tree, "pre": pre, "targets": tg, "calls": calls,
            "reslice": reslice, "inplace": rng.random() < 0.5,
            "sar": rng.random() < (0.12 if tier == "quick" else 0.08),
            "allow_outer": rng.choice([True, True, False, False, "only"]),
            "minimize": rng.choice(OBJECTIVES), "temperature": rng.choice([0.01, 0.01, 0.3, 2.0]),
            "seed": rng.randrange(1 << 30), "repeats": rng.choice([1, 2, 4, 8, 16]),
            "chain_seed": rng.randrange(1 << 30), "via_info": rng.random() < 0.15,
            # index labels of the tree: single characters, or what a tree built without canonicalisation carries
            "alphabet": rng.choice(["ascii", "ascii", "ascii", "mixed", "shifted", "words", "tuples", "ints"]),
            "k": rng.choice([0, 0, 0, 1, 2, 3, 10])}


class RecDict(dict):
    """dict that records every key it is asked about (`[]`, `in`, `get`, `[]=`; hit or miss), installed as
    `sf.costs`; consecutive repetitions of a key are one access."""

    def __init__(self, *a):
        super().__init__(*a)
        self.log = []

    def _rec(self, k):
        if not self.log or self.log[-1] != k:
            self.log.append(k)

    def __getitem__(self, k):
        self._rec(k)
        return super().__getitem__(k)

    def __contains__(self, k):
        self._rec(k)
        return super().__contains__(k)

    def get(self, k, default=None):
        self._rec(k)
        return super().get(k, default)

    def __setitem__(self, k, v):
        self._rec(k)
        super().__setitem__(k, v)


def build_tree(case):
    gen.set_alphabet(case.get("alphabet", "ascii"), case.get("seed", 0))
    net = gen.Net.from_json(case["net"])
    tree = gen.real_tree(ctg, net, case["tree"])
    for ix, proj in case["pre"]:
        if proj is None:
            tree.remove_ind_(gen.sym(ix))
        else:
            tree.remove_ind_(gen.sym(ix), project=proj)
    return net, tree


def finder_kwargs(case):
    tg = case["targets"]
    kw = {"target_size": tg.get("size"), "target_slices": tg.get("slices"),
          "target_overhead": (tg["overhead"][0] / tg["overhead"][1]) if "overhead" in tg else None,
          "temperature": case["temperature"], "minimize": case["minimize"],
          "allow_outer": case["allow_outer"], "seed": case["seed"]}
    return kw


ERR = {RuntimeError: "RuntimeError", KeyError: "KeyError", ValueError: "ValueError"}


def costs_brief(c):
    sz = c.size
    return {"nslices": int(c.nslices), "flops": int(c.flops),
            "size": None if sz == -float("inf") else int(sz),
            "total_flops": int(c.total_flops), "original_flops": int(c.original_flops)}


def observe(case):
    """Run the real search. Returns the observations needed by oracle and correspondence."""
    net, tree = build_tree(case)
    us = gen.unsym(net)
    obs = {"m0": int(tree.multiplicity), "flops0": int(tree.total_flops()),
           "bt": gen.bt_of_real(tree)}
    if case.get("via_info") and not case["pre"] and case.get("alphabet", "ascii") in ("ascii", "mixed", "shifted"):
        # the finder is handed an `opt_einsum.PathInfo` of the same contraction path instead of the tree
        # (slicer.py:113-117 `ContractionCosts.from_info`); everything is still judged against the tree
        import opt_einsum as oe
        info = oe.contract_path(net.eq(), *net.shapes(), shapes=True, optimize=tree.get_path())[1]
        sf = SliceFinder(info, **finder_kwargs(case))
        obs["via_info"] = True
    else:
        sf = SliceFinder(tree, **finder_kwargs(case))
    rec = RecDict(sf.costs)
    sf.costs = rec
    obs["forbidden"] = sorted(us[i] for i in sf.forbidden)
    obs["cons"] = [{"involved": sorted(us[i] for i in c[0]), "legs": sorted(us[i] for i in c[1]),
                    "size": int(c[2]), "flops": int(c[3])} for c in sf.cost0.contractions]
    obs["size_dict"] = sorted([us[k], int(v)] for k, v in tree.size_dict.items() if k in us)
    def picks_of(log):
        # oracle answers per trial from the lookup log of one call
        trials, cur = [], None
        for k in log:
            if len(k) == 0:
                cur = {"keys": []}
                trials.append(cur)
            else:
                cur["keys"].append(sorted(us[i] for i in k))
        picks = []
        for t in trials:
            prev, ps = set(), []
            for k in t["keys"]:
                new = set(k) - prev
                assert len(new) == 1 and prev <= set(k), (prev, k)
                ps.append(new.pop())
                prev = set(k)
            picks.append(ps)
        return picks

    def one_call(repeats, over, temperature=None, k=0):
        o = {"over": over, "k": k}
        kw = {}
        if temperature is not None:
            kw["temperature"] = temperature
        if "size" in over:
            kw["target_size"] = over["size"]
        if "slices" in over:
            kw["target_slices"] = over["slices"]
        if "overhead" in over:
            kw["target_overhead"] = over["overhead"][0] / over["overhead"][1]
        rec.log = []
        try:
            ix_sl, cost = sf.search(repeats, **kw)
            o["status"] = "ok"
            unknown = [i for i in ix_sl if i not in us]
            if unknown:
                # the search handed back something that is not an index of the network at all
                o["unknown"] = [repr(i) for i in unknown]
                o["ix_sl"] = []
                o["cost"] = costs_brief(cost)
                o["_ix_sl"] = ix_sl
                o["picks"], o["cache"] = None, {}
                return o
            o["ix_sl"] = sorted(us[i] for i in ix_sl)
            o["cost"] = costs_brief(cost)
            o["_ix_sl"] = ix_sl
        except tuple(ERR) as e:
            o["status"] = ERR[type(e)]
        try:
            o["picks"] = picks_of(rec.log)
            o["cache"] = {tuple(sorted(us[i] for i in kk)): costs_brief(v) for kk, v in rec.items()}
        except (KeyError, AssertionError, TypeError):
            # the finder's cache holds keys that are not sets of indices of the network
            o["unknown"] = o.get("unknown") or ["<cache key>"]
            o["picks"], o["cache"] = None, {}
            return o
        if k and o["status"] == "ok":
            # the list interface `best(k=...)` with the same per-call targets
            bkw = {a: b for a, b in kw.items() if a != "temperature"}
            try:
                lst = sf.best(k=k, **bkw)
                o["bestk"] = [{"key": sorted(us[i] for i in kk), "cost": costs_brief(c), "_ix": kk} for kk, c in lst]
            except tuple(ERR) as e:
                o["bestk"] = ERR[type(e)]
        return o

    first = one_call(case["repeats"], {}, k=case.get("k", 0))
    obs.update({k: v for k, v in first.items() if k != "over"})
    # the later calls on the same object (only while the calls return)
    obs["calls"] = []
    for cl in case.get("calls", []):
        if (obs["calls"][-1] if obs["calls"] else first)["status"] != "ok":
            break
        obs["calls"].append(one_call(cl["repeats"], cl["over"], cl.get("temperature"), cl.get("k", 0)))
    return obs, net, tree, sf


def effective_targets(ctor, over):
    """`_maybe_default`: the per-call value where one was given, else the constructor's"""
    tg = dict(ctor)
    tg.update(over or {})
    return tg


def targets_hold(case, m0, flops0, nslices, total_flops, max_size, tg=None):
    tg = case["targets"] if tg is None else tg
    bad = []
    if "size" in tg and not max_size <= tg["size"]:
        bad.append("size")
    if "slices" in tg and not nslices >= tg["slices"] * m0:
        bad.append("slices")
    if "overhead" in tg and not total_flops * tg["overhead"][1] <= tg["overhead"][0] * flops0:
        bad.append("overhead")
    return bad


def oracle_one(case, obs, net, tree, call, tg, tag=""):
    """Property oracle for one returning `search` call: `tg` are the targets in force for it."""
    if call.get("unknown"):
        return (tag + "not-indices-of-the-network", call["unknown"])
    ix_sl = call["_ix_sl"]
    out = set(net.output)
    sl = set(call["ix_sl"])
    if case["allow_outer"] is False and sl & out:
        return (tag + "forbidden-chosen", sorted(sl & out))
    if case["allow_outer"] == "only" and sl - out:
        return (tag + "forbidden-chosen", sorted(sl - out))
    t1 = tree.copy()
    try:
        for ix in ix_sl:
            t1.remove_ind_(ix)
    except Exception as e:      # e.g. an already sliced index was returned
        return (tag + "returned-unsliceable-index", repr(e))
    real = {"nslices": int(t1.nslices), "total_flops": int(t1.total_flops()), "size": int(t1.max_size())}
    c = call["cost"]
    pred = {"nslices": c["nslices"] * obs["m0"], "total_flops": c["total_flops"] * obs["m0"],
            "size": c["size"]}
    if pred != real:
        return (tag + "prediction", {"predicted": pred, "tree": real})
    bad = targets_hold(case, obs["m0"], obs["flops0"], real["nslices"], real["total_flops"], real["size"], tg)
    if bad:
        return (tag + "target:" + "+".join(bad), {"tree": real, "targets_in_force": tg})
    if isinstance(call.get("bestk"), list) and not tag.endswith("best(k):"):
        # every slicing in the list returned by best(k=...) is judged like the one search returned
        for j, ent in enumerate(call["bestk"]):
            sub = {"_ix_sl": ent["_ix"], "ix_sl": ent["key"], "cost": ent["cost"]}
            r = oracle_one(case, obs, net, tree, sub, tg, tag=tag + "best(k):")
            if r is not None:
                return (r[0], {"entry": j, "detail": r[1]})
        sc = [_score(tg, e["cost"]) for e in call["bestk"]]
        if sc != sorted(sc):
            return (tag + "best(k):not-sorted-best-first", sc)
    return None


def _score(tg, c):
    sz = -1 if c["size"] is None else c["size"]
    return [c["total_flops"], c["nslices"], sz] if ("size" in tg or "slices" in tg) else \
        [sz, c["total_flops"], c["nslices"]]


def oracle(case, obs, net, tree):
    """Property oracle on the implementation alone. Returns None or (kind, detail). The first call uses the
    constructor's targets; every later call on the same finder is judged against the targets in force for it
    (per-call value, else the constructor's)."""
    if obs.get("via_info"):
        # the baseline cost model built from the PathInfo must be the tree's: same contraction tuples
        us = gen.unsym(net)
        real = sorted(json.dumps({"involved": sorted(us[i] for i in tree.get_involved(nd)),
                                  "legs": sorted(us[i] for i in tree.get_legs(nd)),
                                  "size": int(tree.get_size(nd)), "flops": int(tree.get_flops(nd))}, sort_keys=True)
                      for nd in tree.info if len(nd) != 1)
        got = sorted(json.dumps(c, sort_keys=True) for c in obs["cons"])
        if real != got:
            return ("from_info:baseline-differs-from-tree", {"finder": obs["cons"][:4], "tree": real[:4]})
    if obs.get("unknown") and obs["status"] != "ok":
        return ("finder-cache-keys-not-indices-of-the-network", obs["unknown"])
    if obs["status"] != "ok":
        return None        # the property only speaks about searches that return
    r = oracle_one(case, obs, net, tree, obs, case["targets"])
    if r is not None:
        return r
    for k, call in enumerate(obs.get("calls", [])):
        if call["status"] != "ok":
            break
        r = oracle_one(case, obs, net, tree, call, effective_targets(case["targets"], call["over"]),
                       tag="reused-finder-call-%d:" % (k + 2))
        if r is not None:
            return r
    return None


class _Hang(Exception):
    pass


# calls that ran into the CPU limit so far (a call that does not return is outside the property; after a few
# of them the expensive oracle is switched off for the rest of the run so that the budget is kept)
_LIMIT_HITS = {"slice": 0, "sar": 0}


def _with_cpu_limit(seconds, fn):
    """Run fn() under a CPU-time limit (SIGVTALRM; the check's own wall-clock alarm uses SIGALRM)."""
    import signal

    def _h(sig, frm):
        raise _Hang()
    old = signal.signal(signal.SIGVTALRM, _h)
    signal.setitimer(signal.ITIMER_VIRTUAL, seconds)
    try:
        return fn()
    finally:
        signal.setitimer(signal.ITIMER_VIRTUAL, 0)
        signal.signal(signal.SIGVTALRM, old)


def _snapshot(t):
    return (tuple((k, si.project) for k, si in t.sliced_inds.items()), int(t.nslices))


def _by_hand(net, case, t2):
    """The fresh (never sliced) tree of the case, sliced / projected by hand on exactly the indices the
    returned tree says it is sliced on."""
    ref = gen.real_tree(ctg, net, case["tree"])
    for ix, si in t2.sliced_inds.items():
        if si.project is None:
            ref.remove_ind_(ix)
        else:
            ref.remove_ind_(ix, project=si.project)
    return ref


def slice_oracle(case, net, tree, counts=None):
    """`tree.slice(...)` itself, through every option combination the property quantifies over: the tree may
    already be sliced / projected (`case["pre"]`), reslice in {False, True}, inplace in {False, True}, any of
    the three target kinds, allow_outer in {True, False, 'only'}. Checked on the *returned* tree:
      * it is the receiver iff inplace; a non-inplace call leaves the receiver as it was;
      * its figures are those of the fresh tree sliced by hand on exactly its `sliced_inds`;
      * every specified target holds on it -- size <= target_size; nslices >= target_slices x (number of slices
        before the call: "on top of the current number of slices", with or without reslice); total flops <=
        target_overhead x the flops of the tree the search started from (the receiver, or, with reslice, the
        fully un-sliced tree);
      * the newly chosen indices avoid the forbidden set.
    A call that raises is outside the property."""
    if _LIMIT_HITS["slice"] >= 3:
        return None
    reslice, inplace = bool(case.get("reslice", False)), bool(case.get("inplace", False))
    us = gen.unsym(net)
    out = set(net.output)
    recv = tree.copy()
    before = _snapshot(recv)
    m0 = int(recv.nslices)
    start = gen.real_tree(ctg, net, case["tree"]) if reslice else tree
    flops_start = int(start.total_flops())
    kw = finder_kwargs(case)
    tag = "slice(reslice=%s,inplace=%s)" % (reslice, inplace)
    try:
        t2 = _with_cpu_limit(10, lambda: recv.slice(max_repeats=case["repeats"], reslice=reslice,
                                                     inplace=inplace, **kw))
    except tuple(ERR) as e:
        if counts is not None:
            counts("slice_raises:" + ERR[type(e)])
        return None
    except _Hang:
        _LIMIT_HITS["slice"] += 1
        if counts is not None:
            counts("slice_cpu_limit")
        return None
    if counts is not None:
        counts("slice_returns:reslice=%s,inplace=%s,presliced=%s" % (reslice, inplace, m0 > 1 or bool(case["pre"])))
    if (t2 is recv) != inplace:
        return (tag + ":identity", None)
    if not inplace and _snapshot(recv) != before:
        return (tag + ":receiver-modified", [before, _snapshot(recv)])
    now = {us[i] for i in t2.sliced_inds}
    pre = {ix for ix, _ in case["pre"]}
    if not reslice and not pre <= now:
        return (tag + ":lost-previous-slices", sorted(pre - now))
    new = now if reslice else now - pre
    if case["allow_outer"] is False and new & out:
        return (tag + ":forbidden-chosen", sorted(new & out))
    if case["allow_outer"] == "only" and new - out:
        return (tag + ":forbidden-chosen", sorted(new - out))
    ref = _by_hand(net, case, t2)
    real = {"nslices": int(t2.nslices), "total_flops": int(t2.total_flops()), "size": int(t2.max_size())}
    hand = {"nslices": int(ref.nslices), "total_flops": int(ref.total_flops()), "size": int(ref.max_size())}
    if real != hand:
        return (tag + ":figures-differ-from-tree-sliced-by-hand", {"returned": real, "by_hand": hand})
    bad = targets_hold(case, m0, flops_start, real["nslices"], real["total_flops"], real["size"])
    if bad:
        return (tag + ":target:" + "+".join(bad), {"returned": real, "sliced": sorted(now), "m0": m0,
                                                   "flops_start": flops_start})
    return None


def sar_oracle(case, net, tree, counts=None):
    """`slice_and_reconfigure` / `_forest`, non-inplace: the returned tree meets target_size, the receiver is
    left alone, and the returned tree's figures are those of its own structure sliced by hand."""
    if not case.get("sar") or "size" not in case["targets"] or _LIMIT_HITS["sar"] >= 3:
        return None
    import random
    rr = random.Random(case["seed"])
    forest = rr.random() < 0.3
    target = max(case["targets"]["size"], 1)
    recv = tree.copy()
    before = _snapshot(recv)
    opts = dict(target_size=target, step_size=2, max_repeats=2, allow_outer=True if case["allow_outer"] == "only"
                else case["allow_outer"], reslice=bool(case.get("reslice", False)), minimize=case["minimize"])
    try:
        if forest:
            t2 = _with_cpu_limit(5, lambda: recv.slice_and_reconfigure_forest(
                num_trees=2, parallel=False, reconf_opts={"subtree_size": 4, "maxiter": 3}, **opts))
        else:
            t2 = _with_cpu_limit(5, lambda: recv.slice_and_reconfigure(
                reconf_opts={"subtree_size": 4, "maxiter": 3, "seed": case["seed"]}, **opts))
    except _Hang:
        _LIMIT_HITS["sar"] += 1
        if counts is not None:
            counts("sar_cpu_limit")
        return None
    except Exception as e:      # no valid slicing: outside the property
        if counts is not None:
            counts("sar_raises:" + type(e).__name__)
        return None
    if counts is not None:
        counts("sar_returns:" + ("forest" if forest else "plain"))
    tag = "slice_and_reconfigure_forest" if forest else "slice_and_reconfigure"
    if t2 is recv or _snapshot(recv) != before:
        return (tag + ":receiver-modified", None)
    if int(t2.max_size()) > target:
        return (tag + ":target:size", {"max_size": int(t2.max_size()), "target": target})
    # figures of the returned tree versus its own path re-built and sliced by hand
    ref = ctg.ContractionTree.from_path(net.sym_inputs(), net.sym_output(), net.sym_sizes(),
                                        ssa_path=t2.get_ssa_path())
    for ix, si in t2.sliced_inds.items():
        if si.project is None:
            ref.remove_ind_(ix)
        else:
            ref.remove_ind_(ix, project=si.project)
    real = {"nslices": int(t2.nslices), "total_flops": int(t2.total_flops()), "size": int(t2.max_size())}
    hand = {"nslices": int(ref.nslices), "total_flops": int(ref.total_flops()), "size": int(ref.max_size())}
    if real != hand:
        return (tag + ":figures-differ-from-tree-sliced-by-hand", {"returned": real, "by_hand": hand})
    return None


def full_oracle(case, obs, net, tree, counts=None):
    return oracle(case, obs, net, tree) or slice_oracle(case, net, tree, counts) or \
        sar_oracle(case, net, tree, counts)


# --------------------------------------------------------------------------------------------
def full_state(c, us):
    sz = c.size
    return {
        "nslices": int(c.nslices), "flops": int(c.flops), "size": None if sz == -float("inf") else int(sz),
        "total_flops": int(c.total_flops), "original_flops": int(c.original_flops),
        "cons": [{"involved": sorted(us[i] for i in x[0]), "legs": sorted(us[i] for i in x[1]),
                  "size": int(x[2]), "flops": int(x[3])} for x in c.contractions],
        "fred": sorted([us[k], int(v)] for k, v in c._flop_reductions.items()),
        "wred": sorted([us[k], int(v)] for k, v in c._write_reductions.items()),
        "where": sorted([us[k], sorted(v)] for k, v in c._where.items()),
        "size_dict": sorted(us[k] for k in c.size_dict if k in us),
    }


def canon_state(s):
    """What must agree between model and implementation: the figures the property talks about and the
    contraction tuples as a multiset (their order, the `_where` positions and the two steering tables are
    internal freedom: a different but consistent order / heuristic must stay quiet)."""
    return {"nslices": s["nslices"], "flops": s["flops"], "size": s["size"], "total_flops": s["total_flops"],
            "original_flops": s["original_flops"], "size_dict": s["size_dict"],
            "cons": sorted(json.dumps(c, sort_keys=True) for c in s["cons"])}


def steering_state(s):
    return {"fred": s["fred"], "wred": s["wred"]}


def chain_corr(ctx, drv, case, net, tree):
    """(b): full ContractionCosts state along a random chain of direct `remove` calls."""
    import random
    us = gen.unsym(net)
    rr = random.Random(case["chain_seed"])
    c = ContractionCosts.from_contraction_tree(tree)
    cons0 = full_state(c, us)["cons"]
    sd = sorted([us[k], int(v)] for k, v in tree.size_dict.items() if k in us)
    inds = [ix for ix, _ in sd]
    chain = rr.sample(inds, min(len(inds), rr.choice([1, 2, 3, 4])))
    touch = rr.random() < 0.7      # what score_slice_index does before every real removal
    states = [full_state(c, us)]
    failed = None
    for ix in chain:
        if touch:
            for k in list(c.size_dict):
                c._flop_reductions[k]
                c._write_reductions[k]
        try:
            if rr.random() < 0.4:
                # the in-place form (slicer.py:148-150): mutates and returns the object itself
                ctx.count("chain:inplace")
                keep = c.copy()
                r2 = c.remove(gen.sym(ix), inplace=True)
                if r2 is not c:
                    ctx.corr_broken("remove(inplace=True) does not return the object itself", {"case": case})
                del keep
            else:
                c = c.remove(gen.sym(ix))
        except KeyError:
            failed = ix
            ctx.count("chain:KeyError")
            break
        states.append(full_state(c, us))
        ctx.count("chain:removed")
    resp = drv.call("c07.remove", size_dict=sd, cons=cons0, removes=chain, touch=touch)
    ok = "states" in resp and [canon_state(s) for s in resp["states"]] == [canon_state(s) for s in states] \
        and resp.get("failed_at") == failed
    if ok:
        # informational only (reductions_inv is a statement about the model's tables)
        same = [steering_state(s) for s in resp["states"]] == [steering_state(s) for s in states]
        ctx.count("steering_tables_equal" if same else "steering_tables_differ")
    ctx.traces += 1
    if not ok:
        ctx.corr_broken("ContractionCosts state differs from the model along a remove chain",
                        {"case": case, "chain": chain, "touch": touch})
    return ok


def search_corr(ctx, drv, case, obs, net):
    """(c): the whole history of `search` calls on one finder, replayed by the model (`Slicer.callCache /
    callResult`, the definitions `session_sound` is about) on the observed oracle answers."""
    if obs.get("picks") is None or any(c.get("picks") is None for c in obs.get("calls", [])):
        return True      # (already reported by the oracle)
    real_calls = [dict(obs, over={})] + list(obs.get("calls", []))
    mcalls = []
    for rc in real_calls:
        picks = [list(p) for p in rc["picks"]]
        if rc["status"] == "RuntimeError" and obs["forbidden"]:
            # the pick that raised is not looked up in the cache: any forbidden index reproduces it
            if not picks:
                picks = [[]]
            picks[-1].append(obs["forbidden"][0])
        mcalls.append({"over": rc["over"], "picks": picks, "k": rc.get("k", 0)})
    ao = {True: 1, False: 0, "only": 2}[case["allow_outer"]]
    resp = drv.call("c07.session", size_dict=obs["size_dict"], cons=obs["cons"], output=net.output,
                    allow_outer=ao, targets=case["targets"], calls=mcalls)
    ctx.traces += 1
    if "error" in resp:
        ctx.corr_broken("driver error: " + resp["error"], case)
        return False
    why = None
    if resp["forbidden"] != obs["forbidden"]:
        why = "forbidden set"
    for k, (rc, mc) in enumerate(zip(real_calls, resp["calls"])):
        if why is not None:
            break
        tgs = effective_targets(case["targets"], rc["over"])
        mcache = {tuple(e["key"]): e["cost"] for e in mc["cache"]}
        if mcache != rc["cache"]:
            why = "cache contents after call %d" % (k + 1)
            break
        mstat = mc["best"]["status"]
        last = mc["trials"][-1]["status"] if mc["trials"] else "ok"
        model_status = mstat if mstat != "aborted" else last
        if model_status != rc["status"]:
            if rc["status"] == "ok":
                why = f"outcome of call {k + 1}: {model_status} vs ok"
            else:
                # the implementation raised: the property only speaks about searches that return, so which
                # exception (or whether the model would have returned) is recorded, not demanded
                ctx.count("outcome_differs_when_impl_raises:%s/%s" % (model_status, rc["status"]))
            break
        if rc["status"] == "ok":
            key = tuple(rc["ix_sl"])
            ent = [e for e in mc["cache"] if tuple(e["key"]) == key]
            c = rc["cost"]
            sz = -1 if c["size"] is None else c["size"]
            score = [c["total_flops"], c["nslices"], sz] if ("size" in tgs or "slices" in tgs) else \
                [sz, c["total_flops"], c["nslices"]]
            if not ent or not ent[0]["valid"] or ent[0]["cost"] != c:
                why = "returned entry of call %d not valid in the model" % (k + 1)
            else:
                # which valid entry `best` prefers is not part of the property (tie-breaks, ranking): counted only
                ctx.count("best_is_model_min" if score == mc["min_score"] else "best_differs_from_model_min")
            if k >= 1:
                ctx.count("reused_finder_call_compared")
            if isinstance(rc.get("bestk"), list):
                # best(k=...): same number of entries, same scores position by position (ties may be
                # ordered differently), every real entry is a valid entry of the model's cache
                mb = mc.get("bestk", [])
                vkeys = {tuple(e["key"]): e for e in mc["cache"]}
                if len(mb) != len(rc["bestk"]) or [e["score"] for e in mb] != [_score(tgs, e["cost"]) for e in rc["bestk"]] \
                        or any(tuple(e["key"]) not in vkeys or not vkeys[tuple(e["key"])]["valid"]
                               or vkeys[tuple(e["key"])]["cost"] != e["cost"] for e in rc["bestk"]):
                    why = "best(k=%d) after call %d" % (rc["k"], k + 1)
                else:
                    ctx.count("best(k)-compared:%d" % min(len(mb), 4))
    if why:
        ctx.corr_broken("search: model and implementation disagree on " + why, case)
        return False
    return True


def tree_corr(ctx, drv, case, obs, net, tree):
    """(a): from_contraction_tree tuples versus treeCons, node by node."""
    us = gen.unsym(net)
    removed = [ix for ix, _ in case["pre"]]
    resp = drv.call("c07.tree", net=case["net"], removed=removed, tree=obs["bt"])
    ctx.traces += 1
    if "error" in resp:
        ctx.corr_broken("driver error: " + resp["error"], case)
        return False
    real = {}
    for node in tree.info:
        if len(node) != 1:
            real[tuple(sorted(node))] = {
                "involved": sorted(us[i] for i in tree.get_involved(node)),
                "legs": sorted(us[i] for i in tree.get_legs(node)),
                "size": int(tree.get_size(node)), "flops": int(tree.get_flops(node))}
    model = {tuple(l): c for l, c in zip(resp["leaves"], resp["cons"])}
    if real != model:
        ctx.corr_broken("from_contraction_tree tuples differ from treeCons", case)
        return False
    return True


def check_case(ctx, drv, case):
    obs, net, tree, sf = observe(case)
    tg = case["targets"]
    ctx.count("targets:" + "+".join(sorted(tg)))
    ctx.count("allow_outer:" + str(case["allow_outer"]))
    ctx.count("objective:" + case["minimize"].split("-")[0])
    ctx.count("status:" + obs["status"])
    ctx.count("pre:%d" % len(case["pre"]))
    ctx.count("labels:" + case.get("alphabet", "ascii"))
    if obs.get("via_info"):
        ctx.count("finder-from-PathInfo")
    ctx.count("trials", len(obs["picks"] or []))
    ctx.count("picks", sum(len(p) for p in (obs["picks"] or [])))
    ctx.count("cache_entries", len(obs["cache"]))
    for k, cl in enumerate(obs.get("calls", [])):
        ctx.count("reused_finder_call:" + cl["status"])
        if cl["status"] == "ok" and cl["over"]:
            tight = targets_hold(case, obs["m0"], obs["flops0"], obs["cost"]["nslices"] * obs["m0"],
                                 obs["cost"]["total_flops"] * obs["m0"], obs["cost"]["size"] or 0,
                                 effective_targets(tg, cl["over"])) if obs["status"] == "ok" else []
            # the first call's answer would NOT satisfy this call's targets: the override matters
            ctx.count("reused_finder_call:override-" + ("binding" if tight else "slack"))
    for f in net.features():
        ctx.count("feature:" + f)
    if obs["status"] == "ok":
        ctx.count("sliced:%d" % min(len(obs["ix_sl"]), 5))
    nontrivial = len(net.inputs) >= 3 and (obs["status"] != "ok" or len(obs["ix_sl"]) >= 1)
    ctx.case(case, nontrivial=nontrivial)

    fail = full_oracle(case, obs, net, tree, ctx.count)
    if fail is not None:
        ctx.violation({"site": "SliceFinder.search/tree.slice", "kind": fail[0].split(":")[0]},
                      {"case": case, "observed": {k: v for k, v in obs.items()
                                                  if k in ("status", "ix_sl", "cost", "m0", "flops0")},
                       "later_calls": [{k: v for k, v in cl.items() if k in ("over", "status", "ix_sl", "cost")}
                                       for cl in obs.get("calls", [])],
                       "failure": fail},
                      f"slice finder: {fail[0]}: {fail[1]}")
        return
    if drv is None:
        return
    tree_corr(ctx, drv, case, obs, net, tree)
    search_corr(ctx, drv, case, obs, net)
    chain_corr(ctx, drv, case, net, tree)


def run(ctx, drv):
    import glob
    import os
    from .common import VERIF
    for f in sorted(glob.glob(os.path.join(VERIF, "corpus", "C07", "*.json"))):
        obj = json.load(open(f))
        check_case(ctx, drv, obj.get("replay", obj)["case"])
        ctx.count("corpus")
    ncases = 4000 if ctx.tier == "quick" else 60000
    for _ in range(ncases):
        if ctx.time_left() < 5:
            break
        check_case(ctx, drv, gen_case(ctx.rng, ctx.tier))


def search(ctx):
    found = False
    for _ in range(6000):
        if ctx.time_left() < 5:
            break
        case = gen_case(ctx.rng, "thorough")
        obs, net, tree, sf = observe(case)
        fail = full_oracle(case, obs, net, tree)
        if fail is not None:
            ctx.violation({"site": "SliceFinder.search/tree.slice", "kind": fail[0].split(":")[0]},
                          {"case": case, "failure": fail}, f"slice finder: {fail[0]}: {fail[1]}")
            found = True
            break
    return found


def replay(ctx, obj):
    if "case" not in obj:
        print("# nothing to re-execute: this file records an undischarged obligation / correspondence "
              "(no failing input was found)")
        return True
    case = obj["case"]
    obs, net, tree, sf = observe(case)
    return full_oracle(case, obs, net, tree) is None
