"""C09 -- the 'optimal' pathfinder really is optimal.

Lean side (Props/C09.lean): the dynamic programme of `optimize_optimal_connected`
(Model/DP.lean) is proved sound (every table entry is a valid admissible tree over its key with
the stated legs and score) and optimal (for every initial cost_cap >= 1, both search_outer values,
all six objectives: the loop terminates and the single final entry has the minimum `treeCost`
over all admissible trees), for every network meeting the leaf guard.

Tie (E), on costs and never on paths:
  * the six `compute_con_cost_*` functions vs `DP.conCost` on random temp legs;
  * `optimize_optimal(...)`: cost of the real path == optimum of the model DP (driver), for
    guarded connected networks x 6 objectives (+ custom factors) x search_outer x cost_cap;
  * the model's pricing of the real tree (`DP.modelTreeCost`) == the independent Python pricing.
Oracle (implementation only): brute-force enumeration of all (2n-3)!! trees (gen.all_trees) with
an independent Python cost function (`Pricer`, leaf-set definition): cost(real path) must equal
the minimum over all trees (search_outer) / all outer-product-free trees (otherwise).
"""

import contextlib
from fractions import Fraction
import json
import os
import signal
import sys
import time

import cotengra as ctg  # noqa: F401  (puts /repo first, see common)
from cotengra.pathfinders import path_basic as pb

from . import gen, common

PROP = "C09"
LEVEL = "proof"
LEVEL_TEXT = (
    "Lean 4 proof about an executable transcription of optimize_optimal_connected and the six "
    "compute_con_cost_* functions: every entry of every DP table reachable through any number of "
    "cap-doubling rounds is a valid tree over its subgraph with exactly the recorded legs and score "
    "(dp_sound); after a sweep with cap C every admissible tree of cost <= C is matched or beaten by "
    "the entry of its leaf set (dp_complete_under_cap); hence for every initial cost_cap >= 1, both "
    "search_outer values and all six objectives (any rational factor num/den, scores scaled by den) the loop terminates and returns a "
    "tree of minimum cost among all (outer-product-free) trees (dp_optimal, dp_optimal_connected), where "
    "cost is the leaf-set definition from the network alone. The model is tied to /repo on every run by "
    "equality of costs against the real optimize_optimal and of the step-cost functions, and the real "
    "result is checked against exhaustive enumeration of all (2n-3)!! trees with an independent pricer.")
LEVEL_NOTE = (
    "Trusted: Lean kernel; the hand transcription Model/DP.lean (validated by the differential runs of "
    "this check only on the generated cases); float arithmetic of combo/limit is modelled by naturals "
    "(exact below 2^53, sizes are kept small); the final replay of the bit-path through contract_nodes and "
    "ssa_to_linear is covered by the end-to-end cost comparison, not by a theorem; the property's guard "
    "(nothing to pre-simplify, connected) makes ContractionProcessor.simplify a no-op, which is checked "
    "dynamically (the returned path has n-1 pairwise steps).")
TECHNIQUE = ("Lean 4 proof (invariant over the table fold, induction on trees, cap-doubling termination "
             "measure) + differential correspondence on costs + exhaustive tree enumeration oracle")
LEAN_MODULES = ["CotengraVerif.Props.C09"]
THEOREMS = [
    "Cotengra.C09.cost_fn_eq_spec",
    "Cotengra.C09.mergeLegs_spec",
    "Cotengra.C09.modelTreeCost_eq_spec",
    "Cotengra.C09.dp_sound",
    "Cotengra.C09.dp_complete_under_cap",
    "Cotengra.C09.dp_optimal",
    "Cotengra.C09.connected_has_opf_tree",
    "Cotengra.C09.dp_optimal_connected",
]
TRUSTED = [
    "Lean 4.33 kernel; axioms ⊆ {propext, Classical.choice, Quot.sound}",
    "hand-written model Model/DP.lean of path_basic.py:116-265, 345-363, 632-747 (tables as insertion-"
    "ordered association lists, bitmask keys, path kept as the tree it denotes), tied by this "
    "differential correspondence on the generated cases only",
    "python floats in combo/limit modelled as naturals (exact below 2^53)",
    "harness: renaming of indices by first appearance, ssa-path -> tree conversion, the independent pricer",
]
ASSUMPTIONS = [
    "networks meet the property's guard: connected, no repeated index in a tensor, no index confined to "
    "one tensor and absent from the output, no two tensors with equal index sets, no scalars, no index on "
    "all tensors (so n >= 3); sizes >= 1; initial cost_cap a positive integer",
    "exhaustive enumeration for 3 <= n <= 8 in the quick tier and n <= 9 in the thorough tier; cotengrust not installed (pure-python path)",
]
RULE = ("random connected guarded networks (spanning-tree bonds + extra bond/hyper/output/hyper-output "
        "indices, sizes 1-7) x objectives {flops,max,size,write,combo,limit,combo-k,limit-k} x "
        "search_outer {F,T} x cost_cap {1,2,17,10^6,random}; non-trivial = n >= 4 and the objective "
        "separates the trees of the class (max cost > min cost); distinct by content hash")
BUDGET = {"quick": 600, "thorough": 3000}

BASE_OBJS = [("flops", None), ("max", None), ("size", None), ("write", None), ("combo", None),
             ("limit", None)]
# integer factors and exactly representable (dyadic) fractional ones, as they appear in "combo-{k}"
FACTORS = [0, 1, 2, 5, 1000, "0.5", "2.5", "64.25", "0.25", "7.75", "256.0"]


def frac(factor):
    return Fraction(64) if factor is None else Fraction(str(factor))


def obj_string(kind, factor):
    return kind if factor is None else f"{kind}-{factor}"


def obj_json(kind, factor):
    """the model takes the factor as num/den and scales every score (and the cap) by den"""
    f = frac(factor)
    return {"kind": kind, "factor": f.numerator, "den": f.denominator}


def den_of(kind, factor):
    return frac(factor).denominator if kind in ("combo", "limit") else 1


# ----------------------------------------------------------------------------- generator


def guard_ok(net):
    """The property's guard, checked from the network alone."""
    n = len(net.inputs)
    if n < 2:
        return False
    sets = []
    for t in net.inputs:
        if len(t) == 0 or len(set(t)) != len(t):
            return False
        sets.append(frozenset(t))
    if len(set(sets)) != n:
        return False
    for ix in net.indices():
        holders = sum(1 for t in net.inputs if ix in t)
        if holders == 0:
            return False
        if holders == 1 and ix not in net.output:
            return False
        if holders >= n:
            return False
    if len(set(net.output)) != len(net.output):
        return False
    return gen.connected(net)


def renumber(net):
    """Number the indices by first appearance over the inputs (what ContractionProcessor does)."""
    m = {}
    for t in net.inputs:
        for ix in t:
            if ix not in m:
                m[ix] = len(m)
    return gen.Net([[m[ix] for ix in t] for t in net.inputs], [m[ix] for ix in net.output],
                   {m[ix]: d for ix, d in net.sizes.items() if ix in m})


def rand_guarded_net(rng, nmin=3, nmax=6, dims=(1, 2, 2, 3, 3, 4, 5, 7)):
    for _ in range(500):
        n = rng.randint(nmin, nmax)
        inputs = [[] for _ in range(n)]
        output = []
        nxt = [0]

        def new_ix(holders, out):
            ix = nxt[0]
            nxt[0] += 1
            for h in holders:
                inputs[h].append(ix)
            if out:
                output.append(ix)

        # a random spanning structure: each new tensor attaches to an earlier one
        order = list(range(n))
        rng.shuffle(order)
        for k in range(1, n):
            a = order[k]
            b = order[rng.randrange(k)]
            if rng.random() < 0.2 and n > 3:
                extra = rng.choice([x for x in range(n) if x not in (a, b)])
                new_ix([a, b, extra], rng.random() < 0.3)
            else:
                new_ix([a, b], rng.random() < 0.15)
        for _ in range(rng.randint(0, n)):
            kind = rng.choice(["bond", "bond", "hyper", "out1", "outk"])
            if kind == "bond":
                new_ix(rng.sample(range(n), 2), False)
            elif kind == "hyper":
                k = rng.randint(3, max(3, n - 1))
                if k >= n:
                    continue
                new_ix(rng.sample(range(n), k), rng.random() < 0.3)
            elif kind == "out1":
                new_ix([rng.randrange(n)], True)
            else:
                k = rng.randint(2, max(2, n - 1))
                if k >= n:
                    continue
                new_ix(rng.sample(range(n), k), True)
        if any(len(t) > 6 for t in inputs):
            continue
        for t in inputs:
            rng.shuffle(t)
        rng.shuffle(output)
        sizes = {ix: rng.choice(dims) for ix in range(nxt[0])}
        net = renumber(gen.Net(inputs, output, sizes))
        if guard_ok(net):
            return net
    raise RuntimeError("guarded generator failed")


# ----------------------------------------------------------------------------- independent pricer


class Pricer:
    """Cost of a tree from the network alone (leaf-set definition). For combo/limit with factor p/q
    the reported cost is the true cost times q (exact integers; minimisation is unaffected). An index survives a set S of
    tensors iff it occurs in S and not all of its appearances (inputs + output) are in S.
    step flops = product of the sizes of the indices surviving either operand; step size = product
    over the indices surviving the union; a step is an outer product iff no index survives both."""

    def __init__(self, net):
        self.net = net
        self.n = len(net.inputs)
        self.ixs = net.indices()
        self.app = {ix: net.app(ix) for ix in self.ixs}
        self.occ = [{ix: t.count(ix) for ix in set(t)} for t in net.inputs]
        self._surv = {}
        self._step = {}

    def surv(self, mask):
        s = self._surv.get(mask)
        if s is None:
            cnt = {}
            for i in range(self.n):
                if mask >> i & 1:
                    for ix, c in self.occ[i].items():
                        cnt[ix] = cnt.get(ix, 0) + c
            s = frozenset(ix for ix, c in cnt.items() if c < self.app[ix])
            self._surv[mask] = s
        return s

    def step(self, ml, mr):
        r = self._step.get((ml, mr))
        if r is None:
            sl, sr, sp = self.surv(ml), self.surv(mr), self.surv(ml | mr)
            F = 1
            for ix in sl | sr:
                F *= self.net.sizes[ix]
            S = 1
            for ix in sp:
                S *= self.net.sizes[ix]
            r = (F, S, bool(sl & sr))
            self._step[(ml, mr)] = r
        return r

    def price(self, tree, objs):
        """returns (mask, [cost per objective], has_outer_product)"""
        specs = []
        for kind, factor in objs:
            fr = frac(factor)       # exact rational factor p/q; combo/limit costs are kept scaled by q
            specs.append((kind, fr.numerator, fr.denominator))
        return self._price(tree, specs)

    def _price(self, tree, specs):
        if isinstance(tree, int):
            return 1 << tree, [0] * len(specs), False
        ml, cl, ol = self._price(tree[0], specs)
        mr, cr, orr = self._price(tree[1], specs)
        F, S, shared = self.step(ml, mr)
        out = []
        for (kind, p_, q_), a, b in zip(specs, cl, cr):
            if kind == "flops":
                out.append(a + b + F)
            elif kind == "max":
                out.append(max(a, b, F))
            elif kind == "size":
                out.append(max(a, b, S))
            elif kind == "write":
                out.append(a + b + S)
            elif kind == "combo":
                out.append(a + b + q_ * F + p_ * S)
            else:
                out.append(a + b + max(q_ * F, p_ * S))
        return ml | mr, out, ol or orr or not shared


def brute_force(net, objs):
    """min / max cost per objective over all trees and over the outer-product-free ones."""
    pr = Pricer(net)
    n = len(net.inputs)
    k = len(objs)
    best_all, best_opf = [None] * k, [None] * k
    worst_all, worst_opf = [0] * k, [0] * k
    ntrees = nopf = 0
    specs = [(kd, frac(fa).numerator, frac(fa).denominator) for kd, fa in objs]
    for t in gen.all_trees(range(n)):
        _, cs, outer = pr._price(t, specs)
        ntrees += 1
        for q in range(k):
            c = cs[q]
            if best_all[q] is None or c < best_all[q]:
                best_all[q] = c
            if c > worst_all[q]:
                worst_all[q] = c
        if not outer:
            nopf += 1
            for q in range(k):
                c = cs[q]
                if best_opf[q] is None or c < best_opf[q]:
                    best_opf[q] = c
                if c > worst_opf[q]:
                    worst_opf[q] = c
    return {"all": best_all, "opf": best_opf, "worst_all": worst_all, "worst_opf": worst_opf,
            "ntrees": ntrees, "nopf": nopf}


# ----------------------------------------------------------------------------- the real code


class CallTimeout(Exception):
    pass


@contextlib.contextmanager
def call_timeout(seconds):
    """Bound one call of the real code (the real `while` loop never ends if nothing passes the
    sieve). Nests inside the check's overall SIGALRM budget and restores it afterwards."""
    def _h(sig, frm):
        raise CallTimeout()
    prev = signal.getsignal(signal.SIGALRM)
    remaining = signal.getitimer(signal.ITIMER_REAL)[0]
    signal.setitimer(signal.ITIMER_REAL, 0)
    t0 = time.time()
    signal.signal(signal.SIGALRM, _h)
    signal.setitimer(signal.ITIMER_REAL, seconds)
    try:
        yield
    finally:
        signal.setitimer(signal.ITIMER_REAL, 0)
        signal.signal(signal.SIGALRM, prev)
        if remaining:
            signal.setitimer(signal.ITIMER_REAL, max(0.05, remaining - (time.time() - t0)))



def ssa_to_tree(ssa_path, n):
    """nested-list tree of an ssa path of pairwise steps; None when malformed / incomplete"""
    nodes = {i: i for i in range(n)}
    nxt = n
    for step in ssa_path:
        step = tuple(step)
        if len(step) != 2 or step[0] == step[1] or step[0] not in nodes or step[1] not in nodes:
            return None
        a, b = nodes.pop(step[0]), nodes.pop(step[1])
        nodes[nxt] = [a, b]
        nxt += 1
    if len(nodes) != 1:
        return None
    (t,) = nodes.values()
    return t


def real_optimal(net, kind, factor, outer, cap, via="function"):
    inputs, output, sd = net.sym_inputs(), net.sym_output(), net.sym_sizes()
    minimize = obj_string(kind, factor)
    if via == "function":
        ssa = pb.optimize_optimal(inputs, output, sd, minimize=minimize, cost_cap=cap,
                                  search_outer=outer, use_ssa=True)
    elif via == "function-nosimplify":
        # under the property's guard there is nothing to pre-simplify, so skipping the simplification pass
        # must not change the optimum
        ssa = pb.optimize_optimal(inputs, output, sd, minimize=minimize, cost_cap=cap,
                                  search_outer=outer, use_ssa=True, simplify=False)
    elif via == "class-nosimplify":
        opt = pb.OptimalOptimizer(minimize=minimize, cost_cap=cap, search_outer=outer, simplify=False)
        ssa = opt.ssa_path(inputs, output, sd)
    elif via == "class-percall":
        # the options are given for this call only, to an optimizer constructed with *other* defaults
        # (OptimalOptimizer.maybe_update_defaults: a per-call value overrides the object's)
        other = "size" if not minimize.startswith("size") else "flops"
        opt = pb.OptimalOptimizer(minimize=other, cost_cap=7, search_outer=not outer)
        ssa = opt.ssa_path(inputs, output, sd, minimize=minimize, cost_cap=cap, search_outer=outer)
    elif via == "class-percall-search":
        other = "write" if not minimize.startswith("write") else "flops"
        opt = pb.OptimalOptimizer(minimize=other, search_outer=not outer)
        ssa = opt.search(inputs, output, sd, minimize=minimize, cost_cap=cap, search_outer=outer).get_ssa_path()
    elif via == "class-search":
        opt = pb.OptimalOptimizer(minimize=minimize, cost_cap=cap, search_outer=outer)
        ssa = opt.search(inputs, output, sd).get_ssa_path()
    elif via == "class":
        opt = pb.OptimalOptimizer(minimize=minimize, cost_cap=cap, search_outer=outer)
        ssa = opt.ssa_path(inputs, output, sd)
    else:  # linear path through __call__, converted with our own code
        opt = pb.OptimalOptimizer(minimize=minimize, cost_cap=cap, search_outer=outer)
        path = opt(inputs, output, sd)
        ids = list(range(len(inputs)))
        ssa, nxt = [], len(inputs)
        for con in path:
            con = sorted(con, reverse=True)
            if any(c >= len(ids) or c < 0 for c in con):
                return None
            ssa.append(tuple(ids.pop(c) for c in con))
            ids.append(nxt)
            nxt += 1
    return ssa_to_tree(ssa, len(inputs))


class _TableSpy:
    """Reads the final `contractions` tables of optimize_optimal_connected from its frame when it
    returns (sys.setprofile) -- no source hook. Informational only."""

    def __init__(self):
        self.tables = None
        self.code = pb.ContractionProcessor.optimize_optimal_connected.__code__

    def __enter__(self):
        def prof(frame, event, arg):
            if event == "return" and frame.f_code is self.code:
                c = frame.f_locals.get("contractions")
                if isinstance(c, list):
                    self.tables = [
                        sorted((int(k), [list(map(int, kv)) for kv in v[0]], Fraction(v[1]))
                               for k, v in d.items()) for d in c]
        sys.setprofile(prof)
        return self

    def __exit__(self, *a):
        sys.setprofile(None)


# ----------------------------------------------------------------------------- cases


def check_stepcost(ctx, drv, rng):
    """(E) the six compute_con_cost_* vs DP.conCost on random temp legs."""
    m = rng.randint(1, 6)
    ixs = sorted(rng.sample(range(9), m))
    app = {ix: rng.randint(1, 4) for ix in ixs}
    sizes = {ix: rng.choice([1, 2, 3, 5]) for ix in ixs}
    temp = [[ix, rng.randint(1, app[ix])] for ix in ixs]
    # a network realising `appearances`: ix occurs app[ix] times in the output
    net = {"inputs": [], "output": [ix for ix in ixs for _ in range(app[ix])],
           "sizes": sorted([k, v] for k, v in sizes.items())}
    a, b = rng.randint(0, 50), rng.randint(0, 50)
    kind = rng.choice(["flops", "max", "size", "write", "combo", "limit"])
    factor = rng.choice([None] + FACTORS) if kind in ("combo", "limit") else None
    applist = [app.get(i, 0) for i in range(9)]
    sizelist = [sizes.get(i, 1) for i in range(9)]
    try:
        fn = pb.parse_minimize_for_optimal(obj_string(kind, factor))
        legs = [tuple(kv) for kv in temp]
        score = fn(legs, applist, sizelist, a, b)
    except (TypeError, AttributeError):
        ctx.count("stepcost:probe-unavailable")
        return
    ctx.count("stepcost:" + kind)
    den = den_of(kind, factor)
    if den != 1:
        ctx.count("stepcost:fractional-factor")
    # the model's scores are scaled by den: operands' scores go in scaled, the result is compared scaled
    scaled = Fraction(score) * den
    if scaled.denominator != 1:
        ctx.corr_broken("compute_con_cost_%s with factor %s is not a multiple of 1/%d" % (kind, factor, den),
                        {"temp": temp, "score": score})
        return
    resp = drv.call("c09.concost", net=net, obj=obj_json(kind, factor), temp=temp, iscore=a * den,
                    jscore=b * den)
    real = {"legs": [list(kv) for kv in legs], "score": int(scaled)}
    ctx.traces += 1
    if resp.get("legs") != real["legs"] or resp.get("score") != real["score"]:
        ctx.corr_broken("compute_con_cost_%s differs from DP.conCost" % kind,
                        {"temp": temp, "app": app, "sizes": sizes, "iscore": a, "jscore": b,
                         "factor": factor, "real": real, "model": resp})


def configs_for(rng, tier):
    objs = list(BASE_OBJS)
    fractional = [f for f in FACTORS if isinstance(f, str) and not f.endswith(".0")]
    objs.append(("combo", rng.choice(fractional if rng.random() < 0.6 else FACTORS)))
    objs.append(("limit", rng.choice(fractional if rng.random() < 0.6 else FACTORS)))
    caps = [1, 2, 17, 10 ** 6, rng.randint(3, 5000)]
    return objs, caps


def oracle(net, kind, factor, outer, cap, bf_best, via="function"):
    """implementation-side verdict for one configuration. Returns (ok, info)."""
    n = len(net.inputs)
    limit = 10 if n <= 7 else (30 if n == 8 else 150)
    try:
        try:
            with call_timeout(limit):
                tree = real_optimal(net, kind, factor, outer, cap, via=via)
        except CallTimeout:
            # confirm with a doubled limit before calling it non-termination (machine load)
            with call_timeout(2 * limit):
                tree = real_optimal(net, kind, factor, outer, cap, via=via)
    except CallTimeout:
        return False, {"kind": "no-termination", "limit_s": 2 * limit}
    except (ValueError, KeyError, IndexError, TypeError, AssertionError) as e:
        return False, {"kind": "raises", "error": type(e).__name__ + ": " + str(e)[:200]}
    if tree is None or sorted(gen.tree_leaves(tree)) != list(range(len(net.inputs))):
        return False, {"kind": "malformed-path", "tree": tree}
    pr = Pricer(net)
    _, (cost,), has_outer = pr.price(tree, [(kind, factor)])
    if cost != bf_best:
        return False, {"kind": "not-minimal" if cost > bf_best else "outside-class",
                       "tree": tree, "cost": cost, "minimum": bf_best, "has_outer": has_outer}
    return True, {"tree": tree, "cost": cost, "has_outer": has_outer}


WIDE_CAPS = [1, 2, 3, 5, 6, 7, 11, 13, 17, 23, 100, 1000]


def check_net(ctx, drv, net, rng, spy_tables=False, light=False):
    n = len(net.inputs)
    objs, caps = configs_for(rng, ctx.tier)
    bf = brute_force(net, objs)
    ctx.count("n:%d" % n)
    for f in net.features():
        ctx.count("feature:" + f)
    ctx.count("trees_enumerated", bf["ntrees"])
    ctx.count("trees_outer_product_free", bf["nopf"])
    netj = net.json()
    for q, (kind, factor) in enumerate(objs):
        for outer in ((rng.random() < 0.5,) if light else (False, True)):
            best = bf["all"][q] if outer else bf["opf"][q]
            worst = bf["worst_all"][q] if outer else bf["worst_opf"][q]
            if outer is False and bf["all"][q] < bf["opf"][q]:
                ctx.count("outer_product_strictly_better")
            den = den_of(kind, factor)
            # light mode: many networks, two caps per objective from a wide set (sieve-window alignment)
            for cap in (rng.sample(WIDE_CAPS, 2) if light else caps):
                if ctx.time_left() < 5 or ctx.violations >= 1:
                    return
                via = rng.choice(["function", "function", "class", "linear", "function-nosimplify",
                                  "class-nosimplify", "class-search", "class-percall", "class-percall-search"])
                case = {"net": netj, "obj": [kind, factor], "outer": outer, "cap": cap, "via": via}
                ctx.case(case, nontrivial=(n >= 4 and worst > best))
                ctx.count("obj:" + kind)
                ctx.count("via:" + via)
                ok, info = oracle(net, kind, factor, outer, cap, best, via=via)
                if not ok:
                    report(ctx, case, info)
                    continue
                # --- correspondence with the Lean model -----------------------------------
                resp = drv.call("c09.dp", net=netj, obj=obj_json(kind, factor), outer=outer, cap=cap * den)
                ctx.traces += 1
                if resp.get("result") != "ok":
                    ctx.corr_broken("model DP gives no result: %r" % (resp,), case)
                    continue
                rounds = 0
                c = cap * den
                while c < resp["cap_end"]:
                    c *= 2
                    rounds += 1
                ctx.count("rounds:%s" % (rounds if rounds < 8 else "8+"))
                if resp["score"] != info["cost"]:
                    ctx.corr_broken("model DP optimum %s (scaled by %d) != cost of the real path %s"
                                    % (resp["score"], den, info["cost"]), case)
                    continue
                if den != 1:
                    ctx.count("fractional_factor_cases")
                # the model's own pricing of the real tree and of its own tree
                tc = drv.call("c09.treecost", net=netj, tree=info["tree"], objs=[obj_json(kind, factor)])
                if tc.get("costs") != [info["cost"]] or tc.get("outer") != info["has_outer"]:
                    ctx.corr_broken("model pricing of the real tree differs from the independent pricer",
                                    {"case": case, "model": tc, "independent": info})
                if resp["tree"] == info["tree"]:
                    ctx.count("same_tree_as_model")
                else:
                    ctx.count("different_tree_same_cost")
    if spy_tables:
        kind, factor = rng.choice(objs)
        outer = rng.random() < 0.5
        cap = rng.choice(caps)
        try:
            with _TableSpy() as spy:
                real_optimal(net, kind, factor, outer, cap)
            resp = drv.call("c09.dp", net=netj, obj=obj_json(kind, factor), outer=outer,
                            cap=cap * den_of(kind, factor), tables=True)
            if spy.tables is not None and "tables" in resp:
                mt = [sorted((e["key"], e["legs"], e["score"]) for e in t) for t in resp["tables"]]
                dd = den_of(kind, factor)
                rt = [[(k, l, s * dd) for k, l, s in t] for t in spy.tables]
                mt = [[(k, l, s) for k, l, s in t] for t in mt]
                ctx.count("tables:equal" if mt == rt else "tables:differ")
                ctx.count("table_entries_compared", sum(len(t) for t in rt))
        except Exception:
            ctx.count("tables:spy-unavailable")


def report(ctx, case, info):
    sig = {"site": "optimize_optimal", "kind": info["kind"]}
    key = json.dumps(sig, sort_keys=True, default=str)
    ctx.count("failing_cases")
    if key in ctx._reported:      # same signature already reported in this run: do not shrink again
        return
    small = shrink(case, budget=30 if ctx.time_left() > 120 else 5)
    ctx.violation(sig,
                  {"case": small, "original": case if small != case else None,
                   "observed": {k: v for k, v in info.items() if k != "kind"}},
                  "optimize_optimal(minimize=%s, search_outer=%s, cost_cap=%s): %s"
                  % (obj_string(*case["obj"]), case["outer"], case["cap"], info["kind"]))


def fails(case):
    net = gen.Net.from_json(case["net"])
    if not guard_ok(net):
        return False
    kind, factor = case["obj"]
    bf = brute_force(net, [(kind, factor)])
    best = bf["all"][0] if case["outer"] else bf["opf"][0]
    if best is None:
        return False
    try:
        ok, _ = oracle(net, kind, factor, case["outer"], case["cap"], best,
                       via=case.get("via", "function"))
    except Exception:
        return False
    return not ok


def shrink(case, budget=60):
    """greedy: drop tensors / indices, lower dimensions, while the case still fails and still
    satisfies the guard."""
    import time
    t0 = time.time()
    cur = case

    def variants(c):
        net = gen.Net.from_json(c["net"])
        n = len(net.inputs)
        for i in range(n):
            ins = [t for k, t in enumerate(net.inputs) if k != i]
            used = {ix for t in ins for ix in t}
            yield gen.Net(ins, [ix for ix in net.output if ix in used],
                          {ix: d for ix, d in net.sizes.items() if ix in used})
        for ix in net.indices():
            yield gen.Net([[j for j in t if j != ix] for t in net.inputs],
                          [j for j in net.output if j != ix],
                          {j: d for j, d in net.sizes.items() if j != ix})
        for ix in net.indices():
            for d in (1, 2, net.sizes[ix] - 1):
                if 1 <= d < net.sizes[ix]:
                    s = dict(net.sizes)
                    s[ix] = d
                    yield gen.Net(net.inputs, net.output, s)

    progress = True
    while progress and time.time() - t0 < budget:
        progress = False
        for v in variants(cur):
            if time.time() - t0 > budget:
                break
            if len(v.inputs) < 3 or not guard_ok(v):
                continue
            cand = dict(cur)
            cand["net"] = renumber(v).json()
            if fails(cand):
                cur = cand
                progress = True
                break
        if not progress and cur["cap"] not in (1, 2):
            for cap in (1, 2):
                cand = dict(cur)
                cand["cap"] = cap
                if fails(cand):
                    cur = cand
                    progress = True
                    break
    return cur


def replay_corpus(ctx):
    d = os.path.join(common.VERIF, "corpus", PROP)
    if not os.path.isdir(d):
        return
    for fn in sorted(os.listdir(d)):
        if not fn.endswith(".json"):
            continue
        obj = json.load(open(os.path.join(d, fn)))
        rp = obj.get("replay", obj)
        ctx.count("corpus_replayed")
        if not replay(ctx, rp):
            ctx.violation(obj.get("signature", {"site": "optimize_optimal", "kind": "corpus"}), rp,
                          "corpus case %s fails again" % fn)


def run(ctx, drv):
    replay_corpus(ctx)
    rng = ctx.rng
    quick = ctx.tier == "quick"
    for _ in range(1200 if quick else 12000):
        check_stepcost(ctx, drv, rng)
    # full configurations (6 + 2 objectives x both search_outer x 5 caps) on a few networks ...
    plan = ([(3, 3, False)] * 4 + [(4, 4, False)] * 10 + [(5, 5, False)] * 14 + [(6, 6, False)] * 16 +
            [(7, 7, False)] * 6 + [(8, 8, False)] * 1) if quick else \
        ([(3, 3, False)] * 50 + [(4, 4, False)] * 250 + [(5, 5, False)] * 400 + [(6, 6, False)] * 500 +
         [(7, 7, False)] * 300 + [(8, 8, False)] * 30 + [(9, 9, False)] * 2)
    # ... and light configurations (every objective, one search_outer, two caps from a wide set) on many
    # networks with dimensions 2..9 (ties between trees are rare, balanced optima common)
    plan += ([(4, 4, True)] * 40 + [(5, 5, True)] * 120 + [(6, 6, True)] * 170 + [(7, 7, True)] * 8) if quick \
        else ([(4, 4, True)] * 400 + [(5, 5, True)] * 1500 + [(6, 6, True)] * 2500 + [(7, 7, True)] * 300)
    rng.shuffle(plan)
    for k, (lo, hi, light) in enumerate(plan):
        if ctx.time_left() < 20:
            ctx.count("plan_cut_short")
            break
        if ctx.violations >= 1:
            break
        if light:
            net = rand_guarded_net(rng, lo, hi, dims=(2, 3, 4, 5, 6, 7, 8, 9))
            ctx.count("light_networks")
        else:
            net = rand_guarded_net(rng, lo, hi)
        check_net(ctx, drv, net, rng, spy_tables=(k % 7 == 0), light=light)
    ctx.notes["guard"] = "every generated network satisfies guard_ok (generator rejects others)"


def search(ctx):
    """Implementation-only: more guarded networks against the exhaustive oracle."""
    rng = ctx.rng
    found = False
    for k in range(400):
        if ctx.time_left() < 10 or found:
            break
        net = rand_guarded_net(rng, 3, 6 if k % 5 else 7, dims=(1, 2, 3, 4, 5, 7, 9))
        objs, caps = configs_for(rng, ctx.tier)
        bf = brute_force(net, objs)
        for q, (kind, factor) in enumerate(objs):
            for outer in (False, True):
                best = bf["all"][q] if outer else bf["opf"][q]
                for cap in caps:
                    ok, info = oracle(net, kind, factor, outer, cap, best)
                    if not ok:
                        report(ctx, {"net": net.json(), "obj": [kind, factor], "outer": outer,
                                     "cap": cap}, info)
                        found = True
                        break
                if found:
                    break
            if found:
                break
    return found


def replay(ctx, obj):
    case = obj.get("case", obj)
    net = gen.Net.from_json(case["net"])
    kind, factor = case["obj"]
    bf = brute_force(net, [(kind, factor)])
    best = bf["all"][0] if case["outer"] else bf["opf"][0]
    ok, info = oracle(net, kind, factor, case["outer"], case["cap"], best,
                      via=case.get("via", "function"))
    if not ok:
        print("# replay:", info)
    return ok
