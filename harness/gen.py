"""Structured generators: networks (with every corner the properties name), trees, paths.

Indices are naturals 0..m-1 (the Lean model's `Ix`); `sym(i)` is the character cotengra sees.
All randomness comes from the `random.Random` passed in.
"""

import itertools

from cotengra.utils import get_symbol


# Which characters the natural indices are shown to cotengra as. The properties quantify over
# arbitrary hashable / unicode labels, so besides plain ascii ("ascii": a, b, c, …) a case can use
# "mixed" (some indices ascii, the others far beyond the 52 ascii letters) or "shifted" (a block that
# straddles the ascii / non-ascii border of get_symbol). One alphabet is in force per case.
_ALPHABET = {"mode": "ascii", "salt": 0}
ALPHABETS = ("ascii", "ascii", "mixed", "shifted")


# further label styles, only used where a module asks for them by name (trees accept any hashable label):
# multi-character strings and tuples
EXTRA_ALPHABETS = ("words", "tuples", "ints")


def set_alphabet(mode="ascii", salt=0):
    _ALPHABET["mode"] = mode if mode in ("ascii", "mixed", "shifted") + EXTRA_ALPHABETS else "ascii"
    _ALPHABET["salt"] = int(salt)


def sym(i):
    mode = _ALPHABET["mode"]
    if mode == "mixed":
        if ((i * 2654435761 + _ALPHABET["salt"]) >> 4) % 2:
            return get_symbol(i + 200)
        return get_symbol(i)
    if mode == "shifted":
        return get_symbol(i + 47)
    if mode == "words":
        return "k%d" % (i + 10)
    if mode == "tuples":
        return ("bond", i)
    if mode == "ints":
        return 100 + i
    return get_symbol(i)


class Net:
    """inputs: list[list[int]], output: list[int], sizes: dict[int,int]"""

    def __init__(self, inputs, output, sizes):
        self.inputs = [list(t) for t in inputs]
        self.output = list(output)
        self.sizes = dict(sizes)

    # --- views -------------------------------------------------------------------
    def json(self):
        return {"inputs": self.inputs, "output": self.output,
                "sizes": sorted([k, v] for k, v in self.sizes.items())}

    @staticmethod
    def from_json(j):
        return Net(j["inputs"], j["output"], {int(k): int(v) for k, v in j["sizes"]})

    def sym_inputs(self):
        return [tuple(sym(i) for i in t) for t in self.inputs]

    def sym_output(self):
        return tuple(sym(i) for i in self.output)

    def sym_sizes(self):
        return {sym(k): v for k, v in self.sizes.items()}

    def eq(self):
        return ",".join("".join(t) for t in self.sym_inputs()) + "->" + "".join(self.sym_output())

    def shapes(self):
        return [tuple(self.sizes[i] for i in t) for t in self.inputs]

    def indices(self):
        seen = {}
        for t in self.inputs:
            for i in t:
                seen[i] = None
        for i in self.output:
            seen[i] = None
        return list(seen)

    def app(self, ix):
        return sum(t.count(ix) for t in self.inputs) + self.output.count(ix)

    def features(self):
        f = set()
        n = len(self.inputs)
        for ix in self.indices():
            holders = [k for k, t in enumerate(self.inputs) if ix in t]
            if any(t.count(ix) > 1 for t in self.inputs):
                f.add("repeated")
            if len(holders) >= 3 or (len(holders) == 2 and ix in self.output):
                f.add("hyper")
            if len(holders) == 1 and ix not in self.output and self.inputs[holders[0]].count(ix) == 1:
                f.add("dangling")
            if len(holders) == n and n > 1:
                f.add("all-tensors")
            if self.sizes[ix] == 1:
                f.add("size1")
        if any(len(t) == 0 for t in self.inputs):
            f.add("scalar")
        if not connected(self):
            f.add("disconnected")
        if len(self.output) >= 2:
            f.add("multi-output")
        return sorted(f)


def connected(net):
    n = len(net.inputs)
    if n <= 1:
        return True
    adj = {k: set() for k in range(n)}
    for ix in net.indices():
        hs = [k for k, t in enumerate(net.inputs) if ix in t]
        for a in hs:
            adj[a].update(hs)
    seen, st = {0}, [0]
    while st:
        a = st.pop()
        for b in adj[a]:
            if b not in seen:
                seen.add(b)
                st.append(b)
    return len(seen) == n


KINDS = ("bond", "hyper", "dangling", "out1", "outk", "all", "repeated", "batch")


def rand_net(rng, nmin=2, nmax=6, max_inds=8, dims=(1, 2, 3), kinds=KINDS, max_rank=5,
             allow_scalar=True, p_output=None, max_total=40000):
    """A random network drawing every index from one of the named kinds."""
    for _ in range(200):
        n = rng.randint(nmin, nmax)
        m = rng.randint(1, max_inds)
        inputs = [[] for _ in range(n)]
        output = []
        for ix in range(m):
            kind = rng.choice(kinds)
            if kind == "bond":
                hs = rng.sample(range(n), min(2, n))
            elif kind == "hyper":
                hs = rng.sample(range(n), min(n, rng.randint(3, 4)))
                if rng.random() < 0.3:
                    output.append(ix)
            elif kind == "dangling":
                hs = [rng.randrange(n)]
            elif kind == "out1":
                hs = [rng.randrange(n)]
                output.append(ix)
            elif kind == "outk":
                hs = rng.sample(range(n), min(n, rng.randint(2, 3)))
                output.append(ix)
            elif kind == "batch":
                hs = rng.sample(range(n), min(2, n))
                output.append(ix)
            elif kind == "all":
                hs = list(range(n))
                if rng.random() < 0.5:
                    output.append(ix)
            else:  # repeated inside a tensor
                a = rng.randrange(n)
                hs = [a, a]
                if rng.random() < 0.5 and n > 1:
                    hs.append(rng.choice([k for k in range(n) if k != a]))
                if rng.random() < 0.4:
                    output.append(ix)
            for h in hs:
                inputs[h].append(ix)
        if any(len(t) > max_rank for t in inputs):
            continue
        if not allow_scalar and any(len(t) == 0 for t in inputs):
            continue
        for t in inputs:
            rng.shuffle(t)
        rng.shuffle(output)
        if p_output is not None:
            output = [ix for ix in output if rng.random() < p_output]
        used = {ix for t in inputs for ix in t}
        sizes = {ix: rng.choice(dims) for ix in sorted(used)}
        tot = 1
        for v in sizes.values():
            tot *= v
        if tot > max_total:
            continue
        net = Net(inputs, output, sizes)
        return net
    raise RuntimeError("generator failed")


def rand_tree(rng, n, shape=None):
    """Random binary tree over leaves 0..n-1 as nested lists (leaf = int)."""
    shape = shape or rng.choice(["random", "random", "caterpillar", "balanced"])
    items = list(range(n))
    rng.shuffle(items)
    if n == 1:
        return items[0]
    if shape == "caterpillar":
        t = items[0]
        for x in items[1:]:
            t = [t, x] if rng.random() < 0.5 else [x, t]
        return t
    if shape == "balanced":
        level = items
        while len(level) > 1:
            nxt = [[level[i], level[i + 1]] for i in range(0, len(level) - 1, 2)]
            if len(level) % 2:
                nxt.append(level[-1])
            level = nxt
        return level[0]
    pool = items
    while len(pool) > 1:
        a = pool.pop(rng.randrange(len(pool)))
        b = pool.pop(rng.randrange(len(pool)))
        pool.append([a, b])
    return pool[0]


def tree_leaves(t):
    if isinstance(t, int):
        return [t]
    return tree_leaves(t[0]) + tree_leaves(t[1])


def tree_to_ssa(t, n):
    """SSA path (children first) for a nested-list tree over leaves 0..n-1."""
    path = []
    nxt = [n]

    def go(x):
        if isinstance(x, int):
            return x
        a, b = go(x[0]), go(x[1])
        path.append((a, b))
        nxt[0] += 1
        return nxt[0] - 1

    go(t)
    return path


def all_trees(leaves):
    """All unordered binary trees over the given leaves ((2n-3)!! of them)."""
    leaves = list(leaves)
    if len(leaves) == 1:
        yield leaves[0]
        return
    first, rest = leaves[0], leaves[1:]
    for k in range(len(rest) + 1):
        for comp in itertools.combinations(rest, k):
            left = [first] + list(comp)
            right = [x for x in rest if x not in comp]
            if not right:
                continue
            for lt in all_trees(left):
                for rt in all_trees(right):
                    yield [lt, rt]


def real_tree(ct, net, tree, **kw):
    """Build the real ContractionTree for (net, nested tree)."""
    n = len(net.inputs)
    ssa = tree_to_ssa(tree, n)
    return ct.ContractionTree.from_path(net.sym_inputs(), net.sym_output(), net.sym_sizes(),
                                        ssa_path=ssa, **kw)


def bt_of_real(tree, node=None):
    """Nested-list tree with the *real* tree's (left, right) orientation."""
    if node is None:
        node = tree.root
    if len(node) == 1:
        (i,) = node
        return i
    l, r = tree.children[node]
    return [bt_of_real(tree, l), bt_of_real(tree, r)]


def real_nodes_children_first(tree, node=None, out=None):
    if out is None:
        out = []
    if node is None:
        node = tree.root
    if len(node) > 1:
        l, r = tree.children[node]
        real_nodes_children_first(tree, l, out)
        real_nodes_children_first(tree, r, out)
    out.append(node)
    return out


def unsym(net):
    """map symbol -> int index for a net"""
    return {sym(i): i for i in net.indices()}
