"""C17 fact extractor -- source-derived call graph of the seeded APIs (pure `ast`, < 1 s).

For every function / method of /repo/cotengra (experimental/ excluded) it records

  * whether it is *seed-capable* (has a parameter named `seed` or `rng`) or *seed-transparent*
    (forwards `**kwargs`), in which case it gets two graph nodes: mode S (called with a seed) and
    mode U (called without one, i.e. `seed=None`),
  * its call edges to other cotengra functions, each with the mode of the callee: a seed-capable
    callee is entered in mode S only when the call passes an expression derived from the caller's
    own seed (`seed=seed`, `seed=rng`, `seed=self.rng.randint(..)`, a dict with a derived "seed"
    entry splatted into the call ...) and the caller itself is in mode S,
  * `rdGlobal`: draws from the process-global generator -- `get_rng()` / `get_rng(None)`,
    `random.<fn>(..)`, `np.random.<fn>(..)`, `default_rng()`; and, in mode U, every use of the
    (absent) seed: `get_rng(seed)`, `default_rng(seed)`, `f(seed=seed)` for external `f`,
  * `rdHash`: order-sensitive consumption (for / comprehension / list / tuple / iter / next /
    enumerate / zip / map / join / pop / oset / dict.fromkeys) of an expression that is locally
    evident to be a `set`/`frozenset` (constructor, literal, comprehension, set algebra, local
    name or `self.` attribute assigned from one) whose elements are not evidently integers,
    and calls of the builtin `hash`/`id` used as a sort key.

`get_rng` itself (utils.py) is a primitive: its body must have the recognised three-branch shape,
then (get_rng, S) is clean and (get_rng, U) draws from the global generator.

Name resolution is by simple name (functions of the same module / imported names / classes ->
`__init__`; `x.m(..)` -> every method `m` of every class, `self.m(..)` -> the class hierarchy of
`self`), class-level aliases (`slice_ = functools.partialmethod(slice, ..)`,
`simulated_anneal = simulated_anneal_tree`) are followed, callable attributes bound in
`__init__` from a parameter are resolved through the instantiation sites
(`PartitionTreeBuilder(labels_partition)`), and from a call through the returned names
(`get_optimize_random_greedy_track_flops`).  Calls through parameters / external libraries are
opaque (argument or library behaviour: trusted base); a receiver whose called methods fit several
unrelated classes is disambiguated by its name (`tree.m()` -> a class named *Tree*) or stays opaque.  A function reference that is not called
(`{"basic": _slice_tree_basic}[mode]`, `submit(pool, fn, **kw)`) is an edge in the caller's mode,
or in the mode of the enclosing call's `seed=` keyword.

The extractor is in the trusted base; every verdict it leads to is validated dynamically by the
subprocess correspondence of harness/c17.py.
"""

import ast
import os

try:
    from . import c17_rngflow as rngflow
except ImportError:      # run as a script
    import c17_rngflow as rngflow

SEED_NAMES = ("seed", "rng")
EXCLUDE_DIRS = ("experimental",)
# iterators / calls that yield the results of pool tasks in the order the workers finished
SCHED_ORDERED = {"as_completed", "imap_unordered", "map_unordered", "iter_unordered"}
# modules whose seeded callables are not determinism APIs in the sense of C17 (colour hashing)
NON_API_MODULES = ("plot", "schematic")
RANDOM_OK = {"Random", "SystemRandom"}
NPRANDOM_SEEDED_CTORS = {"default_rng", "RandomState", "Generator", "SeedSequence", "PCG64", "MT19937"}
ORDERED_CONSUMERS = {"list", "tuple", "iter", "next", "enumerate", "zip", "map", "oset", "reversed",
                     "filter"}
SET_METHODS = {"union", "intersection", "difference", "symmetric_difference", "copy"}
# method names that show a receiver to be a builtin / library object rather than a cotengra class
BUILTIN_EVIDENCE = {
    "append", "extend", "items", "keys", "values", "get", "setdefault", "popitem", "sort", "insert", "index",
    "count", "join", "format", "split", "startswith", "endswith", "strip", "result", "submit", "shuffle",
    "choice", "choices", "random", "randint", "randrange", "uniform", "sample", "expovariate", "most_common",
    "lower", "upper", "replace", "tolist", "reshape", "astype", "appendleft", "popleft", "isdisjoint",
    "issubset", "issuperset", "fromkeys", "normal", "integers", "encode", "hexdigest", "cancel", "done",
}


# Order-sensitive consumptions of a `set` that were reviewed by hand: the elements are integers
# (node ids / input positions), whose hash -- hence the iteration order for a given insertion
# history -- does not depend on PYTHONHASHSEED; or the consuming fold is order-insensitive.  Keyed by (function, construct), not by line, so
# that unrelated edits do not invalidate the review; a *new* construct in these functions, or the
# same construct in another function, is flagged again.
REVIEWED_INT_SETS = {
    ("pathfinders.path_basic:ContractionProcessor.subgraphs", "<set>.pop()"):
        "remaining = set(self.nodes): node ids are ints (enumerate(inputs) / ssa counter)",
    ("core:ContractionTree.slice_arrays", "iteration over <set>"):
        "self.sliced_inputs: frozenset of input positions (ints)",
    ("hypergraph:HyperGraph.simple_distance", "iteration over <set>"): "region: set of node ids (ints)",
    ("hypergraph:HyperGraph.simple_distance", "list(<set>)"): "region: set of node ids (ints)",
    ("hypergraph:HyperGraph.neighborhood_size", "map(<set>)"): "neighborhood: set of node ids (ints)",
    ("hypergraph:HyperGraph.all_shortest_distances", "iteration over <set>"): "visitors: sets of node ids (ints)",
    ("hypergraph:HyperGraph.neighborhood_compress_cost", "iteration over <set>"):
        "region_edges is a set of index labels (str), but the loop only groups the edges by their node set "
        "and the cost is a sum of integers: the value does not depend on the iteration order",
}

# C17's enumerated families (statement of the property): the static obligation ranges over these;
# the other seeded callables are analysed and reported as notes (outside the enumerated scope).
def in_scope(q):
    mod, name = q.split(":")
    if mod == "utils":
        return True
    if mod == "core":
        return name.split(".")[-1] in ("get_subtree", "unslice_rand", "subtree_reconfigure",
                                       "subtree_reconfigure_forest", "slice", "build_divide", "build_agglom",
                                       "jitter_dict") and not name.startswith("ContractionTreeCompressed")
    if mod == "slicer":
        return name.startswith("SliceFinder.")
    if mod == "pathfinders.path_basic":
        return name.startswith("RandomGreedyOptimizer.") or name in (
            "optimize_random_greedy_track_flops", "ContractionProcessor.optimize_greedy")
    if mod == "pathfinders.path_random":
        return True
    if mod == "pathfinders.path_simulated_annealing":
        return True
    if mod in ("pathfinders.path_labels", "pathfinders.path_kahypar", "pathfinders.path_igraph"):
        return True
    return False


class Fn:
    def __init__(self, qname, module, cls, node):
        self.qname, self.module, self.cls, self.node = qname, module, cls, node
        a = node.args
        self.params = [x.arg for x in a.posonlyargs + a.args]
        self.kwonly = [x.arg for x in a.kwonlyargs]
        self.varkw = a.kwarg.arg if a.kwarg else None
        self.vararg = a.vararg.arg if a.vararg else None
        allp = self.params + self.kwonly
        self.seed_param = next((s for s in SEED_NAMES if s in allp), None)
        self.name = node.name


def _modname(path, root):
    rel = os.path.relpath(path, root)[:-3].replace(os.sep, ".")
    if rel.endswith(".__init__"):
        rel = rel[:-9]
    return rel


class Extractor:
    def __init__(self, repo):
        self.root = os.path.join(repo, "cotengra")
        self.fns = {}            # qname -> Fn
        self.by_name = {}        # simple name -> [qname]   (module-level functions)
        self.methods = {}        # simple name -> [qname]   (methods)
        self.classes = {}        # class name -> {"module", "bases", "methods": {name: qname}, "aliases": {a: b}}
        self.mod_funcs = {}      # module -> {name: qname}
        self.mod_imports = {}    # module -> {local name: ("mod"|"name", target)}
        self.mod_aliases = {}    # module -> {alias: name}  (module-level  a = b)
        self.trees = {}
        self._parse()
        self._class_attr_info()

    # ---------------------------------------------------------------- parsing
    def _parse(self):
        for dp, dn, fns in os.walk(self.root):
            dn[:] = sorted(d for d in dn if d not in EXCLUDE_DIRS and not d.startswith("__"))
            for fn in sorted(fns):
                if not fn.endswith(".py"):
                    continue
                path = os.path.join(dp, fn)
                mod = _modname(path, self.root)
                tree = ast.parse(open(path).read())
                self.trees[mod] = tree
                self.mod_funcs[mod] = {}
                self.mod_imports[mod] = {}
                self.mod_aliases[mod] = {}
                for node in tree.body:
                    self._top(mod, node)
                for node in ast.walk(tree):
                    if isinstance(node, ast.Import):
                        for al in node.names:
                            self.mod_imports[mod][al.asname or al.name.split(".")[0]] = ("mod", al.name)
                    elif isinstance(node, ast.ImportFrom):
                        for al in node.names:
                            self.mod_imports[mod][al.asname or al.name] = ("name", (node.module or "", al.name))

    def _top(self, mod, node):
        if isinstance(node, (ast.FunctionDef, ast.AsyncFunctionDef)):
            q = f"{mod}:{node.name}"
            self.fns[q] = Fn(q, mod, None, node)
            self.mod_funcs[mod][node.name] = q
            self.by_name.setdefault(node.name, []).append(q)
        elif isinstance(node, ast.ClassDef):
            info = {"module": mod, "bases": [b.id if isinstance(b, ast.Name) else getattr(b, "attr", "?")
                                             for b in node.bases], "methods": {}, "aliases": {}}
            self.classes.setdefault(node.name, info)
            for sub in node.body:
                if isinstance(sub, (ast.FunctionDef, ast.AsyncFunctionDef)):
                    q = f"{mod}:{node.name}.{sub.name}"
                    self.fns[q] = Fn(q, mod, node.name, sub)
                    info["methods"][sub.name] = q
                    self.methods.setdefault(sub.name, []).append(q)
                elif isinstance(sub, ast.Assign) and len(sub.targets) == 1 and isinstance(sub.targets[0], ast.Name):
                    tgt = self._alias_target(sub.value)
                    if tgt:
                        info["aliases"][sub.targets[0].id] = tgt
        elif isinstance(node, ast.Assign) and len(node.targets) == 1 and isinstance(node.targets[0], ast.Name):
            tgt = self._alias_target(node.value)
            if tgt:
                self.mod_aliases[mod][node.targets[0].id] = tgt
        elif isinstance(node, (ast.If, ast.Try)):
            for sub in ast.iter_child_nodes(node):
                if isinstance(sub, ast.stmt):
                    self._top(mod, sub)

    @staticmethod
    def _alias_target(v):
        """`x = name`  /  `x = functools.partial[method](name, ...)`  ->  name"""
        if isinstance(v, ast.Name):
            return v.id
        if isinstance(v, ast.Call) and isinstance(v.func, ast.Attribute) and \
                v.func.attr in ("partialmethod", "partial") and v.args and isinstance(v.args[0], ast.Name):
            return v.args[0].id
        return None

    def _hierarchy(self, cls):
        """class names related to `cls` by inheritance inside cotengra (both directions)."""
        rel = {cls}
        changed = True
        while changed:
            changed = False
            for c, info in self.classes.items():
                if c in rel:
                    for b in info["bases"]:
                        if b in self.classes and b not in rel:
                            rel.add(b)
                            changed = True
                elif any(b in rel for b in info["bases"]):
                    rel.add(c)
                    changed = True
        return sorted(rel)       # (a list: the traversal order must not depend on the harness's own hash seed)

    # ---------------------------------------------------------------- class attribute facts
    def _class_attr_info(self):
        """per class: attributes assigned in any method from a seed-derived expression
        (`self.rng = get_rng(seed)`), from a set-typed expression, and callable attributes."""
        self.seeded_attrs = {}     # class -> set(attr)
        self.set_attrs = {}        # class -> set(attr)
        self.callable_attrs = {}   # class -> {attr: ("param", pname) | ("call", fname)}
        for cname, info in self.classes.items():
            sa, st, ca = set(), set(), {}
            for mname, q in info["methods"].items():
                fn = self.fns[q]
                derived = self._derived_names(fn, set())
                for node in ast.walk(fn.node):
                    if isinstance(node, ast.Assign):
                        for t in node.targets:
                            if isinstance(t, ast.Attribute) and isinstance(t.value, ast.Name) and t.value.id == "self":
                                if self._mentions(node.value, derived, set()):
                                    sa.add(t.attr)
                                if self._is_set_expr(node.value, set(), set()):
                                    st.add(t.attr)
                                if mname == "__init__":
                                    if isinstance(node.value, ast.Name) and node.value.id in fn.params:
                                        ca[t.attr] = ("param", node.value.id)
                                    elif isinstance(node.value, ast.Call) and isinstance(node.value.func, ast.Name):
                                        ca[t.attr] = ("call", node.value.func.id)
            self.seeded_attrs[cname] = sa
            self.set_attrs[cname] = st
            self.callable_attrs[cname] = ca
        # instantiation sites  C(fn_name, ...)  anywhere in the package
        self.inst_args = {}        # class -> {param name: set(function simple names)}
        for mod, tree in self.trees.items():
            for node in ast.walk(tree):
                if isinstance(node, ast.Call) and isinstance(node.func, ast.Name) and node.func.id in self.classes:
                    cinfo = self.classes[node.func.id]
                    initq = cinfo["methods"].get("__init__")
                    if not initq:
                        continue
                    params = self.fns[initq].params[1:]
                    for i, a in enumerate(node.args):
                        if isinstance(a, ast.Name) and i < len(params) and a.id in self.by_name:
                            self.inst_args.setdefault(node.func.id, {}).setdefault(params[i], set()).add(a.id)
                    for kw in node.keywords:
                        if kw.arg and isinstance(kw.value, ast.Name) and kw.value.id in self.by_name:
                            self.inst_args.setdefault(node.func.id, {}).setdefault(kw.arg, set()).add(kw.value.id)

    # ---------------------------------------------------------------- expression classification
    def _derived_names(self, fn, seeded_attrs):
        """local names that carry the caller's seed / generator (fixpoint over assignments)."""
        d = set()
        if fn.seed_param:
            d.add(fn.seed_param)
        for s in SEED_NAMES:
            if s in fn.params + fn.kwonly:
                d.add(s)
        changed = True
        while changed:
            changed = False
            for node in ast.walk(fn.node):
                if isinstance(node, ast.Assign) and self._mentions(node.value, d, seeded_attrs):
                    for t in node.targets:
                        for n in self._target_names(t):
                            if n not in d:
                                d.add(n)
                                changed = True
        return d

    @staticmethod
    def _target_names(t):
        """plain names bound by an assignment target (not the bases of attributes / subscripts)"""
        if isinstance(t, ast.Name):
            return [t.id]
        if isinstance(t, (ast.Tuple, ast.List)):
            out = []
            for e in t.elts:
                out.extend(Extractor._target_names(e))
            return out
        if isinstance(t, ast.Starred):
            return Extractor._target_names(t.value)
        return []

    @staticmethod
    def _mentions(expr, names, seeded_attrs):
        for n in ast.walk(expr):
            if isinstance(n, ast.Name) and n.id in names:
                return True
            if isinstance(n, ast.Attribute) and isinstance(n.value, ast.Name) and n.value.id == "self" \
                    and n.attr in seeded_attrs:
                return True
        return False

    def _is_set_expr(self, e, set_names, set_attrs):
        if isinstance(e, (ast.Set, ast.SetComp)):
            return True
        if isinstance(e, ast.Call):
            if isinstance(e.func, ast.Name) and e.func.id in ("set", "frozenset"):
                return True
            if isinstance(e.func, ast.Attribute) and e.func.attr in SET_METHODS and \
                    self._is_set_expr(e.func.value, set_names, set_attrs):
                return True
        if isinstance(e, ast.BinOp) and isinstance(e.op, (ast.BitOr, ast.BitAnd, ast.Sub, ast.BitXor)):
            return self._is_set_expr(e.left, set_names, set_attrs) or self._is_set_expr(e.right, set_names, set_attrs)
        if isinstance(e, ast.Name) and e.id in set_names:
            return True
        if isinstance(e, ast.Attribute) and isinstance(e.value, ast.Name) and e.value.id == "self" \
                and e.attr in set_attrs:
            return True
        return False

    @staticmethod
    def _evidently_int_elems(e):
        """set(range(..)), {1, 2}, frozenset([i]) with integer literals, set(map(int, ..))"""
        if isinstance(e, ast.Set):
            return all(isinstance(x, ast.Constant) and isinstance(x.value, int) for x in e.elts)
        if isinstance(e, ast.Call) and isinstance(e.func, ast.Name) and e.func.id in ("set", "frozenset"):
            if not e.args:
                return True
            a = e.args[0]
            if isinstance(a, ast.Call) and isinstance(a.func, ast.Name) and a.func.id == "range":
                return True
            if isinstance(a, (ast.List, ast.Tuple)) and all(
                    isinstance(x, ast.Constant) and isinstance(x.value, int) for x in a.elts):
                return True
        return False


    # ---------------------------------------------------------------- receiver typing
    def _method_table(self, cls, seen=None):
        """method name -> [Fn] for class `cls`, including inherited methods and class-level aliases
        (an alias may point to a module-level function)."""
        seen = seen or set()
        if cls in seen or cls not in self.classes:
            return {}
        seen.add(cls)
        info = self.classes[cls]
        tab = {}
        for b in info["bases"]:
            for k, v in self._method_table(b, seen).items():
                tab[k] = v
        for k, q in info["methods"].items():
            tab[k] = [self.fns[q]]
        for a, tgt in info["aliases"].items():
            t, guard = tgt, set()
            while t in info["aliases"] and t not in guard:
                guard.add(t)
                t = info["aliases"][t]
            if t in tab:
                tab[a] = tab[t]
            elif t in self.by_name:
                tab[a] = [self.fns[q] for q in self.by_name[t]]
        return tab

    def _subclasses(self, cls):
        out = {cls}
        changed = True
        while changed:
            changed = False
            for c, info in self.classes.items():
                if c not in out and any(b in out for b in info["bases"]):
                    out.add(c)
                    changed = True
        return sorted(out)

    def _ctor_class(self, e, fn, depth=0):
        """class evidently produced by expression `e` (constructor call, classmethod on a class,
        `self` / `self.copy()`, a cotengra function that returns such an expression)."""
        if isinstance(e, ast.Name) and e.id == "self" and fn.cls:
            return fn.cls
        if isinstance(e, ast.IfExp):
            return self._ctor_class(e.body, fn, depth) or self._ctor_class(e.orelse, fn, depth)
        if isinstance(e, ast.Call):
            f = e.func
            if isinstance(f, ast.Name):
                if f.id in self.classes:
                    return f.id
                if f.id == "cls" and fn.cls:
                    return fn.cls
                if depth < 2:
                    cands = []
                    if f.id in self.mod_funcs[fn.module]:
                        cands = [self.fns[self.mod_funcs[fn.module][f.id]]]
                    elif self.mod_imports[fn.module].get(f.id, ("", ""))[0] == "name":
                        cands = [self.fns[q] for q in self.by_name.get(self.mod_imports[fn.module][f.id][1][1], [])]
                    for g in cands:
                        for r in ast.walk(g.node):
                            if isinstance(r, ast.Return) and r.value is not None:
                                c = self._ctor_class(r.value, g, depth + 1)
                                if c:
                                    return c
            if isinstance(f, ast.Attribute):
                if isinstance(f.value, ast.Name) and f.value.id in self.classes:
                    return f.value.id            # ContractionTree.from_path(...)
                if isinstance(f.value, ast.Name) and f.value.id in ("self", "cls") and fn.cls and \
                        f.attr in ("copy", "__class__", "from_path", "from_info", "from_eq", "from_pathinfo"):
                    return fn.cls
                if isinstance(f.value, ast.Attribute) and f.value.attr == "__class__":
                    return fn.cls
        return None

    def _local_types(self, fn):
        """local name -> class, from evident constructor expressions"""
        types = {}
        for node in ast.walk(fn.node):
            if isinstance(node, ast.Assign) and len(node.targets) == 1 and isinstance(node.targets[0], ast.Name):
                c = self._ctor_class(node.value, fn)
                if c:
                    types.setdefault(node.targets[0].id, c)
        return types

    def _recv_methods(self, fn):
        """receiver key -> set of method names called on it ('n:<name>' in this function,
        'a:<attr>' for self.<attr> across the class hierarchy)"""
        out = {}

        def scan(f2, want_names):
            for node in ast.walk(f2.node):
                if isinstance(node, ast.Call) and isinstance(node.func, ast.Attribute):
                    v = node.func.value
                    if want_names and isinstance(v, ast.Name):
                        out.setdefault("n:" + v.id, set()).add(node.func.attr)
                    if isinstance(v, ast.Attribute) and isinstance(v.value, ast.Name) and v.value.id == "self":
                        out.setdefault("a:" + v.attr, set()).add(node.func.attr)
        scan(fn, True)
        if fn.cls:
            for c in self._hierarchy(fn.cls):
                for q in self.classes[c]["methods"].values():
                    if q != fn.qname:
                        scan(self.fns[q], False)
        return out

    def _attr_types(self, fn):
        types = {}
        if fn.cls:
            for c in self._hierarchy(fn.cls):
                for q in self.classes[c]["methods"].values():
                    f2 = self.fns[q]
                    for node in ast.walk(f2.node):
                        if isinstance(node, ast.Assign):
                            for t in node.targets:
                                if isinstance(t, ast.Attribute) and isinstance(t.value, ast.Name) and \
                                        t.value.id == "self":
                                    cc = self._ctor_class(node.value, f2)
                                    if cc:
                                        types.setdefault(t.attr, cc)
        return types

    # ---------------------------------------------------------------- per-function facts
    def analyse(self, q):
        """Returns dict with raw facts of function q (mode-independent part + per-mode edges)."""
        fn = self.fns[q]
        seeded_attrs = set()
        set_attrs = set()
        if fn.cls:
            for c in self._hierarchy(fn.cls):
                seeded_attrs |= self.seeded_attrs.get(c, set())
                set_attrs |= self.set_attrs.get(c, set())
        derived = self._derived_names(fn, seeded_attrs)
        # local set-typed names
        set_names = set()
        intset_names = set()
        changed = True
        while changed:
            changed = False
            for node in ast.walk(fn.node):
                if isinstance(node, (ast.Assign, ast.AugAssign, ast.AnnAssign)):
                    val = node.value
                    tgts = node.targets if isinstance(node, ast.Assign) else [node.target]
                    if val is not None and self._is_set_expr(val, set_names, set_attrs):
                        for t in tgts:
                            if isinstance(t, ast.Name) and t.id not in set_names:
                                set_names.add(t.id)
                                if self._evidently_int_elems(val):
                                    intset_names.add(t.id)
                                changed = True
        # dict literals with a derived "seed" entry (for **splat calls)
        seed_dict = False
        for node in ast.walk(fn.node):
            if isinstance(node, ast.Dict):
                for k, v in zip(node.keys, node.values):
                    if isinstance(k, ast.Constant) and k.value in SEED_NAMES and \
                            self._mentions(v, derived, seeded_attrs):
                        seed_dict = True
            if isinstance(node, ast.Call) and isinstance(node.func, ast.Name) and node.func.id == "dict":
                for kw in node.keywords:
                    if kw.arg in SEED_NAMES and self._mentions(kw.value, derived, seeded_attrs):
                        seed_dict = True
            if isinstance(node, ast.Assign):
                for t in node.targets:
                    if isinstance(t, ast.Subscript) and isinstance(t.slice, ast.Constant) and \
                            t.slice.value in SEED_NAMES and self._mentions(node.value, derived, seeded_attrs):
                        seed_dict = True

        facts = {"global_any": [], "global_U": [], "global_S": [], "hash": [], "sched": [], "edges": []}
        imports = self.mod_imports[fn.module]

        # ---- generator-variable data flow (harness/c17_rngflow.py; Lean: Model/RngFlow.lean) ----
        # the skeleton of the function entered WITH a seed; a sink that may receive None / the global
        # module turns the corresponding edge into an unseeded one (or taints the row itself)
        sk = rngflow.skeleton(fn.node, fn.seed_param, sorted(seeded_attrs), fn.name == "__init__", imports)
        bad = rngflow.bad_sinks(sk)
        facts["skeleton"] = sk
        facts["bad_sinks"] = bad
        bad_nodes = set()
        by_k = {x["k"]: x for x in sk["sinks"]}
        for k in bad:
            x = by_k.get(k)
            if x is None:
                facts["global_S"].append(("a loop invariant of the generator variables could not be established", 0))
                continue
            if x["kind"] in ("kw", "pos"):
                bad_nodes.add(id(x["node"]))
            elif x["kind"] == "dict":
                bad_nodes.add("dict")
            facts["global_S"].append((f"data flow, sink `{x['kind']}`: the value used as seed / generator may be "
                                      f"None or the global generator on some path", x["line"]))
        if "dict" in bad_nodes:
            seed_dict = False

        def is_random_module(e):
            return isinstance(e, ast.Name) and imports.get(e.id) == ("mod", "random")

        def is_np_random(e):
            if isinstance(e, ast.Attribute) and e.attr == "random" and isinstance(e.value, ast.Name) and \
                    imports.get(e.value.id, ("", ""))[1] in ("numpy",):
                return True
            if isinstance(e, ast.Name) and imports.get(e.id) in (("name", ("numpy", "random")), ("mod", "numpy.random")):
                return True
            return False

        def seed_arg_of(call, callee):
            """classify what the call passes as the callee's seed parameter:
            'derived' | 'none' | 'absent' | 'other' | 'splat'"""
            names = SEED_NAMES
            if id(call) in bad_nodes:
                # data flow: on some path the value passed as the seed is None / not derived
                return "none"

            def cls_of(e):
                if self._mentions(e, derived, set()):
                    return "derived"          # carries the caller's own seed parameter
                if self._mentions(e, set(), seeded_attrs):
                    return "other"            # carries the object's generator (seeded at construction)
                return "other"

            for kw in call.keywords:
                if kw.arg in names:
                    if isinstance(kw.value, ast.Constant) and kw.value.value is None:
                        return "none"
                    return cls_of(kw.value)
            if callee is not None and callee.seed_param in callee.params:
                pos = callee.params.index(callee.seed_param)
                if callee.cls:   # bound call: self is implicit
                    pos -= 1
                if 0 <= pos < len(call.args) and not any(isinstance(a, ast.Starred) for a in call.args[:pos + 1]):
                    a = call.args[pos]
                    if isinstance(a, ast.Constant) and a.value is None:
                        return "none"
                    return cls_of(a)
            for kw in call.keywords:
                if kw.arg is None:   # **something
                    if isinstance(kw.value, ast.Name) and kw.value.id == fn.varkw:
                        # the caller's own **kwargs can carry a seed only if `seed` is not one of
                        # the caller's named parameters
                        return "absent" if fn.seed_param else "passthrough"
                    return "derived" if seed_dict else "absent"
            if any(isinstance(a, ast.Starred) for a in call.args):
                if any(isinstance(a, ast.Starred) and isinstance(a.value, ast.Name) and a.value.id == fn.vararg
                       for a in call.args):
                    return "passthrough"
            return "absent"

        called_funcs = set()

        def resolve_name(name):
            """simple name -> list of Fn (module function, imported function, class ctor)"""
            out = []
            seen = set()
            while name in self.mod_aliases[fn.module] and name not in seen:
                seen.add(name)
                name = self.mod_aliases[fn.module][name]
            if name in self.mod_funcs[fn.module]:
                out.append(self.fns[self.mod_funcs[fn.module][name]])
            elif name in imports and imports[name][0] == "name":
                tgt = imports[name][1][1]
                for q2 in self.by_name.get(tgt, []):
                    out.append(self.fns[q2])
                if tgt in self.classes:
                    name = tgt
            if name in self.classes:
                for c in [name]:
                    q2 = self._find_method(c, "__init__")
                    if q2:
                        out.append(self.fns[q2])
            return out

        local_types = self._local_types(fn)
        attr_types = self._attr_types(fn)
        recv_methods = self._recv_methods(fn)
        all_method_names = set(self.methods)
        for cinfo in self.classes.values():
            all_method_names |= set(cinfo["aliases"])
        facts["opaque"] = 0

        def classes_for_receiver(v, attr):
            """candidate classes of the receiver expression `v` of a call `v.attr(...)`;
            None = unknown receiver"""
            if isinstance(v, ast.Name) and v.id in ("self", "cls") and fn.cls:
                return [fn.cls], True
            key = None
            if isinstance(v, ast.Name):
                if v.id in local_types:
                    return [local_types[v.id]], True
                key = "n:" + v.id
            elif isinstance(v, ast.Attribute) and isinstance(v.value, ast.Name) and v.value.id == "self":
                if v.attr in attr_types:
                    return [attr_types[v.attr]], True
                key = "a:" + v.attr
            else:
                c = self._ctor_class(v, fn)
                if c:
                    return [c], True
            if key is None:
                return None, False
            called = recv_methods.get(key, {attr})
            if (called - all_method_names) & BUILTIN_EVIDENCE:
                return [], False
            known = called & all_method_names
            cands = [c for c in self.classes if known <= set(self._method_table(c))]
            hs = []
            for c in cands:
                if not any(c in h for h in hs):
                    hs.append(self._hierarchy(c))
            if len(hs) > 1:
                # several unrelated classes fit.  Tie-break by the receiver's name: `tree.m()` is
                # a call on a class whose name contains "tree" (cotengra's naming convention);
                # otherwise the call is dynamic dispatch and stays opaque
                nm = key[2:].lower().strip("_")
                named = [c for c in cands if len(nm) >= 3 and nm in c.lower()]
                hs2 = []
                for c in named:
                    if not any(c in h for h in hs2):
                        hs2.append(self._hierarchy(c))
                if len(hs2) == 1:
                    return named, False
                facts["opaque"] += 1
                return [], False
            return cands, False

        def resolve_method(attr, on_self, recv=None):
            out = []
            cands, exact = classes_for_receiver(recv, attr) if recv is not None else (None, False)
            if cands is None:
                # unknown receiver: only an unambiguous method name is resolved
                hs = []
                for c in self.classes:
                    if attr in self._method_table(c) and not any(c in h for h in hs):
                        hs.append(self._hierarchy(c))
                if len(hs) == 1:
                    cands = sorted(hs[0])
                else:
                    if hs:
                        facts["opaque"] += 1
                    cands = []
            for c in cands:
                for c2 in (self._subclasses(c) if exact else [c]):
                    out.extend(self._method_table(c2).get(attr, []))
            if on_self and fn.cls:
                # callable attribute bound in __init__
                for c in self._hierarchy(fn.cls):
                    b = self.callable_attrs.get(c, {}).get(attr)
                    if not b:
                        continue
                    if b[0] == "param":
                        for fname in sorted(self.inst_args.get(c, {}).get(b[1], ())):
                            out.extend(self.fns[q2] for q2 in self.by_name.get(fname, []))
                    else:
                        for g in self.by_name.get(b[1], []):
                            for r in ast.walk(self.fns[g].node):
                                if isinstance(r, ast.Return) and isinstance(r.value, ast.Name):
                                    out.extend(self.fns[q2] for q2 in self.by_name.get(r.value.id, []))
            uniq, seen = [], set()
            for f2 in out:
                if f2.qname not in seen:
                    seen.add(f2.qname)
                    uniq.append(f2)
            return uniq

        def add_edge(callee, how, line):
            facts["edges"].append((callee.qname, how, line))

        for node in ast.walk(fn.node):
            if isinstance(node, ast.Call):
                f = node.func
                # ---- primitives: get_rng / random.* / np.random.* ---------------------------
                if isinstance(f, ast.Name) and f.id == "get_rng" or \
                        (isinstance(f, ast.Attribute) and f.attr == "get_rng"):
                    # (entered WITH a seed, whether this call is reached with None is decided by the
                    # data flow above -- every get_rng call is a sink of the skeleton)
                    if not node.args and not node.keywords:
                        facts["global_U"].append(("get_rng()", node.lineno))
                    else:
                        a = node.args[0] if node.args else node.keywords[0].value
                        if isinstance(a, ast.Constant) and a.value is None:
                            facts["global_U"].append(("get_rng(None)", node.lineno))
                        elif self._mentions(a, derived, seeded_attrs):
                            facts["global_U"].append(("get_rng(seed) with seed=None", node.lineno))
                    continue
                if isinstance(f, ast.Attribute) and is_random_module(f.value):
                    if f.attr not in RANDOM_OK:
                        facts["global_any"].append((f"random.{f.attr}", node.lineno))
                    elif not node.args and not node.keywords:
                        facts["global_any"].append((f"random.{f.attr}() unseeded", node.lineno))
                    elif self._mentions(node.args[0] if node.args else node.keywords[0].value, derived, seeded_attrs):
                        facts["global_U"].append((f"random.{f.attr}(seed) with seed=None", node.lineno))
                    continue
                if isinstance(f, ast.Attribute) and is_np_random(f.value):
                    if f.attr in NPRANDOM_SEEDED_CTORS:
                        a = node.args[0] if node.args else (node.keywords[0].value if node.keywords else None)
                        if a is None or (isinstance(a, ast.Constant) and a.value is None):
                            facts["global_any"].append((f"np.random.{f.attr}() unseeded", node.lineno))
                        elif self._mentions(a, derived, seeded_attrs):
                            facts["global_U"].append((f"np.random.{f.attr}(seed) with seed=None", node.lineno))
                    else:
                        facts["global_any"].append((f"np.random.{f.attr}", node.lineno))
                    continue
                if isinstance(f, ast.Name) and f.id in ("hash", "id") and f.id not in self.mod_funcs[fn.module]:
                    facts["hash"].append((f"builtin {f.id}()", node.lineno))
                # ---- ordered consumption of a set ------------------------------------------
                if isinstance(f, ast.Name) and f.id in ORDERED_CONSUMERS:
                    for a in node.args:
                        if self._is_set_expr(a, set_names, set_attrs) and not self._int_set(a, intset_names):
                            facts["hash"].append((f"{f.id}(<set>)", node.lineno))
                # max / min / sorted WITH a key over a set: ties between keys are broken by the
                # iteration order (and a key function that draws from a generator pairs draws with
                # elements in that order)
                if isinstance(f, ast.Name) and f.id in ("max", "min", "sorted") and \
                        any(kw.arg == "key" for kw in node.keywords):
                    for a in node.args[:1]:
                        if self._is_set_expr(a, set_names, set_attrs) and not self._int_set(a, intset_names):
                            facts["hash"].append((f"{f.id}(<set>, key=..)", node.lineno))
                if isinstance(f, ast.Attribute) and f.attr == "join" and node.args and \
                        self._is_set_expr(node.args[0], set_names, set_attrs):
                    facts["hash"].append(("join(<set>)", node.lineno))
                if isinstance(f, ast.Attribute) and f.attr == "pop" and not node.args and \
                        self._is_set_expr(f.value, set_names, set_attrs) and not self._int_set(f.value, intset_names):
                    facts["hash"].append(("<set>.pop()", node.lineno))
                if isinstance(f, ast.Attribute) and f.attr == "fromkeys" and node.args and \
                        self._is_set_expr(node.args[0], set_names, set_attrs):
                    facts["hash"].append(("dict.fromkeys(<set>)", node.lineno))
                # ---- results of a pool consumed in completion order ------------------------
                sname = f.id if isinstance(f, ast.Name) else (f.attr if isinstance(f, ast.Attribute) else None)
                if sname in SCHED_ORDERED or (sname == "wait" and self._is_futures_wait(f, imports)):
                    if self._order_consumed(fn.node, node):
                        facts["sched"].append((f"{sname}(..) consumed in completion order", node.lineno))
                # ---- calls into cotengra ---------------------------------------------------
                targets = []
                if isinstance(f, ast.Name):
                    targets = resolve_name(f.id)
                    called_funcs.add(id(f))
                elif isinstance(f, ast.Attribute):
                    on_self = isinstance(f.value, ast.Name) and f.value.id in ("self", "cls")
                    base_is_module = isinstance(f.value, ast.Name) and imports.get(f.value.id, ("", ""))[0] == "mod"
                    if base_is_module:
                        targets = []
                    else:
                        targets = resolve_method(f.attr, on_self, f.value)
                        if not on_self and isinstance(f.value, ast.Name) and f.value.id in imports and \
                                imports[f.value.id][0] == "name":
                            # module imported by name: `from . import utils` ; utils.fn(...)
                            targets = targets + [self.fns[q2] for q2 in self.by_name.get(f.attr, [])]
                for callee in targets:
                    add_edge(callee, seed_arg_of(node, callee), node.lineno)
                # external callee given the (absent) seed: nx.random_regular_graph(.., seed=seed)
                if not targets:
                    for kw in node.keywords:
                        if kw.arg in SEED_NAMES and self._mentions(kw.value, derived, seeded_attrs):
                            facts["global_U"].append(("external call given seed=None", node.lineno))
                # function references among the arguments (submit(pool, fn, **kw), partial(fn, ..))
                for a in list(node.args) + [kw.value for kw in node.keywords]:
                    if isinstance(a, ast.Name):
                        for callee in resolve_name(a.id):
                            if callee.name != "__init__" or a.id in self.classes:
                                how = seed_arg_of(node, None)
                                add_edge(callee, "ref:" + how, node.lineno)
                                called_funcs.add(id(a))
                    elif isinstance(a, ast.Attribute) and isinstance(a.value, ast.Name) and a.value.id == "self":
                        for callee in resolve_method(a.attr, True, a.value):
                            add_edge(callee, "ref:" + seed_arg_of(node, None), node.lineno)
            # ---- for loops / comprehensions over sets ------------------------------------
            iters = []
            if isinstance(node, (ast.For, ast.AsyncFor)):
                iters.append(node.iter)
            if isinstance(node, (ast.ListComp, ast.SetComp, ast.DictComp, ast.GeneratorExp)):
                # a set comprehension over a set does not expose the order
                if not isinstance(node, ast.SetComp):
                    iters.extend(g.iter for g in node.generators)
            for it in iters:
                if self._is_set_expr(it, set_names, set_attrs) and not self._int_set(it, intset_names):
                    facts["hash"].append(("iteration over <set>", it.lineno))
        # plain references to known functions (dict of functions, default values ...)
        for node in ast.walk(fn.node):
            if isinstance(node, ast.Name) and isinstance(node.ctx, ast.Load) and id(node) not in called_funcs:
                if node.id in self.mod_funcs[fn.module] or imports.get(node.id, ("", ""))[0] == "name":
                    for callee in resolve_name(node.id):
                        if callee.name == "__init__":
                            continue
                        if callee.qname != q:
                            add_edge(callee, "ref:caller", node.lineno)
        facts["seed_param"] = fn.seed_param
        facts["transparent"] = bool(fn.varkw)
        return facts

    @staticmethod
    def _is_futures_wait(f, imports):
        """`wait` of concurrent.futures / asyncio (returns *sets* of futures / completion order)"""
        if isinstance(f, ast.Name):
            imp = imports.get(f.id)
            return bool(imp) and imp[0] == "name" and imp[1][0] in ("concurrent.futures", "asyncio", "distributed")
        if isinstance(f, ast.Attribute):
            base = f.value
            nm = base.attr if isinstance(base, ast.Attribute) else (base.id if isinstance(base, ast.Name) else "")
            return nm in ("futures", "concurrent", "asyncio", "cf", "distributed")
        return False

    @staticmethod
    def _order_consumed(fn_node, call):
        """is the value of `call` (an iterator over futures in completion order) consumed in a way
        that exposes the order?  Not when it only drives a loop whose variable is never used (a
        progress bar) or when it is a bare expression statement."""
        parent = {}
        for n in ast.walk(fn_node):
            for ch in ast.iter_child_nodes(n):
                parent[id(ch)] = n
        p = parent.get(id(call))
        if isinstance(p, ast.Expr):
            return False
        if isinstance(p, (ast.For, ast.AsyncFor)) and p.iter is call:
            names = {n.id for n in ast.walk(p.target) if isinstance(n, ast.Name)}
            used = {n.id for st in p.body for n in ast.walk(st) if isinstance(n, ast.Name)}
            return bool(names & used)
        return True

    def _int_set(self, e, intset_names):
        return self._evidently_int_elems(e) or (isinstance(e, ast.Name) and e.id in intset_names)

    def _find_method(self, cls, name, seen=None):
        seen = seen or set()
        if cls in seen or cls not in self.classes:
            return None
        seen.add(cls)
        info = self.classes[cls]
        if name in info["methods"]:
            return info["methods"][name]
        for b in info["bases"]:
            r = self._find_method(b, name, seen)
            if r:
                return r
        return None

    # ---------------------------------------------------------------- get_rng primitive
    def get_rng_shape_ok(self):
        q = "utils:get_rng"
        if q not in self.fns:
            return False
        body = [s for s in self.fns[q].node.body
                if not (isinstance(s, ast.Expr) and isinstance(s.value, ast.Constant))]
        want = ("If(test=Compare(left=Name(id='seed'), ops=[Is()], comparators=[Constant(value=None)]), "
                "body=[Return(value=Name(id='random'))], "
                "orelse=[If(test=BoolOp(op=Or(), values=[Call(func=Name(id='isinstance'), "
                "args=[Name(id='seed'), Attribute(value=Name(id='random'), attr='Random')], keywords=[]), "
                "Compare(left=Name(id='seed'), ops=[Is()], comparators=[Name(id='random')])]), "
                "body=[Return(value=Name(id='seed'))], "
                "orelse=[Return(value=Call(func=Attribute(value=Name(id='random'), attr='Random'), "
                "args=[Name(id='seed')], keywords=[]))])])")
        got = ast.dump(ast.Module(body=body, type_ignores=[]), annotate_fields=True, include_attributes=False)
        got = got.replace(", ctx=Load()", "")
        return got == f"Module(body=[{want}], type_ignores=[])"




# ------------------------------------------------------------------------------------------------
# hidden mutable state shared between an object and its copies
#
# `set_state_from` (used by `copy` and by every non-inplace method) copies each attribute to some
# depth: 0 = by reference, 1 = `.copy()` (the container is new, its values are shared),
# 2 = `{k: v.copy() ...}`.  If some method mutates an attribute *in place* at a depth greater than
# the depth it is copied to, a non-inplace (seeded) operation writes into its argument's state
# behind the caller's back and the next identical call sees a different object (seeded change
# C17-3: `already_optimized` copied to depth 1, `already_optimized[obj].add(...)` is depth 2).
MUTATORS = {"add","append","update","pop","clear","setdefault","discard","remove","extend","insert","popitem","sort","difference_update","intersection_update","appendleft","popleft"}
_SHALLOW_CTORS = {"set", "dict", "list", "frozenset", "tuple", "oset"}
def copy_depth(expr, src_is):
    """depth of the copy an expression makes of `src` (src_is(e) recognises the source expression)"""
    if src_is(expr): return 0
    if isinstance(expr, ast.Call) and isinstance(expr.func, ast.Attribute) and expr.func.attr=="copy" and src_is(expr.func.value) and not expr.args: return 1
    if isinstance(expr, ast.Call) and len(expr.args)==1 and src_is(expr.args[0]):
        f=expr.func
        nm=f.id if isinstance(f, ast.Name) else (f.attr if isinstance(f, ast.Attribute) else None)
        if nm=="deepcopy": return 9
        if nm in _SHALLOW_CTORS or nm=="copy": return 1
    if isinstance(expr, ast.DictComp) and len(expr.generators)==1:
        g=expr.generators[0]
        if isinstance(g.iter, ast.Call) and isinstance(g.iter.func, ast.Attribute) and g.iter.func.attr=="items" and src_is(g.iter.func.value):
            v=expr.value
            if isinstance(v, ast.Call) and isinstance(v.func, ast.Attribute) and v.func.attr=="copy": return 2
            if isinstance(v, ast.Call) and len(v.args)==1:
                nm=v.func.id if isinstance(v.func, ast.Name) else getattr(v.func, "attr", None)
                if nm=="deepcopy": return 9
                # any constructor-like call on the value alone (`set(v)`, `type(v)(v)`, `copy(v)`)
                tv = g.target.elts[1] if isinstance(g.target, ast.Tuple) and len(g.target.elts)==2 else None
                if isinstance(tv, ast.Name) and isinstance(v.args[0], ast.Name) and v.args[0].id==tv.id and not v.keywords:
                    return 2
            return 1
    return None
def _copy_depths(repo):
    out={}
    for dp,dn,fns in os.walk(os.path.join(repo,'cotengra')):
        dn[:]=[d for d in dn if d!='experimental']
        for fn in fns:
            if not fn.endswith('.py'): continue
            tree=ast.parse(open(os.path.join(dp,fn)).read())
            for cls in [n for n in ast.walk(tree) if isinstance(n, ast.ClassDef)]:
                for m in cls.body:
                    if isinstance(m, ast.FunctionDef) and m.name=="set_state_from" and len(m.args.args)==2:
                        other=m.args.args[1].arg
                        attrs={}
                        for node in ast.walk(m):
                            if isinstance(node, ast.For) and isinstance(node.target, ast.Name) and isinstance(node.iter,(ast.Tuple,ast.List)):
                                var=node.target.id
                                names=[e.value for e in node.iter.elts if isinstance(e, ast.Constant)]
                                for st in ast.walk(node):
                                    if isinstance(st, ast.Call) and isinstance(st.func, ast.Name) and st.func.id=="setattr" and len(st.args)==3:
                                        def src_is(e): return isinstance(e, ast.Call) and isinstance(e.func, ast.Name) and e.func.id=="getattr" and len(e.args)==2 and isinstance(e.args[0], ast.Name) and e.args[0].id==other
                                        d=copy_depth(st.args[2], src_is)
                                        for a in names: attrs[a]=d
                            if isinstance(node, ast.Assign) and len(node.targets)==1:
                                t=node.targets[0]
                                if isinstance(t, ast.Attribute) and isinstance(t.value, ast.Name) and t.value.id=="self":
                                    a=t.attr
                                    def src_is(e, a=a): return isinstance(e, ast.Attribute) and isinstance(e.value, ast.Name) and e.value.id==other
                                    d=copy_depth(node.value, src_is)
                                    if d is not None or any(isinstance(x, ast.Name) and x.id==other for x in ast.walk(node.value)):
                                        attrs[a]=d
                        out[cls.name]=attrs
    return out
def attr_of(e, attrs):
    """(attr, depth) if e is  R.attr  (depth 0),  R.attr[k] (1), R.attr[k][j] (2) ..."""
    d=0
    while isinstance(e, ast.Subscript): e=e.value; d+=1
    if isinstance(e, ast.Attribute) and e.attr in attrs and isinstance(e.value, ast.Name):
        r = e.value.id
        # the receiver denotes one of the owner objects: `self` inside an owner class, or a
        # name that says so (`tree`, `new_tree`, ...; inside owner classes also `other`, `new`, `t`)
        if "tree" in r.lower() or (not _FOREIGN_SELF[0] and r in ("self", "other", "new", "t")):
            return e.attr, d
    return None
_FOREIGN_SELF=[False]
def _mutations(repo, attrs, owners):
    """deepest in-place mutation of each attribute.  `owners`: names of the classes that own the
    attributes (the class with `set_state_from` and its subclasses); inside *other* classes the
    receiver `self` is not one of these objects."""
    mut={a:(0,None) for a in attrs}
    def note(a,d,where):
        if d>mut[a][0]: mut[a]=(d,where)
    for dp,dn,fns in os.walk(os.path.join(repo,'cotengra')):
        dn[:]=[d for d in dn if d!='experimental']
        for fn in sorted(fns):
            if not fn.endswith('.py'): continue
            tree=ast.parse(open(os.path.join(dp,fn)).read())
            funcs=[]
            for n in tree.body:
                if isinstance(n, ast.FunctionDef): funcs.append((None,n))
                if isinstance(n, ast.ClassDef):
                    funcs.extend((n.name,m) for m in n.body if isinstance(m, ast.FunctionDef))
            for cname,f in funcs:
                if f.name in ("set_state_from","__init__"): continue
                _FOREIGN_SELF[0] = cname is not None and cname not in owners
                alias={}   # local name -> (attr, depth of the object it denotes)
                for _ in range(2):
                  for node in ast.walk(f):
                    if isinstance(node, ast.Assign) and len(node.targets)==1 and isinstance(node.targets[0], ast.Name):
                        v=node.value; r=None
                        if isinstance(v, ast.Subscript): r=attr_of(v, attrs) or (alias.get(v.value.id) and (alias[v.value.id][0], alias[v.value.id][1]+1) if isinstance(v.value, ast.Name) else None)
                        elif isinstance(v, ast.Call) and isinstance(v.func, ast.Attribute) and v.func.attr in ("get","setdefault","pop"):
                            b=attr_of(v.func.value, attrs)
                            if b: r=(b[0], b[1]+1)
                        elif isinstance(v, ast.Attribute): 
                            b=attr_of(v, attrs)
                            if b: r=b
                        if r: alias[node.targets[0].id]=r
                    if isinstance(node, ast.For):
                        it=node.iter
                        if isinstance(it, ast.Call) and isinstance(it.func, ast.Attribute) and it.func.attr in ("items","values"):
                            b=attr_of(it.func.value, attrs)
                            if b:
                                t=node.target
                                tv=t.elts[1] if (it.func.attr=="items" and isinstance(t, ast.Tuple) and len(t.elts)==2) else t
                                if isinstance(tv, ast.Name): alias[tv.id]=(b[0], b[1]+1)
                def obj(e):
                    b=attr_of(e, attrs)
                    if b: return b
                    d=0; x=e
                    while isinstance(x, ast.Subscript): x=x.value; d+=1
                    if isinstance(x, ast.Name) and x.id in alias: return alias[x.id][0], alias[x.id][1]+d
                    return None
                for node in ast.walk(f):
                    where=f"{fn}:{f.name}:{getattr(node,'lineno',0)}"
                    if isinstance(node, ast.Call) and isinstance(node.func, ast.Attribute) and node.func.attr in MUTATORS:
                        b=obj(node.func.value)
                        if b: note(b[0], b[1]+1, where)
                    tg=[]
                    if isinstance(node, ast.Assign): tg=node.targets
                    if isinstance(node, ast.AugAssign): tg=[node.target]
                    if isinstance(node, ast.Delete): tg=node.targets
                    for t in tg:
                        if isinstance(t, ast.Subscript):
                            b=obj(t.value)
                            if b: note(b[0], b[1]+1, where)
    return mut


def sharing_facts(repo):
    """rows (class, attribute, copy depth, deepest in-place mutation, where)"""
    rows = []
    depths = _copy_depths(repo)
    for cls, attrs in sorted(depths.items()):
        if not attrs:
            continue
        owners = {cls}
        changed = True
        trees = []
        for dp, dn, fns in os.walk(os.path.join(repo, "cotengra")):
            dn[:] = [d for d in dn if d not in EXCLUDE_DIRS]
            for fn in fns:
                if fn.endswith(".py"):
                    trees.append(ast.parse(open(os.path.join(dp, fn)).read()))
        while changed:
            changed = False
            for t in trees:
                for n in ast.walk(t):
                    if isinstance(n, ast.ClassDef) and n.name not in owners and \
                            any(isinstance(b, ast.Name) and b.id in owners for b in n.bases):
                        owners.add(n.name)
                        changed = True
        mut = _mutations(repo, attrs, owners)
        for a, d in sorted(attrs.items()):
            rows.append({"cls": cls, "attr": a, "copy": d if d is not None else 0,
                         "copy_recognised": d is not None, "mut": mut[a][0], "where": mut[a][1]})
    return rows


def build(repo):
    """Returns the node table. Each node: {"id", "q", "mode", "calls": [ids], "rdGlobal", "rdHash",
    "why": [...]}; plus the entries (seeded APIs)."""
    ex = Extractor(repo)
    raw = {}

    def facts_of(q):
        if q not in raw:
            raw[q] = ex.analyse(q)
        return raw[q]

    def two_modes(q):
        f = facts_of(q)
        return bool(f["seed_param"]) or f["transparent"]

    nodes = {}     # (q, mode) -> dict
    order = []

    def node_of(q, mode):
        if not two_modes(q):
            mode = "S"
        key = (q, mode)
        if key in nodes:
            return key
        nodes[key] = None
        order.append(key)
        f = facts_of(q)
        why = []
        rg = False
        rh = False
        if q == "utils:get_rng":
            ok = ex.get_rng_shape_ok()
            if mode == "U":
                rg = True
                why.append("get_rng(None) returns the global `random` module")
            elif not ok:
                rg = True
                why.append("get_rng has an unrecognised shape: cannot be treated as a primitive")
            nodes[key] = {"q": q, "mode": mode, "calls": [], "rdGlobal": rg, "rdHash": False, "rdSched": False,
                          "why": why}
            return key
        for what, line in f["global_any"]:
            rg = True
            why.append(f"{what} at line {line}")
        if mode == "U":
            for what, line in f["global_U"]:
                rg = True
                why.append(f"{what} at line {line}")
        else:
            for what, line in f["global_S"]:
                rg = True
                why.append(f"{what} at line {line}")
        rs = False
        for what, line in f["sched"]:
            rs = True
            why.append(f"{what} at line {line}")
        for what, line in f["hash"]:
            if (q, what) in REVIEWED_INT_SETS:
                continue
            rh = True
            why.append(f"{what} at line {line}")
        calls = []
        for callee_q, how, line in f["edges"]:
            ref = how.startswith("ref:")
            h = how[4:] if ref else how
            if not two_modes(callee_q):
                cm = "S"
            elif h == "derived":
                cm = mode            # the caller's own seed is passed on: seeded iff the caller is
            elif h in ("passthrough", "caller"):
                cm = mode
            elif h == "other":
                cm = "S"             # a constant / caller-independent value: deterministic
            else:                    # absent / none
                cm = "U"
                if ref and h == "absent":
                    cm = mode
            calls.append((callee_q, cm))
        nodes[key] = {"q": q, "mode": mode, "calls": calls, "rdGlobal": rg, "rdHash": rh, "rdSched": rs, "why": why}
        for c in calls:
            node_of(*c)
        return key

    # entries: public callables with a `seed` parameter (+ the public methods of seeded classes)
    entries = []
    for q, fn in sorted(ex.fns.items()):
        top = fn.module.split(".")[0]
        if top in NON_API_MODULES:
            continue
        if fn.seed_param != "seed":
            continue
        if fn.name.startswith("_") and fn.name != "__init__":
            continue
        entries.append(q)
        if fn.name == "__init__":
            for c in [fn.cls]:
                for mname, mq in sorted(ex.classes[c]["methods"].items()):
                    if mname == "__init__" or (mname.startswith("_") and mname != "__call__"):
                        continue
                    if mq not in entries:
                        entries.append(mq)
    entry_keys = []
    import sys
    old = sys.getrecursionlimit()
    sys.setrecursionlimit(10000)
    try:
        for q in entries:
            entry_keys.append(node_of(q, "S"))
    finally:
        sys.setrecursionlimit(old)
    ids = {k: i for i, k in enumerate(order)}
    table = []
    for k in order:
        n = nodes[k]
        table.append({"id": ids[k], "q": n["q"], "mode": n["mode"],
                      "calls": sorted({ids[(cq, cm) if (cq, cm) in ids else (cq, "S")] for cq, cm in n["calls"]}),
                      "rdGlobal": n["rdGlobal"], "rdHash": n["rdHash"], "rdSched": n["rdSched"],
                      "why": n["why"]})
    # skeletons of the rows entered with a seed (non-trivial ones: at least one sink)
    skeletons = []
    for k in order:
        q, mode = k
        if mode != "S" or q == "utils:get_rng":
            continue
        f = raw[q]
        sk = f.get("skeleton")
        if sk is None or rngflow.trivial(sk):
            continue
        skeletons.append({"id": ids[k], "q": q, "nvars": sk["nvars"], "attrs": sk["attrs"], "body": sk["body"],
                          "vars": sk["vars"], "bad": f["bad_sinks"],
                          "sinks": [{"k": x["k"], "kind": x["kind"], "line": x["line"]} for x in sk["sinks"]]})
    return {"table": table,
            "entries": [{"q": q, "id": ids[k]} for q, k in zip(entries, entry_keys) if in_scope(q)],
            "extras": [{"q": q, "id": ids[k]} for q, k in zip(entries, entry_keys) if not in_scope(q)],
            "get_rng_shape_ok": ex.get_rng_shape_ok(),
            "sharing": sharing_facts(repo),
            "skeletons": skeletons,
            "opaque_calls": sum(f.get("opaque", 0) for f in raw.values()),
            "reviewed_int_sets": sorted(f"{k[0]} {k[1]}: {v}" for k, v in REVIEWED_INT_SETS.items())}


def reach(table, start):
    seen, st = set(), [start]
    while st:
        f = st.pop()
        if f in seen:
            continue
        seen.add(f)
        st.extend(table[f]["calls"])
    return seen


def verdicts(facts):
    """entry qname -> {"clean": bool, "tainted": [(qname, mode, why)]}  (python-side reachability)"""
    out = {}
    t = facts["table"]
    for e in facts["entries"] + facts.get("extras", []):
        r = reach(t, e["id"])
        bad = [(t[i]["q"], t[i]["mode"], t[i]["why"]) for i in sorted(r)
               if t[i]["rdGlobal"] or t[i]["rdHash"] or t[i].get("rdSched")]
        out[e["q"]] = {"clean": not bad, "tainted": bad, "id": e["id"], "reach": len(r),
                       "in_scope": in_scope(e["q"])}
    return out


def to_lean(facts):
    rows = []
    for n in facts["table"]:
        calls = ", ".join(str(c) for c in n["calls"])
        rows.append(f"  ⟨[{calls}], {str(n['rdGlobal']).lower()}, {str(n['rdHash']).lower()}, "
                    f"{str(n.get('rdSched', False)).lower()}⟩"
                    f"  -- {n['id']}: {n['q']} [{n['mode']}]")
    body = ",\n".join(r.split("  --")[0] + ("," if False else "") for r in rows)
    # keep the comments: emit one row per line with a trailing comment
    lines = []
    for i, r in enumerate(rows):
        code, comment = r.split("  --")
        sep = "," if i + 1 < len(rows) else ""
        lines.append(f"{code}{sep}  --{comment}")
    ents = ", ".join(str(e["id"]) for e in facts["entries"])
    names = ",\n".join(f'  "{e["q"]}"' for e in facts["entries"])
    return (
        "-- GENERATED by harness/c17_facts.py from /repo's AST on every run of `./check C17`. Do not edit.\n"
        "import CotengraVerif.Model.Flow\n\n"
        "namespace Cotengra.FactsC17\nopen Cotengra.Flow\n\n"
        "/-- call graph of the seeded APIs: row i = (callees, draws from the global generator,\n"
        "    depends on the string-hash order, consumes pool results in completion order);\n"
        "    [S] = entered with a seed, [U] = entered without -/\n"
        "def table : List Facts := [\n" + "\n".join(lines) + "\n]\n\n"
        f"/-- rows of the public callables with a `seed` parameter, entered in mode S -/\n"
        f"def entries : List FnId := [{ents}]\n\n"
        "def entryNames : List String := [\n" + names + "\n]\n\n"
        "/-- attributes copied by `set_state_from`: (copy depth, deepest in-place mutation) --\n"
        "    0 = by reference, 1 = `.copy()`, 2 = `{k: v.copy()}`; an unrecognised copy counts as 0 -/\n"
        "def sharing : List (Nat × Nat) := [\n" +
        ",\n".join(f"  ({r['copy']}, {r['mut']})" for r in facts.get("sharing", [])) + "\n]\n\n"
        "def sharingNames : List String := [\n" +
        ",\n".join(f'  "{r["cls"]}.{r["attr"]}"' for r in facts.get("sharing", [])) + "\n]\n\n"
        "end Cotengra.FactsC17\n"
    )


def rng_to_lean(facts):
    """Generated/FactsC17Rng.lean: the skeletons of the generator-carrying variables"""
    items = []
    for sk in facts["skeletons"]:
        sinks = "; ".join(f"{x['k']}={x['kind']}@{x['line']}" for x in sk["sinks"])
        items.append(f"  -- row {sk['id']}: {sk['q']}   variables {sk['vars']}   sinks {sinks}\n"
                     f"  ({sk['id']}, ⟨{sk['nvars']}, [{', '.join(map(str, sk['attrs']))}],\n"
                     + rngflow.stmt_lean(sk["body"], 4) + "⟩)")
    return (
        "-- GENERATED by harness/c17_facts.py + c17_rngflow.py from /repo's AST on every run of `./check C17`. "
        "Do not edit.\n"
        "import CotengraVerif.Model.RngFlow\n\n"
        "namespace Cotengra.FactsC17Rng\nopen Cotengra.RFlow\n\n"
        "/-- (row of FactsC17.table, skeleton of the function entered with a seed): the assignments to the\n"
        "    variables that carry the seed / a generator, the control flow around them, and the sinks -/\n"
        "def skeletons : List (Nat × Skeleton) := [\n" + ",\n".join(items) + "\n]\n\n"
        "end Cotengra.FactsC17Rng\n"
    )


if __name__ == "__main__":
    import json
    import sys
    repo = sys.argv[1] if len(sys.argv) > 1 else "/repo"
    fx = build(repo)
    v = verdicts(fx)
    print(len(fx["table"]), "nodes;", len(fx["entries"]), "entries; get_rng shape ok:", fx["get_rng_shape_ok"])
    for r in fx["sharing"]:
        if r["mut"] > r["copy"]:
            print("SHARED+MUTATED", r)
    for q, r in v.items():
        print(("clean  " if r["clean"] else "TAINTED"), "     " if r["in_scope"] else "extra", q, r["reach"],
              "" if r["clean"] else json.dumps(r["tainted"][:3]))
