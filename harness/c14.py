"""C14 -- a reusable optimizer's cache hit is a correct answer for the question asked.

Histories of queries over a *pool of similar contractions* (same incidence with permuted
indices inside terms / output, re-ordered size dict, one size changed, labels moved between
edges with the size dict kept, tensors swapped, an extra scalar tensor) through
ReusableHyperOptimizer / ReusableRandomGreedyOptimizer, hash_method a|b|<not passed: the constructor's default>, in memory or on disk
(directory_split on/off/auto), overwrite in {False, True, 'improved'}, cache_only, with
process restarts (fork; a sample in completely fresh interpreters) in between.  The
sub-optimizer is scripted (subclass overriding only `_get_suboptimizer`) or real.

Oracle (implementation only):
  * every returned tree is a complete tree over exactly the queried inputs/output/sizes;
  * a hit returns the entry that is stored (read from the directory by the harness itself) and
    does not search; repeating a query with overwrite=False gives the same tree structure;
  * without overwrite=True the score stored in the directory never increases;
  * cache_only never searches;
  * an entry stored for one contraction and returned for a *different* one must be equally
    valid for both: the path is a complete path for its number of tensors, sliced labels are
    indices, and flops / write / size / number of slices recomputed from the network alone
    (refimpl.spec_costs) coincide.

Tie to the Lean model (Model/Reusable.lean): (E) the same history with the observed oracle
answers is run through `maybeRun`/`Sys.step` keyed by the model's own fingerprints
(`c14.run`): outcome kind, cumulative search count and the stored entry after every query must
agree; the partition of the pool by `hash_contraction_a/b` must equal the model's (`c14.fp`).
"""

import json
import os
import shutil
import tempfile

from . import common, gen, refimpl
from . import c14_util as U

PROP = "C14"
LEVEL = "proof"
LEVEL_TEXT = (
    "Lean 4 theorems over a model of ReusableOptimizer/DiskDict, for every history of queries and process "
    "restarts and every sub-optimizer oracle: the returned tree is a tree of the queried contraction with a "
    "complete path and valid sliced indices (answer_is_for_query_history), a hit returns the stored entry "
    "without searching (hit_no_search, stored_is_returned), stored scores never get worse unless overwrite=True "
    "(improved_monotone), cache_only never searches, a fresh process sees what was stored (reload_agrees); equal "
    "default fingerprints imply identical legs/size/flops for every tree (fingerprint_a_sound, through L1). For "
    "hash_method='b' the sharing claim is false (fingerprint_b_counterexample); fingerprint_b_partial states what "
    "remains. The model is tied to /repo on every run by equality correspondence of whole histories and of the "
    "fingerprint partition of pools of similar contractions.")
LEVEL_NOTE = (
    "Assumed, not verified: pickle+SHA-1(+directory_split) injective on the fingerprint tuples; float scores "
    "only through `<`; one live process at a time; from_path/remove_ind_ and the sub-optimizer themselves "
    "(other properties). hash_method='b' violations are listed known findings.")
TECHNIQUE = ("Lean 4 proof (invariants over histories, L1 for fingerprint soundness) + differential "
             "correspondence of histories with fresh-process reloads + independent cost oracle")
LEAN_MODULES = ["CotengraVerif.Props.C14"]
THEOREMS = [
    "Cotengra.C14.hit_no_search",
    "Cotengra.C14.stored_is_returned",
    "Cotengra.C14.cache_only_step",
    "Cotengra.C14.cache_only_never_searches",
    "Cotengra.C14.improved_monotone_step",
    "Cotengra.C14.improved_monotone",
    "Cotengra.C14.reload_agrees",
    "Cotengra.C14.update_from_tree_monotone",
    "Cotengra.C14.answer_is_for_query",
    "Cotengra.C14.answer_is_for_query_history",
    "Cotengra.C14.fpA_respects",
    "Cotengra.C14.fingerprint_a_sound",
    "Cotengra.C14.fingerprint_b_counterexample",
    "Cotengra.C14.fingerprint_b_shares_entry",
    "Cotengra.C14.fingerprint_b_partial",
    "Cotengra.C14.fingerprint_b_partial_path",
    "Cotengra.C14.fingerprint_b_scalar_counterexample",
]
TRUSTED = [
    "Lean 4.33 kernel; axioms ⊆ {propext, Classical.choice, Quot.sound}",
    "hand-written model Model/Reusable.lean of reusable.py:25-66,161-174,231-262,299-307 and DiskDict's "
    "lookup order, tied by this run's correspondence on the generated histories only",
    "pickle + SHA-1 (+ directory_split) injective on fingerprint tuples; Python `<` on float scores is a strict "
    "order (no NaN scores)",
    "harness canonicalisation (labels -> naturals pool-wide, scores -> ranks, trees -> sets of leaf sets)",
]
ASSUMPTIONS = [
    "sequential processes: a restart starts a fresh _mem_cache on the same directory, nobody else writes in between",
    "size dicts with Python int values; one directory layout per directory",
    "update_from_tree is exercised with trees built by the harness (its score is tree.get_score(), which for the "
    "random-greedy class is on a different scale than the stored best_flops: only numeric monotonicity is claimed)",
]
RULE = ("history = 6-14 events over a pool of 4-7 similar contractions x class {scripted hyper, scripted "
        "random-greedy, real hyper, real random-greedy} x hash_method x {memory, directory} x split x policy, "
        "restarts change the policy; one evaluation = one query event; non-trivial = the event hits an entry "
        "stored earlier, replaces one, is refused (improved/cache_only) or follows a restart")
BUDGET = {"quick": 900, "thorough": 3000}


# ---------------------------------------------------------------------------------------------
# pools


def _variant(rng, base, kind):
    """a contraction similar to `base` (gen.Net over int labels)"""
    ins = [list(t) for t in base.inputs]
    out = list(base.output)
    sizes = dict(base.sizes)
    if kind == "perm-term":
        i = rng.randrange(len(ins))
        rng.shuffle(ins[i])
    elif kind == "perm-all":
        for t in ins:
            rng.shuffle(t)
        rng.shuffle(out)
    elif kind == "perm-output":
        rng.shuffle(out)
    elif kind == "size-order":
        items = list(sizes.items())
        rng.shuffle(items)
        sizes = dict(items)
    elif kind == "resize":
        ix = rng.choice(sorted(sizes))
        sizes[ix] = sizes[ix] + 1
    elif kind == "relabel":
        # move the labels around inside the network but keep the size dict (defect 7i)
        labs = sorted(sizes)
        perm = labs[:]
        rng.shuffle(perm)
        m = dict(zip(labs, perm))
        ins = [[m[i] for i in t] for t in ins]
        out = [m[i] for i in out]
    elif kind == "swap-tensors" and len(ins) >= 2:
        i, j = rng.sample(range(len(ins)), 2)
        ins[i], ins[j] = ins[j], ins[i]
    elif kind == "add-scalar":
        ins = ins + [[]]
    elif kind == "drop-output" and out:
        out = out[:-1]
    return gen.Net(ins, out, sizes)


VARIANTS = ("perm-term", "perm-all", "perm-output", "size-order", "resize", "relabel", "swap-tensors",
            "add-scalar", "drop-output", "relabel", "perm-term")


def gen_pool(rng):
    n = rng.choice([3, 3, 4, 4, 5])
    base = gen.rand_net(rng, nmin=n, nmax=n, max_inds=6, dims=(2, 3, 4), allow_scalar=False,
                        kinds=("bond", "bond", "hyper", "out1", "outk", "dangling", "batch"))
    pool = [("base", base)]
    for _ in range(rng.randint(3, 6)):
        kind = rng.choice(VARIANTS)
        src = rng.choice(pool)[1]
        pool.append((kind, _variant(rng, src, kind)))
    return pool


def _q(net):
    return {"inputs": [list(t) for t in net.sym_inputs()], "output": list(net.sym_output()),
            "sizes": net.sym_sizes()}


def _policy(rng):
    return {"overwrite": rng.choice([False, False, True, "improved", "improved"]),
            "cache_only": rng.random() < 0.15}


def gen_history_owners(rng, tier):
    """Two owners of one cache directory in one process: owner 0 only polls (`cache_only=True`: it looks entries
    up and never stores), owner 1 searches and stores what is absent (`overwrite=False`). Each keeps its object --
    and whatever it remembers about earlier look-ups -- while the other works. Entries never change once present,
    so the history means the same as the corresponding sequence of fresh processes (the model's `restart`)."""
    pool = gen_pool(rng)
    cls = rng.choice(["hyper", "hyper", "rg", "real-hyper", "real-rg"])
    cfg = {"cls": cls, "hash_method": rng.choice(["a", "a", "default"]), "disk": True,
           "split": rng.choice([True, False, "auto", "default"]), "overwrite": False, "cache_only": True, "owner": 0}
    pols = {0: {"overwrite": False, "cache_only": True}, 1: {"overwrite": False, "cache_only": False}}
    hot = rng.sample(range(len(pool)), min(len(pool), rng.choice([2, 3])))
    events, cur = [], 0
    for _ in range(rng.randint(8, 16)):
        if events and rng.random() < 0.4:
            cur = 1 - cur
            events.append({"restart": dict(pols[cur]), "owner": cur})
            continue
        qi = rng.choice(hot) if rng.random() < 0.85 else rng.randrange(len(pool))
        net = pool[qi][1]
        ans = {"tree": gen.rand_tree(rng, len(net.inputs)), "sliced": [], "flops": rng.choice([10, 20, 30, 40])}
        events.append({"q": qi, "ans": ans, "api": "call" if rng.random() < 0.2 else "search"})
    return {"pool": [[k, n.json()] for k, n in pool], "cfg": cfg, "events": events, "mode": "fork",
            "theme": "two-owners"}


def gen_history(rng, tier):
    if rng.random() < 0.15:
        return gen_history_owners(rng, tier)
    pool = gen_pool(rng)
    cls = rng.choice(["hyper", "hyper", "rg", "rg", "real-hyper", "real-rg"])
    cfg = {"cls": cls, "hash_method": rng.choice(["a", "a", "b", "default", "default"]),
           "disk": rng.random() < 0.75, "split": rng.choice([True, False, "auto", "default"])}
    cfg.update(_policy(rng))
    # the caller passes the very same (mutated in place) argument objects for every query of a process
    cfg["same_objects"] = rng.random() < 0.3
    events = []
    nev = rng.randint(6, 14)
    hot = rng.sample(range(len(pool)), min(len(pool), rng.choice([2, 3, 4])))
    for _ in range(nev):
        if events and rng.random() < 0.22:
            events.append({"restart": _policy(rng)})
            continue
        qi = rng.choice(hot) if rng.random() < 0.8 else rng.randrange(len(pool))
        net = pool[qi][1]
        n = len(net.inputs)
        ans = {"tree": gen.rand_tree(rng, n), "sliced": [], "flops": rng.choice([10, 20, 20, 30, 40, 50])}
        if cls == "hyper" and rng.random() < 0.3 and net.indices():
            ans["sliced"] = [gen.sym(rng.choice(net.indices()))]
        if rng.random() < 0.1:
            events.append({"q": qi, "ans": ans, "api": "update",
                           "overwrite": rng.choice([False, True, "improved", "improved"])})
            continue
        events.append({"q": qi, "ans": ans, "api": "call" if rng.random() < 0.15 else "search"})
    return {"pool": [[k, n.json()] for k, n in pool], "cfg": cfg, "events": events,
            "mode": "fork"}


# ---------------------------------------------------------------------------------------------
# running a history on the real code


def run_history(hist, base, mode=None):
    """returns (list of per-event observations or None for restarts, split used)"""
    mode = mode or hist.get("mode", "fork")
    pool = [gen.Net.from_json(j) for _, j in hist["pool"]]
    cfg0 = hist["cfg"]
    d = os.path.join(base, "cache") if cfg0["disk"] else None
    cur = {"cls": cfg0["cls"], "hash_method": cfg0["hash_method"], "directory": d, "split": cfg0["split"],
           "same_objects": bool(cfg0.get("same_objects")),
           "overwrite": cfg0["overwrite"], "cache_only": cfg0["cache_only"]}
    segments = [[dict(cur), [], cfg0.get("owner")]]
    for ev in hist["events"]:
        if "restart" in ev:
            cur = dict(cur, **ev["restart"])
            segments.append([dict(cur), [], ev.get("owner")])
        else:
            segments[-1][1].append({"q": _q(pool[ev["q"]]), "ans": ev["ans"], "api": ev["api"],
                                    "overwrite": ev.get("overwrite")})
    out = []
    first = True
    if any(own is not None for _, _, own in segments):
        # several owners of the directory alive in one process (objects persist across their segments)
        r = U.run_child(mode, "session_owners", [{"cfg": c, "ops": o, "owner": own} for c, o, own in segments])
        if r[0] != "ok":
            raise RuntimeError("session failed: %r" % (r,))
        for (cfg, ops, _), res in zip(segments, r[1]):
            if not first:
                out.append(None)
            first = False
            for o in res["obs"]:
                o["cfg"] = {"overwrite": cfg["overwrite"], "cache_only": cfg["cache_only"]}
                o["split"] = res["split"]
            out.extend(res["obs"])
        return out
    for cfg, ops, _ in segments:
        if not first:
            out.append(None)
        first = False
        if not ops:
            continue
        r = U.run_child(mode, "session", cfg, ops)
        if r[0] != "ok":
            raise RuntimeError("session failed: %r" % (r,))
        for o in r[1]["obs"]:
            o["cfg"] = {"overwrite": cfg["overwrite"], "cache_only": cfg["cache_only"]}
            o["split"] = r[1]["split"]
        out.extend(r[1]["obs"])
    return out


def valid_path(n, path):
    for step in path:
        if not step or len(set(step)) != len(step) or any(i < 0 or i >= n for i in step):
            return False
        n = n - len(step) + 1
    return n == 1


def bt_of_struct(struct, n):
    """nested-list tree from the sorted leaf sets of the internal nodes"""
    sets = sorted((frozenset(s) for s in struct), key=len)
    built = {frozenset([i]): i for i in range(n)}
    for s in sets:
        parts = [k for k in built if k < s and not any(k < k2 < s for k2 in built)]
        parts = sorted(parts, key=lambda k: min(k))
        if len(parts) != 2 or frozenset().union(*parts) != s:
            return None
        built[s] = [built[parts[0]], built[parts[1]]]
    return built.get(frozenset(range(n)))


def costs(net, struct, sliced):
    bt = bt_of_struct(struct, len(net.inputs))
    if bt is None:
        return None
    us = gen.unsym(net)
    if any(s not in us for s in sliced):
        return None
    rm = [us[s] for s in sliced]
    c = refimpl.spec_costs(net, bt, rm, rm)
    return [c["flops"], c["write"], c["size"], c["mult"]]


def oracle(hist, obs):
    """implementation-side verdicts: list of (event index, kind, detail, signature extras)"""
    pool = [gen.Net.from_json(j) for _, j in hist["pool"]]
    method = hist["cfg"]["hash_method"]
    bad = []
    storer = {}        # key -> pool index whose search result is stored
    last_struct = {}   # key -> entry held after the previous event on that key
    gen_no = 0
    evs = hist["events"]
    for i, (ev, o) in enumerate(zip(evs, obs)):
        if o is None:
            gen_no += 1
            if not hist["cfg"]["disk"]:
                last_struct.clear()   # memory only: a new process starts empty
                storer.clear()
            continue
        qi = ev["q"]
        net = pool[qi]
        q = _q(net)
        pol = o["cfg"]
        key = o["key"]
        if o["api"] == "update":
            db, da, uc = o["disk_before"], o["disk_after"], o.get("update_con")
            if o["outcome"] != "ok":
                bad.append((i, "update-raises", {"exc": o["outcome"], "msg": o.get("msg")}, {}))
            elif o["searches"]:
                bad.append((i, "update-searched", {"searches": o["searches"]}, {}))
            elif hist["cfg"]["disk"]:
                if db is None and (da is None or [da["path"], da["sliced"]] != [uc["path"], uc["sliced"]]):
                    bad.append((i, "update-did-not-store", {"after": da, "tree": uc}, {}))
                if db is not None and ev["overwrite"] is not True and (da is None or da["score"] > db["score"]):
                    bad.append((i, "stored-score-got-worse", {"before": db, "after": da}, {}))
                if db is not None and ev["overwrite"] is False and da != db:
                    bad.append((i, "update-overwrote-with-overwrite-False", {"before": db, "after": da}, {}))
            if o["stored"] is not None and uc and [o["stored"]["path"], o["stored"]["sliced"], o["stored"]["score"]] == \
                    [uc["path"], uc["sliced"], uc["score"]]:
                storer[key] = qi
            last_struct[key] = o["stored"]
            continue
        if o["outcome"].startswith("raised"):
            extra = {}
            src = storer.get(key)
            if src is not None and src != qi and len(pool[src].inputs) != len(net.inputs):
                # the entry of a contraction with another number of tensors was applied
                extra = {"why": "tensor-count", "site": "hash_contraction_" + method}
            bad.append((i, "raises", {"exc": o["outcome"], "msg": o.get("msg")}, extra))
            continue
        if pol["cache_only"] and o["searches"]:
            bad.append((i, "cache_only-searched", {"searches": o["searches"]}, {}))
        if o["outcome"] == "KeyError":
            if not pol["cache_only"]:
                bad.append((i, "raises", {"exc": "KeyError", "msg": o.get("msg")}, {}))
            elif o["disk_before"] is not None and not pol["overwrite"] and hist["cfg"]["disk"]:
                bad.append((i, "cache_only-missed-present-entry", {"key": key}, {}))
            continue
        # the returned object is for the query
        ret_struct = o["struct"]
        if o["api"] == "search":
            t = o["tree"]
            if t["inputs"] != q["inputs"] or t["output"] != q["output"] or \
                    dict(map(tuple, t["sizes"])) != q["sizes"] or t["N"] != len(q["inputs"]) or not t["complete"]:
                bad.append((i, "tree-not-for-query", {"tree": t, "query": q}, {}))
                continue
            ret_sliced = t["sliced"]
        else:
            ret_sliced = None
            if not valid_path(len(q["inputs"]), o["path"]):
                bad.append((i, "path-not-for-query", {"path": o["path"], "N": len(q["inputs"])},
                            {"why": "tensor-count", "site": "hash_contraction_" + method}))
        db, da = o["disk_before"], o["disk_after"]
        hit = o["searches"] == 0
        if hit and hist["cfg"]["disk"]:
            if db is None:
                # answered without a search although nothing was stored on disk: memory only entry?
                pass
            elif ret_struct != db["struct"] or (ret_sliced is not None and ret_sliced != db["sliced"]):
                bad.append((i, "hit-differs-from-stored", {"returned": [ret_struct, ret_sliced], "stored": db}, {}))
        if hit:
            # repeating a query: the entry this key held after the previous event on it is returned
            prev = last_struct.get(key)
            if prev is not None:
                try:   # (the same stored path, read for *this* query's tensors)
                    prev = dict(prev, struct=path_struct_of(net, prev["path"]))
                except Exception:  # noqa: BLE001
                    prev = None
            if prev is not None and (prev["struct"] != ret_struct or (
                    ret_sliced is not None and prev["sliced"] != ret_sliced)):
                bad.append((i, "repeat-differs", {"before": prev, "now": [ret_struct, ret_sliced]}, {}))
        if not pol["overwrite"] and o["searches"] and db is not None:
            bad.append((i, "searched-although-present", {"key": key}, {}))
        if pol["overwrite"] is not True and db is not None:
            if da is None or da["score"] > db["score"]:
                bad.append((i, "stored-score-got-worse", {"before": db, "after": da}, {}))
        # bookkeeping: who stored what
        sc = o.get("searched_con")
        if o["searches"] and sc and o["stored"] and "error" not in sc and \
                [o["stored"]["struct"], o["stored"]["sliced"]] == [sc["struct"], sc["sliced"]] and \
                o["stored"]["score"] == sc["score"]:
            storer[key] = qi
        # an entry stored for another contraction must be equally valid for this one
        st = o["stored"]
        src = storer.get(key)
        if hit and st is not None and src is not None and src != qi:
            other = pool[src]
            why = None
            if not valid_path(len(net.inputs), st["path"]):
                why = "tensor-count"
            else:
                c_here = costs(net, st["struct"], st["sliced"]) if st["struct"] else None
                try:
                    c_there = costs(other, path_struct_of(other, st["path"]), st["sliced"])
                except Exception:  # noqa: BLE001
                    c_there = None
                if c_here is None or c_there is None or c_here != c_there:
                    why = "tensor-count" if len(net.inputs) != len(other.inputs) else "size-assignment"
            if why:
                bad.append((i, "shared-entry-not-equally-valid",
                            {"query": net.json(), "stored_for": other.json(), "entry": st},
                            {"why": why, "site": "hash_contraction_" + method}))
        last_struct[key] = o["stored"]
    return bad


def path_struct_of(net, path):
    return U.path_struct(U._as_query(_q(net)), [tuple(s) for s in path])


# ---------------------------------------------------------------------------------------------
# model side


def model_compare(ctx, drv, hist, obs):
    pool = [gen.Net.from_json(j) for _, j in hist["pool"]]
    cfg0 = hist["cfg"]
    if any(o is not None and o["searches"] and not (o.get("searched_con") and "error" not in o["searched_con"])
           for o in obs):
        # the oracle's answer could not be observed (private hooks renamed?): nothing to feed the model
        ctx.count("model_compare_skipped:search-result-unobservable")
        return None
    # one label map for the whole pool (labels are shared between the variants)
    scores = set()
    for o in obs:
        if o is None:
            continue
        for k in ("searched_con", "stored", "disk_before", "disk_after", "update_con"):
            if o.get(k) and "score" in o[k]:
                scores.add(o[k]["score"])
    rank = {s: r for r, s in enumerate(sorted(scores))}

    def jcon(net, c):
        us = gen.unsym(net)
        return {"path": c["path"], "score": rank[c["score"]], "sliced": [us[s] for s in c["sliced"] if s in us]}

    def jpol(p):
        ow = {False: "no", True: "yes", "improved": "improved"}[p["overwrite"]]
        return {"overwrite": ow, "cache_only": bool(p["cache_only"])}

    mev = []
    prev_stored = {}
    for ev, o in zip(hist["events"], obs):
        if o is None:
            mev.append({"restart": jpol(ev["restart"])})
            if not cfg0["disk"]:
                prev_stored.clear()
            continue
        net = pool[ev["q"]]
        if o["api"] == "update":
            uc = o.get("update_con")
            if not uc or o["outcome"] != "ok":
                ctx.count("model_compare_skipped:update-failed")
                return None
            prev = o.get("disk_before") or prev_stored.get(o["key"])
            st = o.get("stored")
            tie = bool(ev["overwrite"] == "improved" and prev is not None and prev["score"] == uc["score"]
                       and [prev["path"], prev["sliced"]] != [uc["path"], uc["sliced"]]
                       and st is not None and [st["path"], st["sliced"]] == [uc["path"], uc["sliced"]])
            prev_stored[o["key"]] = st
            mev.append({"update": {"q": ev["q"], "con": jcon(net, uc), "tie_replace": tie,
                                   "overwrite": {False: "no", True: "yes", "improved": "improved"}[ev["overwrite"]]}})
            continue
        sc = o.get("searched_con")
        if sc and "error" not in sc:
            con = jcon(net, sc)
        else:
            con = {"path": [], "score": len(rank) + 1, "sliced": []}  # never used when the model agrees
        # a tie under 'improved': tell the model which way the implementation broke it
        tie = False
        db, st = o.get("disk_before") or None, o.get("stored")
        if sc and "error" not in sc and o["cfg"]["overwrite"] == "improved" and st is not None:
            prev = db
            if prev is None:
                prev = prev_stored.get(o["key"])
            if prev is not None and prev["score"] == sc["score"] and \
                    [prev["path"], prev["sliced"]] != [sc["path"], sc["sliced"]]:
                tie = st["path"] == sc["path"] and st["sliced"] == sc["sliced"]
        prev_stored[o["key"]] = st
        mev.append({"q": ev["q"], "con": con, "tie_replace": tie})
    nets = [n.json() for n in pool]
    # a default-constructed optimizer is documented (and modelled) to use method 'a'
    resp = drv.call("c14.run", nets=nets, method="a" if cfg0["hash_method"] == "default" else cfg0["hash_method"],
                    disk=bool(cfg0["disk"]),
                    cfg=jpol(cfg0), events=mev)
    if "error" in resp:
        ctx.corr_broken("driver: " + resp["error"], hist)
        return
    ok = True
    for i, (ev, o, m) in enumerate(zip(hist["events"], obs, resp["results"])):
        if o is None:
            continue
        net = pool[ev["q"]]
        if o["api"] == "update":
            rs = None if o["stored"] is None else [o["stored"]["path"], rank[o["stored"]["score"]],
                                                   sorted(gen.unsym(net)[x] for x in o["stored"]["sliced"]
                                                          if x in gen.unsym(net))]
            ms = None if m.get("stored") is None else [m["stored"]["path"], m["stored"]["score"],
                                                       sorted(m["stored"]["sliced"])]
            if m.get("kind") != "update" or rs != ms:
                ok = False
                ctx.corr_broken("history: model and implementation disagree at update_from_tree event %d" % i,
                                {"hist": hist, "event": i, "real": rs, "model": ms})
                break
            continue
        if o["outcome"] == "KeyError":
            kind = "KeyError"
        elif o["outcome"].startswith("raised"):
            kind = "raised"
        elif o["searches"] == 0:
            kind = "hit"
        else:
            kind = "ran"     # searched; whether the new result was kept shows in what is returned/stored
        real_stored = None
        if o["stored"] is not None:
            real_stored = [o["stored"]["path"], rank[o["stored"]["score"]],
                           sorted(gen.unsym(net)[s] for s in o["stored"]["sliced"] if s in gen.unsym(net))]
        mod_stored = None
        if m.get("stored") is not None:
            mod_stored = [m["stored"]["path"], m["stored"]["score"], sorted(m["stored"]["sliced"])]
        mkind = "ran" if m["kind"] in ("searched", "kept") else m["kind"]
        real_ret = mod_ret = None
        if o["outcome"] == "ok":
            us = gen.unsym(net)
            real_ret = [o["struct"], sorted(us[x] for x in o["tree"]["sliced"] if x in us)
                        if o["api"] == "search" else None]
            if m.get("con") is not None:
                try:
                    mod_ret = [path_struct_of(net, m["con"]["path"]),
                               sorted(m["con"]["sliced"]) if o["api"] == "search" else None]
                except Exception:  # noqa: BLE001
                    mod_ret = ["unbuildable", m["con"]]
        if m.get("fits") is False and m["kind"] in ("hit", "kept") and kind in (mkind, "raised"):
            # the model itself says the entry it returns does not fit this query (a fingerprint-'b'
            # collision across tensor counts, reported by the oracle): `_reconstruct_tree` then
            # auto-completes or raises, which is outside the model -- nothing to compare here
            ctx.count("model_hit_does_not_fit")
            continue
        if kind != mkind or real_stored != mod_stored or real_ret != mod_ret:
            ok = False
            ctx.corr_broken("history: model and implementation disagree at event %d" % i,
                            {"hist": hist, "event": i, "real": [kind, real_ret, real_stored],
                             "model": [m["kind"], mod_ret, mod_stored]})
            break
    ctx.traces += 1
    # fingerprint partition of the pool
    for method in ("a", "b"):
        from cotengra.reusable import hash_contraction
        hs = [hash_contraction(tuple(map(tuple, _q(n)["inputs"])), tuple(_q(n)["output"]), _q(n)["sizes"], method)
              for n in pool]
        real_classes = [hs.index(h) for h in hs]
        mc = drv.call("c14.fp", nets=nets, method=method)
        if mc.get("classes") != real_classes:
            ctx.corr_broken("fingerprint partition of the pool differs (method %s)" % method,
                            {"pool": hist["pool"], "real": real_classes, "model": mc.get("classes", mc)})
        else:
            ctx.count("fp_partition_checked:" + method)
            ctx.count("fp_classes_shared:" + method, len(pool) - len(set(real_classes)))
    return ok


# ---------------------------------------------------------------------------------------------


def check_history(ctx, drv, hist, root, tag):
    base = os.path.join(root, tag)
    os.makedirs(base, exist_ok=True)
    try:
        obs = run_history(hist, base)
    finally:
        shutil.rmtree(base, ignore_errors=True)
    cfg = hist["cfg"]
    ctx.count("class:" + cfg["cls"])
    ctx.count("hash_method:" + cfg["hash_method"])
    ctx.count("store:" + ("directory" if cfg["disk"] else "memory"))
    ctx.count("split:" + str(cfg["split"]))
    ctx.count("mode:" + hist.get("mode", "fork"))
    for k, _ in hist["pool"]:
        ctx.count("variant:" + k)
    after_restart = False
    if hist["cfg"].get("same_objects"):
        ctx.count("history:same-argument-objects-mutated-in-place")
    for ev, o in zip(hist["events"], obs):
        if o is None:
            ctx.count("event:restart" if "owner" not in ev else "event:owner-switch")
            after_restart = True
            continue
        if hist.get("theme") == "two-owners":
            ctx.count("two-owners:" + ("poller" if o["cfg"]["cache_only"] else "searcher") + ":" +
                      (o["outcome"] if o["outcome"] != "ok" else ("hit" if o["searches"] == 0 else "searched")))
        kind = o["outcome"] if o["outcome"] != "ok" else (
            "hit" if o["searches"] == 0 else "searched")
        if o["api"] == "update":
            kind = "update/%s/%s" % (ev["overwrite"], "present" if o["disk_before"] or not cfg["disk"] else "absent")
        pol = o["cfg"]
        if o["api"] == "update":
            ctx.count("event:" + kind)
        else:
            ctx.count("event:%s/overwrite=%s/cache_only=%s" % (kind, pol["overwrite"], pol["cache_only"]))
        ctx.count("api:" + o["api"])
        if pol["overwrite"] == "improved" and o["searches"] and o.get("searched_con") and o["stored"]:
            rep = o["stored"]["path"] == o["searched_con"].get("path") and \
                o["stored"]["score"] == o["searched_con"].get("score")
            ctx.count("improved:" + ("stored-new" if rep else "kept-old"))
        if o["outcome"] == "ok" and o["api"] == "search" and o["tree"]["sliced"]:
            ctx.count("returned_sliced_tree")
        nontrivial = kind != "searched" or o["disk_before"] is not None or after_restart
        ctx.case({"pool": hist["pool"][ev["q"]], "cfg": cfg, "policy": pol, "kind": kind,
                  "before": o["disk_before"], "ans": ev["ans"]}, nontrivial=nontrivial)
        after_restart = False
    bad = oracle(hist, obs)
    for i, kind, detail, extra in bad:
        sig = {"site": extra.get("site", "ReusableOptimizer"), "kind": kind}
        if "why" in extra:
            sig["why"] = extra["why"]
        if "exc" in detail:
            sig["exc"] = str(detail["exc"]).split(":")[-1]
        ctx.count("oracle_fail:" + kind + ("/" + extra["why"] if "why" in extra else ""))
        ctx.violation(sig, {"hist": hist, "event": i, "kind": kind, "detail": detail},
                      "history event %d: %s %s" % (i, kind, json.dumps(detail, default=str)[:300]))
    if drv is not None:
        model_compare(ctx, drv, hist, obs)
    return not bad


def _corpus(ctx, root):
    d = os.path.join(common.VERIF, "corpus", PROP)
    if not os.path.isdir(d):
        return
    for fn in sorted(os.listdir(d)):
        if fn.endswith(".json"):
            obj = json.load(open(os.path.join(d, fn)))
            rep = obj.get("replay", obj)
            ctx.count("corpus_replayed")
            check_history(ctx, None, rep["hist"], root, "corpus-" + fn[:-5])


def run(ctx, drv):
    root = tempfile.mkdtemp(prefix="verif-c14-")
    try:
        _corpus(ctx, root)
        n = 400 if ctx.tier == "quick" else 6000
        nfresh = 6 if ctx.tier == "quick" else 60
        for i in range(n):
            if ctx.time_left() < 20:
                break
            hist = gen_history(ctx.rng, ctx.tier)
            if i < nfresh:
                hist["mode"] = "fresh"
            check_history(ctx, drv, hist, root, "h%d" % i)
    finally:
        shutil.rmtree(root, ignore_errors=True)


def search(ctx):
    root = tempfile.mkdtemp(prefix="verif-c14s-")
    found = False
    try:
        for i in range(1500):
            if ctx.time_left() < 20 or found:
                break
            before = ctx.violations
            hist = gen_history(ctx.rng, "thorough")
            check_history(ctx, None, hist, root, "s%d" % i)
            found = ctx.violations > before
    finally:
        shutil.rmtree(root, ignore_errors=True)
    return found


def replay(ctx, obj):
    root = tempfile.mkdtemp(prefix="verif-c14r-")
    try:
        hist = obj["hist"]
        base = os.path.join(root, "r")
        os.makedirs(base)
        obs = run_history(hist, base)
        bad = oracle(hist, obs)
        want = obj.get("kind")
        hits = [b for b in bad if want is None or b[1] == want]
        for i, kind, detail, _ in hits[:3]:
            print("# C14 replay: event %d %s %s" % (i, kind, json.dumps(detail, default=str)[:300]))
        return not hits
    finally:
        shutil.rmtree(root, ignore_errors=True)
