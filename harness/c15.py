"""C15 -- a crash while writing the on-disk cache never poisons later runs.

For every case (contraction, layout, optimizer class, scenario new / overwrite / improved /
fresh-dir, other entries present) the writer is executed in a child process and *killed* at
every byte offset of the entry it writes (wrapped file object; RLIMIT_FSIZE as a second,
kernel-level mechanism) and before every file-system call it makes under the cache directory
(audit hook, includes the creation of the cache directory and of the sub-directory).  After each
kill the directory is snapshotted and two later fresh processes query it.

Oracle (implementation only): no later process raises; a hit returns the complete old or the
complete new entry (never anything else); after a miss the next process hits what was searched;
entries of other contractions stay readable.

Tie to the Lean model (Model/Crash.lean, Props/C15.lean):
  (A) the observed system-call trace of the un-crashed writer is fed to the verified checker
      `admissible` (soundness: `admissible_crash_safe`) -- a different temp name, fsync, chunked
      writes, extra unlinks stay admissible; writing the entry's own file in place is rejected;
  (E) every real post-crash snapshot, seen through the key files, must be one of the model's
      `crashStates` of that trace; and the outcomes of the later processes must equal
      `queryNew` run on the real snapshot (`c15.later`).
"""

import json
import os
import pickle
import shutil
import tempfile

from . import common, gen
from . import c14_util as U

PROP = "C15"
LEVEL = "proof"
LEVEL_TEXT = (
    "Lean 4 theorems over a file-system model of DiskDict: for every directory state, key, value, layout and "
    "every instant at which the writer can die (before/after any system call, inside the write at any byte "
    "offset) a later process sees the complete old entry, the complete new entry or nothing, other entries are "
    "untouched and nobody raises (crash_safe), via a verified checker of system-call traces "
    "(admissible_crash_safe). The negation is proved for the in-place protocol the code used before the repair "
    "(inplace_crash_poisons). The model is tied to /repo on every run: the real writer's observed system calls "
    "must pass the verified checker, and real kills at every byte offset and call boundary must land in the "
    "model's crash states and give the model's outcomes in later fresh processes.")
LEVEL_NOTE = (
    "Partial in the sense of the brief: POSIX semantics are assumed, not verified (rename is atomic; a killed "
    "process leaves exactly the bytes written so far; no power loss / fsync reasoning); pickle only through "
    "`parse (ser v) = some v`; the `_mem_cache` layer and concurrent writers are outside this model.")
TECHNIQUE = ("Lean 4 proof (invariant along admissible system-call traces, all crash prefixes) + certificate "
             "checking of the observed trace + crash injection at every byte offset / call boundary with "
             "fresh-process readers, compared with the model")
LEAN_MODULES = ["CotengraVerif.Props.C15"]
THEOREMS = [
    "Cotengra.C15.admissible_crash_safe",
    "Cotengra.C15.writeAtomic_admissible",
    "Cotengra.C15.writeAtomic_canStep",
    "Cotengra.C15.writeInplace_not_admissible",
    "Cotengra.C15.atomic_files",
    "Cotengra.C15.crash_safe",
    "Cotengra.C15.atomic_writer_old_reader",
    "Cotengra.C15.new_reader_never_raises",
    "Cotengra.C15.old_raise_is_permanent",
    "Cotengra.C15.inplace_crash_poisons",
    "Cotengra.C15.inplace_writer_new_reader",
    "Cotengra.C15.inplace_write_counterexample",
    "Cotengra.C15.admissibleP_crash_safe",
    "Cotengra.C15.writeInplace_admissibleP",
    "Cotengra.C15.prefix_discipline_new_reader",
    "Cotengra.C15.run_writeAtomic_self",
    "Cotengra.C15.queryNew_refines_maybeRun",
    "Cotengra.C15.writeAtomic_layoutOK",
    "Cotengra.C15.auto_layout_stable",
    "Cotengra.C15.root_tmp_counterexample",
    "Cotengra.C15.toy_prefix",
]
TRUSTED = [
    "Lean 4.33 kernel; axioms ⊆ {propext, Classical.choice, Quot.sound}",
    "hand-written model Model/Crash.lean of DiskDict.__setitem__/__contains__/__getitem__ (utils.py) and "
    "hash_query/_maybe_run_optimizer (reusable.py), tied by this run's trace check + crash injection only",
    "POSIX: os.replace is atomic w.r.t. process death; a killed process leaves a prefix of each write",
    "harness instrumentation (audit hook, wrapped file object, RLIMIT_FSIZE) and snapshot canonicalisation",
]
ASSUMPTIONS = [
    "process crash (kill), not power loss: no claim about un-fsynced data after an OS crash",
    "one layout (directory_split) per cache directory; keys are lowercase hex digests",
    "writers of the same key do not share a temporary name (pid + thread id are in the name)",
]
RULE = ("case = random 4-5 tensor network x layout {split, flat} x class {scripted hyper, scripted random-greedy, "
        "real} x scenario {new, overwrite, improved, fresh-dir} with 1-2 other entries; crash points = every byte "
        "offset 0..len(entry) (wrapped file), every file-system call boundary (audit hook), RLIMIT_FSIZE offsets, "
        "a sample in completely fresh interpreters; one evaluation = one crash point with its later readers; "
        "non-trivial = the writer really died at that point")
BUDGET = {"quick": 900, "thorough": 1500}

SCENARIOS = ("new", "overwrite", "improved", "fresh-dir")


# ---------------------------------------------------------------------------------------------
# cases


def _query_of(net):
    return {"inputs": [list(t) for t in net.sym_inputs()], "output": list(net.sym_output()),
            "sizes": net.sym_sizes()}


def _flops(q, tree):
    from cotengra.core import ContractionTree
    n = len(q["inputs"])
    t = ContractionTree.from_path([tuple(x) for x in q["inputs"]], tuple(q["output"]), dict(q["sizes"]),
                                  ssa_path=gen.tree_to_ssa(tree, n))
    return int(t.contraction_cost()), U.tree_struct(t)


def _score(q, cls, ans):
    """the score (and, as a side effect, the linear path) the real code will store for this
    scripted answer"""
    from cotengra.core import ContractionTree
    n = len(q["inputs"])
    t = ContractionTree.from_path([tuple(x) for x in q["inputs"]], tuple(q["output"]), dict(q["sizes"]),
                                  ssa_path=gen.tree_to_ssa(ans["tree"], n))
    for ix in ans["sliced"]:
        t.remove_ind_(ix)
    ans["path"] = [list(map(int, s)) for s in t.get_path()]
    if cls == "rg":
        # since /repo 00c7e4b the random-greedy variant stores the tree's score under its own
        # objective ('flops'), like the hyper variant; before it stored the scripted best_flops
        return float(t.get_score("flops"))
    return float(t.get_score())


def gen_case(rng, idx=0):
    for _ in range(100):
        n = rng.choice([4, 4, 5])
        net = gen.rand_net(rng, nmin=n, nmax=n, max_inds=7, dims=(2, 3), allow_scalar=False)
        q = _query_of(net)
        trees = list(gen.all_trees(range(n)))
        rng.shuffle(trees)
        cand = []
        seen = set()
        for t in trees[:40]:
            fl, st = _flops(q, t)
            key = json.dumps(st)
            if key not in seen:
                seen.add(key)
                cand.append((fl, t, st))
        if len(cand) < 5:
            continue
        cand.sort(key=lambda c: c[0])
        scenario = SCENARIOS[idx % 4] if idx < 8 else rng.choice(SCENARIOS)
        cls = ("hyper", "rg")[(idx + idx // 4) % 2] if idx < 8 else rng.choice(["hyper", "rg"])
        split = bool((idx // 4) % 2) if idx < 8 else rng.random() < 0.6
        picks = rng.sample(cand, 5)
        new, old = picks[0], picks[1]
        if scenario == "improved":
            # the new tree must be strictly better than the old one, else nothing is written
            lo = [c for c in cand if c[0] < cand[-1][0]]
            if not lo:
                continue
            old = cand[-1]
            new = rng.choice(lo)
            rest = [c for c in cand if c is not old and c is not new]
            if len(rest) < 3:
                continue
            picks = [new, old] + rng.sample(rest, 3)
        sliced_new = []
        if cls == "hyper" and rng.random() < 0.4:
            inds = sorted(set(ix for t in q["inputs"] for ix in t))
            sliced_new = [rng.choice(inds)]
            if scenario == "improved":
                sliced_new = []

        def ans(c, fl_bias=0, sliced=()):
            return {"tree": c[1], "sliced": list(sliced), "flops": c[0] + fl_bias, "struct": c[2]}

        answers = {"new": ans(new, 0, sliced_new), "old": ans(old, 1), "w1": ans(picks[2], 2),
                   "w2": ans(picks[3], 3), "w3": ans(picks[4], 4)}
        for v in answers.values():
            v["score"] = _score(q, cls, v)
        others = []
        seen_keys = {U.key_of({}, U._as_query(q), False)}
        for _k in range(rng.choice([1, 2])):
            for _try in range(20):   # distinct cache keys (else two "others" are one entry)
                m = rng.choice([3, 4])
                onet = gen.rand_net(rng, nmin=m, nmax=m, max_inds=6, dims=(2, 3), allow_scalar=False)
                oq = _query_of(onet)
                ok = U.key_of({}, U._as_query(oq), False)
                if ok not in seen_keys:
                    seen_keys.add(ok)
                    break
            else:
                continue
            ot = gen.rand_tree(rng, m)
            fl, st = _flops(oq, ot)
            oa = {"tree": ot, "sliced": [], "flops": fl, "struct": st}
            oa["score"] = _score(oq, cls, oa)
            wt = gen.rand_tree(rng, m)
            wfl, wst = _flops(oq, wt)
            ow = {"tree": wt, "sliced": [], "flops": wfl + 5, "struct": wst}
            ow["score"] = _score(oq, cls, ow)
            others.append({"q": oq, "ans": oa, "w": ow})
        return {"q": q, "cls": cls, "split": split, "scenario": scenario, "answers": answers,
                "others": others, "seed": rng.randrange(1 << 30)}
    raise RuntimeError("case generator failed")


# ---------------------------------------------------------------------------------------------
# running one case


class CaseRun:
    """Directory handling + the three kinds of child processes of one case."""

    def __init__(self, case, base):
        self.case = case
        self.base = base
        self.dir = os.path.join(base, "cache")
        self.pre = os.path.join(base, "pre")
        sc = case["scenario"]
        self.cfg = {"cls": case["cls"], "directory": self.dir, "split": case["split"], "hash_method": "a"}
        self.wcfg = dict(self.cfg)
        if sc == "overwrite":
            self.wcfg["overwrite"] = True
        elif sc == "improved":
            self.wcfg["overwrite"] = "improved"
        self.key = U.key_of(self.cfg, U._as_query(case["q"]), False)
        self.okeys = [U.key_of(self.cfg, U._as_query(o["q"]), False) for o in case["others"]]

    def populate(self):
        """the state before the write, produced by the real code in a child"""
        sc = self.case["scenario"]
        ops = []
        if sc != "fresh-dir":
            ops = [{"q": o["q"], "ans": o["ans"]} for o in self.case["others"]]
            if sc in ("overwrite", "improved"):
                ops.append({"q": self.case["q"], "ans": self.case["answers"]["old"]})
            r = U.in_fork("session", self.cfg, ops)
            if r[0] != "ok":
                raise RuntimeError("populate failed: %r" % (r,))
        if os.path.isdir(self.dir):
            shutil.copytree(self.dir, self.pre)
        self.pre_snap = U.snapshot(self.pre)

    def restore(self):
        shutil.rmtree(self.dir, ignore_errors=True)
        if os.path.isdir(self.pre):
            shutil.copytree(self.pre, self.dir)

    def write(self, crash, mode="fork"):
        op = {"q": self.case["q"], "ans": self.case["answers"]["new"]}
        return U.run_child(mode, "write", self.wcfg, [op], crash)

    def readers(self, mode="fork", default_args=False):
        """two later fresh processes; with `default_args` they are opened the way a user who only
        knows the directory would: `directory_split` not passed at all ("auto")"""
        a = self.case["answers"]
        cfg = dict(self.cfg, split="default") if default_args else self.cfg
        r1 = U.run_child(mode, "session", cfg, [{"q": self.case["q"], "ans": a["w1"]}])
        ops2 = [{"q": self.case["q"], "ans": a["w2"]}]
        if self.case["scenario"] != "fresh-dir":
            ops2 += [{"q": o["q"], "ans": o["w"]} for o in self.case["others"]]
        r2 = U.run_child(mode, "session", cfg, ops2)
        return r1, r2

    # -- reading the directory -------------------------------------------------------------
    def keypath(self, k):
        return [k[:2], k[2:]] if self.case["split"] else [k]

    def file_of(self, snap, k):
        p = self.keypath(k)
        for fp, b in snap["files"]:
            if fp == p:
                return b
        return None

    def entry_id(self, ids, qobj, b):
        """id of the complete entry that the bytes `b` unpickle to (harness-side reading), or None"""
        if b is None:
            return None
        try:
            con = pickle.loads(bytes(b))
            pa = [list(map(int, s)) for s in con["path"]]
            sl = sorted(con["sliced_inds"])
            sc = float(con["score"])
        except Exception:  # noqa: BLE001
            return None
        return ident(ids, qobj, pa, sl, sc)


def ident(ids, qobj, path, sliced, score):
    """id of a complete entry = its content (path, sliced indices, score) -- a function of the
    file's bytes, as the model's codec is (two contractions may store byte-identical entries)"""
    return ids.setdefault(json.dumps([path, sorted(sliced), "%.9g" % score]), len(ids) + 1)


def ident_ans(ids, qobj, ans):
    return ident(ids, qobj, ans["path"], ans["sliced"], ans["score"])


def ident_obs(ids, qobj, o):
    """the entry a reader ended up with: what its DiskDict holds for the key after the call"""
    st = o["stored"]
    if not st:
        return -1
    return ident(ids, qobj, st["path"], st["sliced"], st["score"])


def tree_matches_entry(o):
    """the tree handed back is the tree of the entry the process holds (structure + slicing)"""
    st = o["stored"]
    return bool(st) and st["struct"] == o["struct"] and st["sliced"] == o["tree"]["sliced"]


def model_ops(events):
    """observed audit/write events -> model system calls; None if something is not modelled"""
    ops = []
    for e in events:
        if e["op"] in ("mkdir", "create", "unlink"):
            ops.append({"op": e["op"], "p": e["p"]})
        elif e["op"] == "append":
            if ops and ops[-1]["op"] == "append" and ops[-1]["p"] == e["p"]:
                ops[-1] = {"op": "append", "p": e["p"], "b": ops[-1]["b"] + e["b"]}
            else:
                ops.append({"op": "append", "p": e["p"], "b": list(e["b"])})
        elif e["op"] == "rename" and e["s"] is not None and e["d"] is not None:
            ops.append({"op": "rename", "s": e["s"], "d": e["d"]})
        else:
            return None
    return ops


def oracle(cr, ids, r1, r2, have_old):
    """implementation-side verdict on one crash point; returns None or (kind, detail)"""
    case = cr.case
    a = case["answers"]
    q = case["q"]
    id_old = ident_ans(ids, q, a["old"]) if have_old else None
    id_new = ident_ans(ids, q, a["new"])
    for name, r in (("reader1", r1), ("reader2", r2)):
        if r[0] != "ok":
            return ("reader-died", {"who": name, "detail": repr(r)[:200]})
    o1 = r1[1]["obs"][0]
    o2 = r2[1]["obs"][0]
    for name, o in (("reader1", o1), ("reader2", o2)):
        if o["outcome"] != "ok":
            exc = o["outcome"].split(":")[-1]
            return ("reader-raises", {"who": name, "exc": exc, "msg": o.get("msg")})
        t = o["tree"]
        if not t["complete"] or t["inputs"] != q["inputs"] or t["output"] != q["output"] or \
                not tree_matches_entry(o):
            return ("wrong-tree", {"who": name, "tree": t, "stored": o["stored"]})
    got1 = ident_obs(ids, q, o1)
    if have_old and o1["searches"] != 0:
        # the key held a complete entry before the crash: "entries stored before the crash remain
        # readable" -- the later process must find the complete old or the complete new entry
        return ("lost-entry", {"who": "overwritten-key", "searches": o1["searches"]})
    if o1["searches"] == 0:
        if got1 not in (id_old, id_new):
            return ("hit-unknown-entry", {"struct": o1["struct"], "sliced": o1["tree"]["sliced"],
                                          "stored": o1["stored"]})
    # "never fails permanently": the second process finds what the first found or stored
    got2 = ident_obs(ids, q, o2)
    if o2["searches"] != 0 or got2 != got1:
        return ("not-recovered", {"first": got1, "second": got2, "searches2": o2["searches"]})
    # earlier entries stay readable
    for o, other in zip(r2[1]["obs"][1:], case["others"]):
        if o["outcome"] != "ok":
            return ("reader-raises", {"who": "other-entry", "exc": o["outcome"].split(":")[-1],
                                      "msg": o.get("msg")})
        if o["searches"] != 0 or ident_obs(ids, other["q"], o) != ident_ans(ids, other["q"], other["ans"]) \
                or not tree_matches_entry(o):
            return ("lost-entry", {"other": other["q"]["inputs"], "searches": o["searches"]})
    return None


def outcome_view(ids, q, o):
    if o["outcome"] != "ok":
        return {"kind": "raised"}
    return {"kind": "hit" if o["searches"] == 0 else "searched", "entry": ident_obs(ids, q, o)}


def crash_points(cr, n_bytes, n_bound, n_prof, tier, rng):
    pts = [{"kind": "after-last-call"}]
    cap = 240 if tier == "quick" else 600
    ns = list(range(n_prof))
    if n_prof > cap:  # (a writer with very many Python-level events: keep the budget bounded)
        ns = sorted(set(rng.sample(ns, cap - 40) + ns[:20] + ns[-20:]))
    pts += [{"kind": "profile", "n": n} for n in ns]
    pts += [{"kind": "bytes", "k": k} for k in range(n_bytes + 1)]
    pts += [{"kind": "boundary", "b": b} for b in range(n_bound)]
    ks = list(range(n_bytes + 1))
    nrl = 6 if tier == "quick" else 40
    for k in sorted(rng.sample(ks, min(nrl, len(ks)))):
        pts.append({"kind": "rlimit", "k": k})
    nfresh = 3 if tier == "quick" else 10
    for k in sorted(rng.sample(ks, min(nfresh, len(ks)))):
        pts.append({"kind": "bytes", "k": k, "mode": "fresh"})
    for i, p in enumerate(pts):     # every other crash point: later processes with default arguments
        if i % 2:
            p["default_readers"] = True
    return pts


def run_point(cr, ids, crash, have_old):
    """kill the writer at `crash`, snapshot, run the later readers; returns
    (died, snapshot, r1, r2, verdict)"""
    mode = crash.get("mode", "fork")
    cr.restore()
    w = cr.write(None if crash["kind"] == "after-last-call" else
                 {k: v for k, v in crash.items() if k != "mode"}, mode)
    died = w[0] == "died"
    snap = U.snapshot(cr.dir)
    # (the default layout is the split one: only there do default arguments mean the same cache)
    r1, r2 = cr.readers(mode, default_args=bool(crash.get("default_readers")) and cr.case["split"])
    verdict = oracle(cr, ids, r1, r2, have_old)
    if verdict is None and w[0] == "exc":
        verdict = ("writer-raises", {"exc": w[1], "msg": w[2]})
    return died, snap, r1, r2, verdict


def signature(verdict):
    kind, det = verdict
    sig = {"site": "DiskDict", "kind": kind}
    if "exc" in det:
        sig["exc"] = det["exc"]
    return sig


def run_case(ctx, drv, case, base, budget_pts=None):
    """returns False if a violation was reported"""
    cr = CaseRun(case, base)
    cr.populate()
    ids = {}
    have_old = case["scenario"] in ("overwrite", "improved")
    q = case["q"]
    a = case["answers"]
    ctx.count("scenario:" + case["scenario"])
    ctx.count("layout:" + ("split" if case["split"] else "flat"))
    ctx.count("class:" + case["cls"])
    ctx.count("others:%d" % len(case["others"]))

    # 1. the un-crashed writer, observed
    cr.restore()
    w = cr.write(None)
    if w[0] != "ok" or w[1]["obs"][0]["outcome"] != "ok":
        ctx.violation({"site": "DiskDict", "kind": "writer-raises"}, {"case": case, "crash": None},
                      "the un-crashed writer fails: %r" % (w,))
        return False
    events = w[1]["events"]
    n_bound = w[1]["boundaries"]
    post = U.snapshot(cr.dir)
    data = cr.file_of(post, cr.key)
    if data is None or w[1]["obs"][0]["searches"] != 1:
        raise RuntimeError("case does not write its entry: %r" % (w[1]["obs"][0],))
    n_bytes = len(data)
    ctx.count("entry_bytes", n_bytes)
    ctx.count("boundaries", n_bound)

    # table of complete entries (harness-side unpickling) for the model's codec
    table = []
    for fp, b in cr.pre_snap["files"] + [[cr.keypath(cr.key), data]]:
        qobj = q if fp == cr.keypath(cr.key) else None
        for o, k in zip(case["others"], cr.okeys):
            if fp == cr.keypath(k):
                qobj = o["q"]
        if qobj is None:
            continue
        eid = cr.entry_id(ids, qobj, b)
        if eid is not None and [b, eid] not in table:
            table.append([b, eid])
    wids = {}
    for name in ("w1", "w2", "w3"):
        wids[name] = ident_ans(ids, q, a[name])
        table.append([[255, wids[name]], wids[name]])
    owids = []
    for o in case["others"]:
        ident_ans(ids, o["q"], o["ans"])
        owids.append(ident_ans(ids, o["q"], o["w"]))
        table.append([[255, owids[-1]], owids[-1]])

    probes = [cr.key] + cr.okeys
    model_views = None
    if drv is not None:
        ops = model_ops(events)
        fsj = {"files": cr.pre_snap["files"], "dirs": cr.pre_snap["dirs"]}
        if ops is None:
            ctx.corr_broken("writer performs a system call the model does not have",
                            {"events": [e["op"] for e in events]})
        else:
            adm = drv.call("c15.admissible", fs=fsj, f=cr.keypath(cr.key), data=data, ops=ops,
                           split=bool(case["split"]))
            disc = "atomic" if adm.get("admissible") else ("prefix" if adm.get("admissible_prefix") else "none")
            ctx.count("trace_discipline:" + disc)
            ctx.count("trace_layout_ok:%s" % adm.get("layout_ok"))
            if disc != "atomic" or not adm.get("is_key_path") or adm.get("final_file") != data:
                # (`prefix` = an in-place writer: survivable with the tolerant reader, but a kill can
                # lose the complete entry that was there before -- not enough for this property)
                ctx.corr_broken("observed system-call trace of DiskDict.__setitem__ is rejected by the verified "
                                "checker `admissible` (discipline: %s)" % disc,
                                {"ops": [(o["op"], o.get("p") or [o.get("s"), o.get("d")]) for o in ops]})
            if not adm.get("layout_ok"):
                ctx.corr_broken("the writer puts a regular file directly below a split cache directory (or a "
                                "sub-directory into a flat one): `directory_split='auto'` of a later process "
                                "may then pick the wrong layout (checker `layoutOK`)",
                                {"ops": [(o["op"], o.get("p") or [o.get("s"), o.get("d")]) for o in ops]})
            st = drv.call("c15.crash", fs=fsj, split=case["split"], key=cr.key, data=data, protocol="atomic",
                          ops=ops, table=table, probes=probes)
            if "error" in st:
                ctx.corr_broken("driver: " + st["error"])
            else:
                model_views = {json.dumps([p["file"] for p in row]) for row in st["states"]}
                ctx.count("model_crash_states", st["n"])
            # shape of the trace against the model's own protocol (informational)
            ms = drv.call("c15.steps", split=case["split"], key=cr.key, data=data, protocol="atomic")
            shape = [o["op"] for o in ops if not (o["op"] == "mkdir" and o["p"] == [])]
            ctx.count("trace_shape_equals_model:%s" % (shape == [o["op"] for o in ms.get("ops", [])]))

    # 2. every crash point
    cr.restore()
    wp = cr.write({"kind": "profile-count"})
    n_prof = wp[1]["profile_events"] if wp[0] == "ok" else 0
    ctx.count("profile_events", n_prof)
    pts = crash_points(cr, n_bytes, n_bound, n_prof, ctx.tier, ctx.rng)
    if budget_pts is not None:
        pts = pts[:budget_pts]
    ok = True
    for crash in pts:
        if ctx.time_left() < 20:
            ctx.count("crash_points_skipped_for_time")
            break
        died, snap, r1, r2, verdict = run_point(cr, ids, crash, have_old)
        tag = crash["kind"] + (":fresh" if crash.get("mode") == "fresh" else "")
        ctx.count("crash:" + tag)
        ctx.count("readers:" + ("default-arguments" if crash.get("default_readers") and case["split"]
                                else "explicit-layout"))
        ctx.count("writer_died:%s" % died)
        ctx.case({"q": q["inputs"], "scenario": case["scenario"], "split": case["split"], "cls": case["cls"],
                  "crash": crash}, nontrivial=died)
        kb = cr.file_of(snap, cr.key)
        kid = cr.entry_id(ids, q, kb)
        state = "absent" if kb is None else ("complete" if kid is not None else "partial:%s" % (
            "empty" if not kb else "prefix"))
        ctx.count("keyfile_after_crash:" + state)
        if kb is not None and kid is None:
            ctx.count("prefix_unloadable")
        if verdict is not None:
            ok = False
            ctx.count("oracle_fail:" + verdict[0])
            ctx.violation(signature(verdict), {"case": case, "crash": crash, "verdict": verdict},
                          "after killing the writer at %s a later process %s: %s" % (
                              json.dumps(crash), verdict[0], json.dumps(verdict[1])[:300]))
            continue
        o1, o2 = r1[1]["obs"][0], r2[1]["obs"][0]
        if o1["searches"]:
            ctx.count("reader1:searched")
        else:
            isnew = ident_obs(ids, q, o1) == ident_ans(ids, q, a["new"])
            ctx.count("reader1:hit-new" if isnew else "reader1:hit-old")
        if drv is None:
            continue
        # (E1) the snapshot is one of the model's crash states
        view = json.dumps([cr.file_of(snap, k) for k in probes])
        if model_views is not None and view not in model_views:
            ctx.corr_broken("post-crash directory is not among the model's crash states",
                            {"crash": crash, "keyfile_len": None if kb is None else len(kb)})
        # (E2) later processes: the model run on the real snapshot
        queries = [[cr.key, wids["w1"]], [cr.key, wids["w2"]]] + [[k, w] for k, w in zip(cr.okeys, owids)
                                                                   if case["scenario"] != "fresh-dir"]
        tbl = list(table)
        for fp, b in snap["files"]:
            for k, qobj in [(cr.key, q)] + [(k2, o["q"]) for k2, o in zip(cr.okeys, case["others"])]:
                if fp == cr.keypath(k):
                    eid = cr.entry_id(ids, qobj, b)
                    if eid is not None and [b, eid] not in tbl:
                        tbl.append([b, eid])
        lm = drv.call("c15.later", fs={"files": snap["files"], "dirs": snap["dirs"]}, split=case["split"],
                      table=tbl, reader="new", queries=queries)
        real = [outcome_view(ids, q, o1), outcome_view(ids, q, o2)]
        if case["scenario"] != "fresh-dir":
            real += [outcome_view(ids, o["q"], ob) for o, ob in zip(case["others"], r2[1]["obs"][1:])]
        ctx.traces += 1
        if lm.get("outcomes") != real:
            ctx.corr_broken("later processes behave differently from the model's reader on the same directory",
                            {"crash": crash, "model": lm.get("outcomes", lm), "real": real})
    return ok


def static_note():
    """source-derived description of DiskDict.__setitem__ (informational: the tie is the observed trace)"""
    import ast
    src = open(os.path.join(common.REPO, "cotengra", "utils.py")).read()
    calls = []
    for node in ast.walk(ast.parse(src)):
        if isinstance(node, ast.ClassDef) and node.name == "DiskDict":
            for fn in node.body:
                if isinstance(fn, ast.FunctionDef) and fn.name == "__setitem__":
                    for c in ast.walk(fn):
                        if isinstance(c, ast.Call):
                            f = c.func
                            name = f.id if isinstance(f, ast.Name) else getattr(f, "attr", "?")
                            if name in ("open", "mkdir", "replace", "rename", "dump", "unlink", "fsync"):
                                mode = ""
                                if name == "open" and len(c.args) > 1 and isinstance(c.args[1], ast.Constant):
                                    mode = ":" + str(c.args[1].value)
                                calls.append((c.lineno, name + mode))
    return [c for _, c in sorted(calls)]


def _corpus(ctx):
    d = os.path.join(common.VERIF, "corpus", PROP)
    ok = True
    if not os.path.isdir(d):
        return ok
    for fn in sorted(os.listdir(d)):
        if not fn.endswith(".json"):
            continue
        obj = json.load(open(os.path.join(d, fn)))
        rep = obj.get("replay", obj)
        ctx.count("corpus_replayed")
        verdict = _replay_verdict(rep)
        if verdict is not None:
            ok = False
            ctx.violation(signature(verdict), rep,
                          "corpus case %s fails again: %s %s" % (fn, verdict[0], json.dumps(verdict[1])[:200]))
    return ok


def run(ctx, drv):
    try:
        ctx.notes["static_setitem_calls"] = static_note()
    except Exception as e:  # noqa: BLE001
        ctx.notes["static_setitem_calls"] = "unreadable: %r" % (e,)
    root = tempfile.mkdtemp(prefix="verif-c15-")
    try:
        _corpus(ctx)
        ncases = 8 if ctx.tier == "quick" else 80
        for i in range(ncases):
            if ctx.time_left() < 30:
                break
            case = gen_case(ctx.rng, i)
            base = os.path.join(root, "case%d" % i)
            os.makedirs(base)
            run_case(ctx, drv, case, base)
            shutil.rmtree(base, ignore_errors=True)
    finally:
        shutil.rmtree(root, ignore_errors=True)


def search(ctx):
    """implementation-only: more cases, no model"""
    root = tempfile.mkdtemp(prefix="verif-c15s-")
    found = False
    try:
        for i in range(12):
            if ctx.time_left() < 30 or found:
                break
            case = gen_case(ctx.rng, 100 + i)
            base = os.path.join(root, "case%d" % i)
            os.makedirs(base)
            before = ctx.violations + len(ctx.known_hits)
            run_case(ctx, None, case, base)
            found = (ctx.violations + len(ctx.known_hits)) > before
            shutil.rmtree(base, ignore_errors=True)
    finally:
        shutil.rmtree(root, ignore_errors=True)
    return found


def _replay_verdict(obj):
    case, crash = obj["case"], obj["crash"]
    base = tempfile.mkdtemp(prefix="verif-c15r-")
    try:
        cr = CaseRun(case, base)
        cr.populate()
        ids = {}
        have_old = case["scenario"] in ("overwrite", "improved")
        if crash is None:
            cr.restore()
            w = cr.write(None)
            if w[0] != "ok" or w[1]["obs"][0]["outcome"] != "ok":
                return ("writer-raises", {"detail": repr(w)[:200]})
            return None
        _, _, _, _, verdict = run_point(cr, ids, crash, have_old)
        return verdict
    finally:
        shutil.rmtree(base, ignore_errors=True)


def replay(ctx, obj):
    verdict = _replay_verdict(obj)
    if verdict is not None:
        print("# C15 replay:", verdict[0], json.dumps(verdict[1])[:300])
    return verdict is None
