"""C20 -- compressed-contraction estimates equal the exact ones when nothing is truncated.

Tie (E): `tree.compressed_contract_stats(chi, order, compress_late)` of /repo versus the Lean model
`HG.compressedStats` (Model/HyperGraph.lean: HyperGraph.contract / compress / node_size /
neighborhood_* and CompressedStatsTracker), for ordinary networks x trees x traversal orders x
compress_late x caps; the loop is also replayed step by step on the real `HyperGraph` +
`CompressedStatsTracker` objects so that the tracker and the whole hypergraph (nodes, edges, merged
sizes) are compared after every step, together with `candidate_contraction_size(i, j, chi)`.
Oracle (implementation + independent reference): with a cap at least as large as every bond that
arises (the product of all dimensions, and the tightest such cap observed) flops == tree.total_flops(),
write == tree.total_write() + sum of input sizes, max_size == tree.max_size(); for caps 1,2,4,16:
max_size, peak_size, write <= their uncapped values; greedy-compressed / greedy-span / kahypar-agglom
return complete ordered trees on connected ordinary networks.
"""

import random

import cotengra as ctg
from cotengra.hypergraph import HyperGraph
from cotengra.scoring import CompressedStatsTracker

from . import gen, refimpl
from .c18 import relabel, reduced_in_leaf, prod, replay_verdict

PROP = "C20"
LEVEL = "proof"
LEVEL_TEXT = (
    "Lean 4 theorems about a transcription of HyperGraph.contract/compress/node_size and "
    "CompressedStatsTracker: merging a multibond under a cap that is not smaller than it leaves every "
    "node size unchanged -- for one merge and for a whole compress call on consistent dictionaries (prod_merge, "
    "compress_preserves_product, compress_nodeSize); along plain contractions every node the "
    "hypergraph creates carries the tree's legs and size (hg_contract_legs, any sequence), and a step of "
    "compressed_contract_stats whose compression branches merge nothing adds exactly the tree's size to "
    "write / max_size and the tree's flops (uncapped_eq_exact_partial; inputs are counted: init_counts_inputs); "
    "for caps c1 <= c2 the runs go through the same hypergraph shapes with pointwise smaller sizes, so "
    "write and max_size are monotone in the cap (capped_le_uncapped_partial). Partial: the quotient "
    "simulation that lifts exactness through merges, and peak_size monotonicity, are covered by the "
    "correspondence only. The model is tied to /repo on every run by step-by-step equality correspondence "
    "of tracker and hypergraph state (nodes, edges, merged sizes).")
LEVEL_NOTE = (
    "Trusted: Lean kernel; the hand-written model (validated on generated cases only); harness "
    "canonicalisation; kahypar (native) and the greedy heuristics are run, not modelled. QR-cost terms "
    "(neighborhood_compress_cost) are modelled with a fixed node order and compared only through the "
    "tracker's flops. Known findings: compressed max_size counts input tensors; compressed flops keep "
    "dangling indices that the tree sums at the leaf.")
TECHNIQUE = ("Lean 4 proof (hypergraph state invariant, L1, tracker arithmetic) + differential step-by-step "
             "correspondence of compressed_contract_stats with /repo")
LEAN_MODULES = ["CotengraVerif.Props.C20"]
THEOREMS = [
    "Cotengra.C20.prod_merge",
    "Cotengra.C20.compress_preserves_product",
    "Cotengra.C20.compress_groups_nodeSize",
    "Cotengra.C20.compress_nodeSize",
    "Cotengra.C20.init_counts_inputs",
    "Cotengra.C20.uncapped_eq_exact_partial",
    "Cotengra.C20.max_size_counts_inputs_counterexample",
    "Cotengra.C20.capped_le_uncapped_partial",
    "Cotengra.C18.hg_contract_legs",
    "Cotengra.C18.hg_cost_eq_tree_partial",
    "Cotengra.C18.hg_cost_counterexample",
]
TRUSTED = [
    "Lean 4.33 kernel; axioms within {propext, Classical.choice, Quot.sound}",
    "hand-written model Model/HyperGraph.lean of hypergraph.py:60-338, scoring.py:339-429, core.py:1079-1123, "
    "tied by this correspondence on the generated cases only",
    "kahypar (native library) and the greedy / span heuristics are executed, not modelled; only the "
    "completeness of what they return is checked",
]
ASSUMPTIONS = [
    "ordinary networks: no index repeated inside a tensor; output indices distinct and present in some "
    "input; sizes >= 1; N >= 2; unsliced trees (compressed_contract_stats ignores slicing)",
    "'nothing truncated' = cap >= every bond that arises: chi = product of all dimensions, and the "
    "tightest cap = largest size_dict value seen during the uncapped run",
    "pathfinder completeness is checked on connected networks only",
]
RULE = ("random ordinary networks (graphs, hyper-edges, output indices, dangling, all-tensor indices) x random "
        "trees x order in {dfs, random callable, surface} x compress_late x caps {1,2,4,16,tight,huge}; one case = "
        "one network/tree/order/late with all caps; non-trivial = >= 3 tensors and some cap that truncated a "
        "bond or a hyper / multibond feature; distinct by content hash")
BUDGET = {"quick": 600, "thorough": 3000}

KINDS = ("bond", "bond", "hyper", "dangling", "out1", "outk", "all", "batch")


def gen_case(rng, tier):
    nmax = 7 if tier == "quick" else 9
    kinds = KINDS if rng.random() < 0.6 else ("bond", "bond", "bond", "hyper", "out1", "batch")
    net = relabel(gen.rand_net(rng, nmin=2, nmax=nmax, max_inds=10, dims=(1, 2, 2, 3, 4), kinds=kinds,
                               allow_scalar=rng.random() < 0.3))
    if rng.random() < 0.25:
        # the estimates are exact integers of any magnitude: large, non-power-of-two dimensions take the
        # operation counts beyond 2**53, where a float could no longer represent them
        for ix in list(net.sizes):
            net.sizes[ix] = rng.choice([1, 3, 46349, 999983, 1000003, (1 << 20) + 7, (1 << 31) - 1])
    return {"net": net.json(), "tree": gen.rand_tree(rng, len(net.inputs)),
            "order": rng.choice(["dfs", "callable", "surface"]), "late": rng.random() < 0.5,
            "seed": rng.randrange(1 << 30),
            "finders": rng.random() < (0.15 if tier == "quick" else 0.08),
            "restructure": rng.random() < 0.3}


def build(case):
    net = gen.Net.from_json(case["net"])
    n = len(net.inputs)
    ssa = gen.tree_to_ssa(case["tree"], n)
    cls = ctg.ContractionTreeCompressed if case["order"] == "surface" else ctg.ContractionTree
    tree = cls.from_path(net.sym_inputs(), net.sym_output(), net.sym_sizes(), ssa_path=ssa)
    if case["order"] == "dfs":
        order = "dfs"
    elif case["order"] == "surface":
        order = "surface_order"
    else:
        rr = random.Random(case["seed"])
        scores = {}

        def order(node):
            if node not in scores:
                scores[node] = rr.random()
            return scores[node]
    return net, tree, order


def hg_path(tree, order):
    n = tree.N
    ids = {leaf: i for i, leaf in enumerate(tree.gen_leaves())}
    path = []
    for k, (p, l, r) in enumerate(tree.traverse(order)):
        path.append([ids[l], ids[r]])
        ids[p] = n + k
    return path, ids


def tracker_fields(t, qr=None):
    if qr is not None:
        # the QR terms (neighborhood_compress_cost) walk a frozenset while rebinding `da`: their value
        # depends on CPython's set iteration order, so the model is compared on flops minus QR terms
        return {"flops_contract": int(t.flops) - qr, "max_size": int(t.max_size), "peak_size": int(t.peak_size),
                "write": int(t.write), "total_size": int(t.total_size), "contracted_size": int(t.contracted_size)}
    return {"flops": int(t.flops), "max_size": int(t.max_size), "peak_size": int(t.peak_size),
            "write": int(t.write), "total_size": int(t.total_size), "contracted_size": int(t.contracted_size)}


def shape_of(nodes, edges, sizes, output):
    """Label-free view of a hypergraph: which edge survives a merge is representation freedom, so edges are
    described by (incident nodes, size, is-output) and nodes by the multiset of their edge sizes."""
    sz = dict(sizes)
    out = set(output)
    return {"nodes": sorted([k, sorted(sz[e] for e in v)] for k, v in nodes),
            "edges": sorted([sorted(v), sz[e], e in out] for e, v in edges)}


def canon_hg(hg, us):
    return shape_of([[int(k), [us[e] for e in v]] for k, v in hg.nodes.items()],
                    [[us[e], [int(x) for x in v]] for e, v in hg.edges.items()],
                    [[us[e], int(v)] for e, v in hg.size_dict.items() if e in us],
                    [us[e] for e in hg.output])


def replay_real(net, tree, order, chi, late):
    """The loop of compressed_contract_stats (core.py:1091-1123) on the real HyperGraph and tracker,
    dumping after every step."""
    us = gen.unsym(net)
    hg = tree.get_hypergraph(accel=False)
    tree_map = dict(zip(tree.gen_leaves(), range(hg.get_num_nodes())))
    tracker = CompressedStatsTracker(hg, chi)
    init = tracker_fields(tracker, 0)
    steps = []
    qr = 0
    maxsz = max(hg.size_dict.values(), default=1)
    for p, l, r in tree.traverse(order):
        li, ri = tree_map[l], tree_map[r]
        cand = int(hg.candidate_contraction_size(li, ri, chi))
        tracker.update_pre_step()
        if late:
            qr += int(hg.neighborhood_compress_cost(chi, (li, ri)))
            tracker.update_pre_compress(hg, li, ri)
            hg.compress(chi=chi, edges=hg.get_node(li))
            hg.compress(chi=chi, edges=hg.get_node(ri))
            tracker.update_post_compress(hg, li, ri)
        tracker.update_pre_contract(hg, li, ri)
        pi = tree_map[p] = hg.contract(li, ri)
        tracker.update_post_contract(hg, pi)
        if not late:
            qr += int(hg.neighborhood_compress_cost(chi, (pi,)))
            tracker.update_pre_compress(hg, pi)
            hg.compress(chi=chi, edges=hg.get_node(pi))
            tracker.update_post_compress(hg, pi)
        tracker.update_post_step()
        maxsz = max(maxsz, max(hg.size_dict.values(), default=1))
        steps.append({"tracker": tracker_fields(tracker, qr), "hg": canon_hg(hg, us), "candidate": cand})
    return init, steps, tracker_fields(tracker, qr), maxsz, tracker_fields(tracker)


def model_steps(resp, output):
    out = []
    for s in resp["steps"]:
        h = s["hg"]
        out.append({"tracker": s["tracker"], "candidate": s["candidate"],
                    "hg": shape_of(h["nodes"], h["edges"], h["sizes"], output)})
    return out


def valid_complete_tree(tree, n):
    """own validity check of a returned tree: complete, binary, leaves partitioned, ordered traversal"""
    if tree.N != n or not tree.is_complete() or len(tree.children) != n - 1:
        return "incomplete"
    seen = set()
    ready = {frozenset([i]) for i in range(n)}
    for p, l, r in tree.traverse():
        if l not in ready or r not in ready or (l & r) or (l | r) != p or p in seen:
            return "bad-order"
        ready.discard(l)
        ready.discard(r)
        ready.add(p)
        seen.add(p)
    if ready != {frozenset(range(n))}:
        return "not-a-single-root"
    ssa = tree.get_ssa_path()
    used = [i for pr in ssa for i in pr]
    if len(ssa) != n - 1 or sorted(used) != list(range(2 * n - 2)):
        return "bad-ssa-path"
    return None


def finder_oracle(case, net):
    from cotengra.pathfinders import path_compressed_greedy as pcg
    from cotengra.pathfinders import path_kahypar as pk
    bad = []
    if not gen.connected(net) or len(net.inputs) < 2:
        return bad, 0
    inputs, output, sd = net.sym_inputs(), net.sym_output(), net.sym_sizes()
    rr = random.Random(case["seed"])
    runs = 0
    finders = [
        ("greedy-compressed", lambda: pcg.trial_greedy_compressed(inputs, output, sd, chi=rr.choice([1, 2, 4, 16]),
                                                                   seed=rr.randrange(1 << 30))),
        ("greedy-span", lambda: pcg.trial_greedy_span(inputs, output, sd, seed=rr.randrange(1 << 30))),
        ("kahypar-agglom", lambda: pk.kahypar_to_tree.trial_fn_agglom(inputs, output, sd,
                                                                      seed=rr.randrange(1 << 30))),
    ]
    for name, fn in finders:
        try:
            tree = fn()
        except Exception as e:      # a finder that raises on a connected ordinary network
            bad.append(({"site": name, "kind": "raises"}, repr(e)[:200]))
            continue
        runs += 1
        try:
            why = valid_complete_tree(tree, len(net.inputs))
        except Exception as e:
            why = "invalid:" + type(e).__name__
        if why:
            bad.append(({"site": name, "kind": why.split(":")[0]}, why))
    return bad, runs


class ImplRaises(Exception):
    """The implementation raised inside compressed_contract_stats / HyperGraph / the tracker."""


def analyse(case):
    try:
        return _analyse(case)
    except (KeyError, IndexError, ValueError, RuntimeError, AttributeError, TypeError, ZeroDivisionError) as e:
        raise ImplRaises(repr(e)[:200])


def _analyse(case):
    net, tree, order = build(case)
    n = len(net.inputs)
    late = case["late"]
    huge = prod(net.sizes.values()) + 1
    runs = {}
    init, steps, fin, maxsz, full = replay_real(net, tree, order, huge, late)
    runs["huge"] = (huge, init, steps, fin)
    loop_full = {"huge": full}
    tight = maxsz
    for name, chi in (("tight", tight), ("1", 1), ("2", 2), ("4", 4), ("16", 16)):
        rr_ = replay_real(net, tree, order, chi, late)
        runs[name] = (chi,) + rr_[:3]
        loop_full[name] = rr_[4]
    api = {}
    for name, (chi, _, _, fin_) in runs.items():
        t = tree.compressed_contract_stats(chi=chi, order=order, compress_late=late)
        api[name] = tracker_fields(t)
    path, ids = hg_path(tree, order)
    exact = tree.contract_stats()
    exact = {"flops": int(exact["flops"]), "write": int(exact["write"]), "size": int(exact["size"])}
    api["_loop"] = loop_full
    return net, tree, order, runs, api, path, exact


def oracle(case, net, tree, runs, api, path, exact):
    bad = []
    n = len(net.inputs)
    # the step-by-step replay is the library's own loop: it must give what the API gives
    loop_full = api["_loop"]
    for name in runs:
        if loop_full[name] != api[name]:
            bad.append(({"site": "compressed_contract_stats", "kind": "api-vs-loop"}, (name, loop_full[name], api[name])))
    leaf_sizes = [prod(net.sizes[ix] for ix in t) for t in net.inputs]
    spec = refimpl.spec_costs(net, case["tree"])
    if {k: spec[k] for k in ("flops", "write", "size")} != exact:
        bad.append(({"site": "contract_stats", "kind": "exact-vs-definition"}, (spec["flops"], exact)))
    # expected flops when dangling indices sit on leaf operands
    red = reduced_in_leaf(net)
    rows = {tuple(r["leaves"]): r for r in spec["rows"]}
    exp_flops = 0
    leafset = {}

    def go(t):
        if isinstance(t, int):
            return (t,)
        a, b = go(t[0]), go(t[1])
        nonlocal exp_flops
        extra = prod(net.sizes[ix] for i, ix in red if (len(a) == 1 and i == a[0]) or (len(b) == 1 and i == b[0]))
        exp_flops += rows[tuple(sorted(a + b))]["flops"] * extra
        return tuple(sorted(a + b))

    go(case["tree"])
    for name in ("huge", "tight"):
        u = api[name]
        if u["flops"] != exact["flops"]:
            cls = "dangling-index-on-leaf-operand" if (red and u["flops"] == exp_flops) else "other"
            bad.append(({"site": "compressed_contract_stats.flops", "class": cls},
                        (name, u["flops"], exact["flops"])))
        if u["write"] != exact["write"] + sum(leaf_sizes):
            bad.append(({"site": "compressed_contract_stats.write", "class": "other"},
                        (name, u["write"], exact["write"], sum(leaf_sizes))))
        if u["max_size"] != exact["size"]:
            cls = "input-larger-than-every-intermediate" if \
                (max(leaf_sizes) > exact["size"] and u["max_size"] == max(leaf_sizes)) else "other"
            bad.append(({"site": "compressed_contract_stats.max_size", "class": cls},
                        (name, u["max_size"], exact["size"], max(leaf_sizes))))
    if api["tight"] != api["huge"]:
        bad.append(({"site": "compressed_contract_stats", "kind": "tight-cap-differs"}, (api["tight"], api["huge"])))
    u = api["huge"]
    for name in ("1", "2", "4", "16"):
        c = api[name]
        for f in ("max_size", "peak_size", "write"):
            if c[f] > u[f]:
                bad.append(({"site": "compressed_contract_stats." + f, "kind": "capped-exceeds-uncapped"},
                            (name, c[f], u[f])))
    return bad


def correspond(ctx, drv, case, runs, path):
    ok = True
    for name, (chi, init, steps, fin) in runs.items():
        r = drv.call("c20.stats", net=case["net"], chi=chi, late=case["late"], path=path)
        ctx.traces += 1
        good = "error" not in r and r["init"] == init and r["final"] == fin and r["one_shot"] == fin and \
            model_steps(r, case["net"]["output"]) == steps
        if not good:
            ctx.corr_broken("compressed_contract_stats differs from HG.compressedStats (chi=%s)" % name,
                            {"case": case, "chi": chi})
            ok = False
    return ok


def restructure_oracle(case, net, tree, order, ctx):
    """State that survives between calls: the estimates have just been queried on this tree object (by `analyse`);
    now the *same object* is restructured in place by a whole-tree transformation and queried again with the same
    options. The answer must be the one a copy of the tree -- same structure, nothing remembered -- gives."""
    class _NoCount:
        def count(self, *a):
            pass
    ctx = ctx or _NoCount()
    rr = random.Random(case["seed"] ^ 0x5EED)
    late = case["late"]
    named = order if isinstance(order, str) else "dfs"
    chis = [1, 2, 4, prod(net.sizes.values()) + 1]
    for chi in chis:     # make sure every option combination used below has been asked before
        tree.compressed_contract_stats(chi=chi, order=named, compress_late=late)
    k = rr.randrange(5)
    before = sorted(tuple(sorted(p)) for p in tree.children)
    try:
        if k == 0:
            what = "subtree_reconfigure_forest_"
            tree.subtree_reconfigure_forest_(num_trees=2, num_restarts=1, subtree_maxiter=3, subtree_size=4,
                                             parallel=False, seed=rr.randrange(1 << 30))
        elif k == 1:
            what = "parallel_temper_"
            tree.parallel_temper_(tsteps=1, numiter=3, num_trees=2, parallel=False, seed=rr.randrange(1 << 30))
        elif k == 2:
            what = "simulated_anneal_"
            tree.simulated_anneal_(tsteps=2, numiter=4, seed=rr.randrange(1 << 30))
        elif k == 3:
            what = "subtree_reconfigure_"
            tree.subtree_reconfigure_(subtree_size=4, maxiter=3, seed=rr.randrange(1 << 30),
                                      minimize=rr.choice(["size", "flops", "write"]))
        else:
            what = "windowed_reconfigure_" if hasattr(tree, "windowed_reconfigure_") and \
                isinstance(tree, ctg.ContractionTreeCompressed) else "slice_and_reconfigure_forest_"
            if what == "windowed_reconfigure_":
                tree.windowed_reconfigure_(window_size=4, max_iterations=4, seed=rr.randrange(1 << 30))
            else:
                tree.slice_and_reconfigure_forest_(max(1, tree.max_size() // 2), num_trees=2, max_repeats=2,
                                                   parallel=False, reconf_opts={"subtree_size": 4, "maxiter": 2})
    except Exception as e:   # the transformation itself is not C20's business
        ctx.count("restructure_raises:" + type(e).__name__)
        return []
    changed = sorted(tuple(sorted(p)) for p in tree.children) != before
    ctx.count("restructure:%s:%s" % (what, "changed" if changed else "same-structure"))
    bad = []
    twin = tree.copy()
    for chi in chis:
        try:
            a = tracker_fields(tree.compressed_contract_stats(chi=chi, order=named, compress_late=late))
            b = tracker_fields(twin.compressed_contract_stats(chi=chi, order=named, compress_late=late))
        except Exception as e:
            ctx.count("restructure_stats_raise:" + type(e).__name__)
            return bad
        if a != b:
            bad.append(({"site": "compressed_contract_stats", "kind": "stale-after-inplace-restructure", "op": what},
                        {"chi": chi, "order": named, "tree": a, "copy_of_tree": b}))
            break
    return bad


def check_case(ctx, drv, case):
    try:
        net, tree, order, runs, api, path, exact = analyse(case)
    except ImplRaises as e:
        sig = {"site": "compressed_contract_stats", "kind": "raises"}
        ctx.case(case, nontrivial=True)
        ctx.violation(sig, {"case": case, "detail": str(e), "signature": sig},
                      "compressed_contract_stats raises on an ordinary network: %s" % e)
        ctx.count("oracle_mismatch:raises")
        return
    feats = net.features()
    for f in feats:
        ctx.count("feature:" + f)
    ctx.count("order:" + case["order"])
    ctx.count("late:%s" % case["late"])
    ctx.count("N:%d" % len(net.inputs))
    truncated = [nm for nm in ("1", "2", "4", "16") if api[nm] != api["huge"]]
    ctx.count("caps_that_truncate", len(truncated))
    nedges0 = len(set(e for t in net.inputs for e in t))
    merged = any(len(s["hg"]["edges"]) < nedges0 and len(s["hg"]["nodes"]) > 1 and
                 any(sz not in net.sizes.values() for _, sz, _ in s["hg"]["edges"]) for s in runs["huge"][2])
    ctx.count("multibond_merged", 1 if merged else 0)
    ctx.count("dangling_cases", 1 if reduced_in_leaf(net) else 0)
    nontrivial = len(net.inputs) >= 3 and (bool(truncated) or merged or "hyper" in feats)
    ctx.case(case, nontrivial=nontrivial)
    bad = oracle(case, net, tree, runs, api, path, exact)
    if case.get("restructure") and len(net.inputs) >= 3:
        b3 = restructure_oracle(case, net, tree, order, ctx)
        bad += b3
    if case.get("finders"):
        b2, nruns = finder_oracle(case, net)
        bad += b2
        ctx.count("finder_runs", nruns)
    for sig, detail in bad:
        ctx.violation(sig, {"case": case, "detail": detail, "signature": sig},
                      "compressed estimate differs from the exact figure: %s %s" % (sig, str(detail)[:200]))
        ctx.count("oracle_mismatch:" + sig["site"])
    if drv is not None:
        correspond(ctx, drv, case, runs, path)


def run(ctx, drv):
    import glob
    import json
    import os
    from .common import VERIF
    for f in sorted(glob.glob(os.path.join(VERIF, "corpus", "C20", "*.json"))):
        obj = json.load(open(f))
        check_case(ctx, drv, obj.get("replay", obj)["case"])
        ctx.count("corpus")
    ncases = 1200 if ctx.tier == "quick" else 20000
    for _ in range(ncases):
        if ctx.time_left() < 5:
            break
        check_case(ctx, drv, gen_case(ctx.rng, ctx.tier))


def _oracle_only(case):
    try:
        net, tree, order, runs, api, path, exact = analyse(case)
    except ImplRaises as e:
        return [({"site": "compressed_contract_stats", "kind": "raises"}, str(e))]
    bad = oracle(case, net, tree, runs, api, path, exact)
    if case.get("restructure") and len(net.inputs) >= 3:
        bad += restructure_oracle(case, net, tree, order, None)
    if case.get("finders"):
        bad += finder_oracle(case, net)[0]
    return bad


def search(ctx):
    found = False
    for _ in range(3000):
        if ctx.time_left() < 5:
            break
        case = gen_case(ctx.rng, "thorough")
        for sig, detail in _oracle_only(case):
            if ctx.violation(sig, {"case": case, "detail": detail, "signature": sig},
                             "compressed estimate differs: %s" % sig):
                found = True
        if found:
            break
    return found


def replay(ctx, obj):
    if "case" not in obj:
        print("# nothing to re-execute: this file records an undischarged obligation / correspondence "
              "(no failing input was found)")
        return True
    return replay_verdict(ctx, obj, [sig for sig, _ in _oracle_only(obj["case"])])
