"""History engine shared by C02 and C04: random words over the public tree transformations and
over the primitive mutators, applied to a real ContractionTree; raw dumps of the real state.

Every op is a JSON dict carrying all its parameters and seeds, so a history replays exactly.
"""

import warnings

import cotengra as ctg

from . import gen

warnings.filterwarnings("ignore")

PUBLIC_OPS = (
    "slice", "slice", "project", "restore", "unslice_rand", "unslice_all",
    "reconf", "reconf", "forest", "anneal", "anneal", "anneal_slice", "temper",
    "slice_auto", "slice_reconf", "slice_reconf_forest", "copy", "stats", "stats",
    "manual", "sort", "reset", "nonplace_slice", "nonplace_reconf",
)


def gen_history(rng, net, length, ops=PUBLIC_OPS, allow=None):
    """A random word of ops (parameters drawn now, validity decided at application time)."""
    inds = net.indices()
    hist = []
    for _ in range(length):
        k = rng.choice(ops)
        if allow is not None and k not in allow:
            continue
        op = {"k": k, "seed": rng.randrange(1 << 30)}
        if k in ("slice", "project", "nonplace_slice"):
            op["ix"] = rng.choice(inds)
            if k == "project":
                op["val"] = rng.randrange(net.sizes[op["ix"]])
        elif k == "restore":
            op["pick"] = rng.randrange(1 << 16)
            op["ix"] = rng.choice(inds)  # fallback: slice this one when nothing is sliced yet
        elif k in ("reconf", "nonplace_reconf"):
            op.update(size=rng.choice([2, 3, 4, 6]), search=rng.choice(["bfs", "dfs", "random"]),
                      select=rng.choice(["max", "min", "random"]),
                      minimize=rng.choice(["flops", "size", "write", "combo", "limit"]),
                      maxiter=rng.choice([1, 2, 5]), weight_what=rng.choice(["flops", "size"]))
        elif k == "forest":
            op.update(num_trees=rng.choice([2, 3]), num_restarts=rng.choice([1, 2]),
                      subtree_maxiter=rng.choice([1, 3]), subtree_size=rng.choice([3, 4]),
                      minimize=rng.choice(["flops", "size", "combo"]))
        elif k in ("anneal", "anneal_slice"):
            op.update(tsteps=rng.choice([1, 2]), numiter=rng.choice([1, 2, 4]),
                      minimize=rng.choice(["flops", "size", "combo"]))
            if k == "anneal_slice":
                op.update(div=rng.choice([2, 4, 8]), slice_mode=rng.choice(["basic", "reslice", "drift", 2]))
        elif k == "temper":
            op.update(tsteps=rng.choice([1, 2]), numiter=rng.choice([1, 2]), num_trees=rng.choice([2, 3]),
                      div=rng.choice([None, 2, 4]), slice_mode=rng.choice(["basic", "reslice", "drift"]),
                      parallel_slice_mode=rng.choice(["temperature", "time", "constant"]))
        elif k == "slice_auto":
            op.update(target=rng.choice(["size", "slices", "overhead"]), div=rng.choice([2, 4]),
                      nsl=rng.choice([2, 3, 4]), ovh=rng.choice([1.1, 2.0, 4.0]),
                      allow_outer=rng.choice([True, True, False]), reslice=rng.random() < 0.2,
                      max_repeats=rng.choice([1, 4]))
        elif k in ("slice_reconf", "slice_reconf_forest"):
            op.update(div=rng.choice([2, 4]), step_size=rng.choice([2, 3]), max_repeats=rng.choice([1, 4]),
                      reconf_size=rng.choice([3, 4]), num_trees=2)
        elif k == "manual":
            op.update(size=rng.choice([2, 3, 4]), search=rng.choice(["bfs", "dfs", "random"]),
                      pick=rng.randrange(1 << 16))
        elif k == "sort":
            op.update(priority=rng.choice(["flops", "size", "root", "leaves"]),
                      out=rng.random() < 0.7, con=rng.random() < 0.7, reset=rng.random() < 0.6)
        elif k == "stats":
            op["which"] = rng.choice(["contract_stats", "total_flops", "total_write", "max_size",
                                      "peak_size", "force", "get_path", "combo", "has_pre"])
        hist.append(op)
    return hist


class Rejected(Exception):
    """the op does not apply in the current state (not an error of cotengra)"""


class Aborted(Exception):
    """a search-based public op raised from inside cotengra (e.g. the slice finder ran out of
    indices); the tree object may have been partially transformed in place and must still be
    a coherent tree -- the caller goes on checking it."""

    def __init__(self, kind, tree):
        super().__init__(kind)
        self.kind = kind
        self.tree = tree


SEARCH_OPS = ("slice_auto", "slice_reconf", "slice_reconf_forest", "anneal_slice", "temper", "unslice_rand")


def apply_op(tree, net, op):
    # some public operations draw from the process-global generators (C17 finding 7l); pin them per
    # op so that a history replays exactly
    import random as _random

    import numpy as _np
    _random.seed(op["seed"])
    _np.random.seed(op["seed"] % (2 ** 32))
    try:
        return _apply_op(tree, net, op)
    except Rejected:
        raise
    except (RuntimeError, KeyError, ValueError, IndexError, ZeroDivisionError) as e:
        if op["k"] in SEARCH_OPS:
            raise Aborted(type(e).__name__ + ":" + str(e)[:40], tree)
        raise


def _apply_op(tree, net, op):
    """Apply one op to the real tree. Returns (tree', primitives) where primitives is a list of
    primitive ops for the Lean machine when the op is a pure word of primitives, else None."""
    import random
    k = op["k"]
    rng = random.Random(op["seed"])
    S = gen.sym
    if k in ("slice", "project"):
        ix = S(op["ix"])
        if ix in tree.sliced_inds:
            raise Rejected("already sliced")
        if k == "slice":
            tree.remove_ind_(ix)
            return tree, [{"k": "remove_ind", "ix": op["ix"], "project": False}]
        tree.remove_ind_(ix, project=op["val"])
        return tree, [{"k": "remove_ind", "ix": op["ix"], "project": True}]
    if k == "nonplace_slice":
        ix = S(op["ix"])
        if ix in tree.sliced_inds:
            raise Rejected("already sliced")
        return tree.remove_ind(ix), [{"k": "remove_ind", "ix": op["ix"], "project": False}]
    if k == "restore":
        if not tree.sliced_inds:
            tree.remove_ind_(S(op["ix"]))
            return tree, [{"k": "remove_ind", "ix": op["ix"], "project": False}]
        keys = list(tree.sliced_inds)
        ix = keys[op["pick"] % len(keys)]
        tree.restore_ind_(ix)
        return tree, [{"k": "restore_ind", "ix": gen.unsym(net)[ix]}]
    if k == "unslice_rand":
        if not tree.sliced_inds:
            raise Rejected("nothing sliced")
        tree.unslice_rand_(seed=op["seed"])
        return tree, None
    if k == "unslice_all":
        tree.unslice_all_()
        return tree, None
    if k in ("reconf", "nonplace_reconf"):
        kw = dict(subtree_size=op["size"], subtree_search=op["search"], select=op["select"],
                  minimize=op["minimize"], maxiter=op["maxiter"], weight_what=op["weight_what"],
                  seed=op["seed"])
        if k == "reconf":
            tree.subtree_reconfigure_(**kw)
            return tree, None
        return tree.subtree_reconfigure(**kw), None
    if k == "forest":
        tree.subtree_reconfigure_forest_(num_trees=op["num_trees"], num_restarts=op["num_restarts"],
                                         subtree_maxiter=op["subtree_maxiter"],
                                         subtree_size=op["subtree_size"], minimize=op["minimize"],
                                         parallel=False, seed=op["seed"])
        return tree, None
    if k in ("anneal", "anneal_slice"):
        kw = dict(tsteps=op["tsteps"], numiter=op["numiter"], minimize=op["minimize"], seed=op["seed"])
        if k == "anneal_slice":
            kw["target_size"] = max(1, tree.max_size() // op["div"])
            kw["slice_mode"] = op["slice_mode"]
        tree.simulated_anneal_(**kw)
        return tree, None
    if k == "temper":
        kw = dict(tsteps=op["tsteps"], numiter=op["numiter"], num_trees=op["num_trees"],
                  slice_mode=op["slice_mode"], parallel_slice_mode=op["parallel_slice_mode"],
                  parallel=False, seed=op["seed"])
        if op["div"]:
            kw["target_size"] = max(1, tree.max_size() // op["div"])
        elif kw["parallel_slice_mode"] == "time":
            # parallel_slice_mode='time' without a target_size raises TypeError (next() on a tuple):
            # a crash on an option combination, outside C02/C04; recorded in DESIGN.md
            kw["parallel_slice_mode"] = "temperature"
        tree.parallel_temper_(**kw)
        return tree, None
    if k == "slice_auto":
        kw = dict(allow_outer=op["allow_outer"], reslice=op["reslice"], max_repeats=op["max_repeats"],
                  seed=op["seed"])
        if op["target"] == "size":
            kw["target_size"] = max(1, tree.max_size() // op["div"])
        elif op["target"] == "slices":
            kw["target_slices"] = op["nsl"]
        else:
            kw["target_overhead"] = op["ovh"]
        tree.slice_(**kw)
        return tree, None
    if k in ("slice_reconf", "slice_reconf_forest"):
        target = max(1, tree.max_size() // op["div"])
        ro = {"subtree_size": op["reconf_size"], "maxiter": 2}
        if True:
            if k == "slice_reconf":
                tree.slice_and_reconfigure_(target, step_size=op["step_size"],
                                            max_repeats=op["max_repeats"], reconf_opts=ro)
            else:
                tree.slice_and_reconfigure_forest_(target, step_size=op["step_size"],
                                                   num_trees=op["num_trees"],
                                                   max_repeats=op["max_repeats"], parallel=False,
                                                   reconf_opts=ro)
        return tree, None
    if k == "copy":
        return tree.copy(), []
    if k == "stats":
        w = op["which"]
        if w == "contract_stats":
            tree.contract_stats()
        elif w == "force":
            tree.contract_stats(force=True)
        elif w == "total_flops":
            tree.total_flops()
        elif w == "total_write":
            tree.total_write()
        elif w == "max_size":
            tree.max_size()
        elif w == "peak_size":
            tree.peak_size()
        elif w == "get_path":
            tree.get_path()
        elif w == "combo":
            tree.combo_cost()
        elif w == "has_pre":
            tree.has_preprocessing()
        return tree, []
    if k == "manual":
        # a hand-made subtree reconfiguration out of the primitives, along a random path
        internal = [p for p in tree.children]
        root = sorted(internal, key=lambda p: (len(p), sorted(p)))[op["pick"] % len(internal)]
        leaves, branches = tree.get_subtree(root, op["size"], search=op["search"], seed=op["seed"])
        if len(branches) < 1:
            raise Rejected("no branch")
        tree.contract_stats()
        prims = []
        for b in branches:
            tree._remove_node(b)
            prims.append({"k": "remove", "p": sorted(b)})
        pool = list(leaves)
        while len(pool) > 1:
            a = pool.pop(rng.randrange(len(pool)))
            b = pool.pop(rng.randrange(len(pool)))
            pool.append(tree.contract_nodes_pair(a, b))
            prims.append({"k": "contract", "x": sorted(a), "y": sorted(b)})
        tree.contraction_cores.clear()
        tree.already_optimized.clear()
        return tree, prims
    if k == "sort":
        tree.sort_contraction_indices(priority=op["priority"], make_output_contig=op["out"],
                                      make_contracted_contig=op["con"], reset=op["reset"])
        return tree, []
    if k == "reset":
        tree.reset_contraction_indices()
        return tree, []
    raise ValueError(k)


def dump(tree, net):
    """Raw state of the real tree WITHOUT calling any getter (so nothing gets cached)."""
    us = gen.unsym(net)

    def legs(d):
        return sorted([us[a], int(b)] for a, b in d.items())

    nodes = []
    for node, info in tree.info.items():
        row = {"p": sorted(node)}
        for f in ("legs", "involved"):
            if f in info:
                row[f] = legs(info[f])
        for f in ("size", "flops"):
            if f in info:
                row[f] = int(info[f])
        nodes.append(row)
    return {
        "children": [[sorted(p), sorted(l), sorted(r)] for p, (l, r) in tree.children.items()],
        "rm": [us[i] for i in tree.sliced_inds],
        "sliced": [us[i] for i, si in tree.sliced_inds.items() if si.project is None],
        "projected": [[us[i], si.project] for i, si in tree.sliced_inds.items() if si.project is not None],
        "mult": int(tree.multiplicity),
        "sliced_inputs": sorted(tree.sliced_inputs),
        "preprocessing": sorted(tree.preprocessing),
        "nodes": nodes,
        "track": [bool(tree._track_flops), bool(tree._track_write), bool(tree._track_size)],
        "_flops": int(tree._flops) if tree._track_flops else None,
        "_write": int(tree._write) if tree._track_write else None,
        "_sizes": sorted(int(x) for x in tree._sizes._c.elements()) if tree._track_size else None,
        "_max": (None if not tree._track_size else
                 (int(tree._sizes._max_element) if tree._sizes._c else None)),
        "complete": bool(tree.is_complete()),
    }
