"""History engine shared by C02 and C04: random words over the public tree transformations and
over the primitive mutators, applied to a real ContractionTree; raw dumps of the real state.

Every op is a JSON dict carrying all its parameters and seeds, so a history replays exactly.
"""

import warnings

import cotengra as ctg

from . import gen

warnings.filterwarnings("ignore")

PUBLIC_OPS = (
    "slice", "slice", "project", "restore", "unslice_rand", "unslice_all",
    "reconf", "reconf", "forest", "anneal", "anneal", "anneal_slice", "temper",
    "slice_auto", "slice_reconf", "slice_reconf_forest", "copy", "stats", "stats",
    "manual", "sort", "reset", "nonplace_slice", "nonplace_reconf",
    "nonplace_restore", "nonplace_unslice", "nonplace_anneal", "nonplace_slice_auto",
    "refused", "refused",
)


def gen_history(rng, net, length, ops=PUBLIC_OPS, allow=None):
    """A random word of ops (parameters drawn now, validity decided at application time)."""
    inds = net.indices()
    hist = []
    for _ in range(length):
        k = rng.choice(ops)
        if allow is not None and k not in allow:
            continue
        op = {"k": k, "seed": rng.randrange(1 << 30)}
        if k in ("slice", "project", "nonplace_slice"):
            op["ix"] = rng.choice(inds)
            if k == "project":
                op["val"] = rng.randrange(net.sizes[op["ix"]])
        elif k == "refused":
            op["pick"] = rng.randrange(1 << 16)
            op["what"] = rng.choice(["slice-again", "slice-again", "project-again", "restore-unsliced", "slice-unknown"])
            op["ix"] = rng.choice(inds)
        elif k in ("restore", "nonplace_restore"):
            op["pick"] = rng.randrange(1 << 16)
            op["ix"] = rng.choice(inds)  # fallback: slice this one when nothing is sliced yet
        elif k in ("reconf", "nonplace_reconf"):
            op.update(size=rng.choice([2, 3, 4, 6]), search=rng.choice(["bfs", "dfs", "random"]),
                      select=rng.choice(["max", "min", "random"]),
                      minimize=rng.choice(["flops", "size", "write", "combo", "limit"]),
                      maxiter=rng.choice([1, 2, 5]), weight_what=rng.choice(["flops", "size"]),
                      weight_pwr=rng.choice([2, 2, 1, 0.5, 3]),
                      optimize=rng.choice([None, None, "greedy", "optimal"]))
        elif k == "forest":
            op.update(num_trees=rng.choice([2, 3]), num_restarts=rng.choice([1, 2]),
                      subtree_maxiter=rng.choice([1, 3]), subtree_size=rng.choice([3, 4]),
                      minimize=rng.choice(["flops", "size", "combo"]),
                      subtree_search=rng.choice([["bfs", "dfs", "random"], ["bfs"], ["dfs"], ["random"]]),
                      subtree_weight_what=rng.choice([["flops", "size"], ["flops"], ["size"]]),
                      parallel_maxiter_steps=rng.choice([4, 1, 2]))
        elif k in ("anneal", "anneal_slice", "nonplace_anneal"):
            op.update(tsteps=rng.choice([1, 2]), numiter=rng.choice([1, 2, 4]),
                      minimize=rng.choice(["flops", "size", "combo", None]),
                      tstart=rng.choice([2, 2, 0.5, 10.0]), tfinal=rng.choice([0.05, 0.05, 0.001, 1.0]))
            if k == "anneal_slice":
                op.update(div=rng.choice([2, 4, 8]), slice_mode=rng.choice(["basic", "reslice", "drift", 2]))
        elif k == "temper":
            op.update(tsteps=rng.choice([1, 2]), numiter=rng.choice([1, 2]), num_trees=rng.choice([2, 3]),
                      div=rng.choice([None, 2, 4]), slice_mode=rng.choice(["basic", "reslice", "drift"]),
                      parallel_slice_mode=rng.choice(["temperature", "time", "constant"]),
                      tstart=rng.choice([1, 1, 0.3, 5.0]), tfinal=rng.choice([0.01, 0.01, 0.5]),
                      swappiness=rng.choice([1.0, 1.0, 0.1, 10.0]),
                      coeff_size_penalty=rng.choice([1.0, 1.0, 0.0, 8.0]),
                      minimize=rng.choice([None, None, "flops", "size", "combo"]),
                      init_frac=rng.choice([None, None, 2, 8]))
        elif k in ("slice_auto", "nonplace_slice_auto"):
            op.update(target=rng.choice(["size", "slices", "overhead"]), div=rng.choice([2, 4]),
                      nsl=rng.choice([2, 3, 4]), ovh=rng.choice([1.1, 2.0, 4.0]),
                      allow_outer=rng.choice([True, True, False, "only"]), reslice=rng.random() < 0.2,
                      max_repeats=rng.choice([1, 4]), minimize=rng.choice([None, None, "size", "write", "combo"]),
                      temperature=rng.choice([0.01, 0.01, 1.0]))
        elif k in ("slice_reconf", "slice_reconf_forest"):
            op.update(div=rng.choice([2, 4]), step_size=rng.choice([2, 3]), max_repeats=rng.choice([1, 4]),
                      reconf_size=rng.choice([3, 4]), num_trees=2,
                      reslice=rng.random() < 0.25, allow_outer=rng.choice([True, True, False]),
                      minimize=rng.choice([None, None, "flops", "size", "combo"]),
                      temperature=rng.choice([0.01, 0.01, 1.0]))
        elif k == "manual":
            op.update(size=rng.choice([2, 3, 4]), search=rng.choice(["bfs", "dfs", "random"]),
                      pick=rng.randrange(1 << 16))
        elif k == "sort":
            op.update(priority=rng.choice(["flops", "size", "root", "leaves"]),
                      out=rng.random() < 0.7, con=rng.random() < 0.7, reset=rng.random() < 0.6)
        elif k == "stats":
            op["which"] = rng.choice(["contract_stats", "total_flops", "total_write", "max_size",
                                      "peak_size", "force", "get_path", "combo", "has_pre",
                                      "logs", "peak_order", "total_cost", "arithmetic_intensity",
                                      "recipes", "recipes"])
        hist.append(op)
    return hist


class Rejected(Exception):
    """the op does not apply in the current state (not an error of cotengra)"""


class Aborted(Exception):
    """a search-based public op raised from inside cotengra (e.g. the slice finder ran out of
    indices); the tree object may have been partially transformed in place and must still be
    a coherent tree -- the caller goes on checking it."""

    def __init__(self, kind, tree):
        super().__init__(kind)
        self.kind = kind
        self.tree = tree


SEARCH_OPS = ("slice_auto", "nonplace_slice_auto", "slice_reconf", "slice_reconf_forest", "anneal_slice", "temper",
              "unslice_rand")


def _inner_optimizer(name):
    """`subtree_reconfigure(optimize=...)` takes an optimizer *object* (it assigns `opt.cost_cap`)"""
    if name is None:
        return None
    from cotengra.pathfinders.path_basic import GreedyOptimizer, OptimalOptimizer
    return GreedyOptimizer() if name == "greedy" else OptimalOptimizer(minimize="size")


def apply_op(tree, net, op):
    # some public operations draw from the process-global generators (C17 finding 7l); pin them per
    # op so that a history replays exactly
    import random as _random

    import numpy as _np
    _random.seed(op["seed"])
    _np.random.seed(op["seed"] % (2 ** 32))
    try:
        return _apply_op(tree, net, op)
    except Rejected:
        raise
    except (RuntimeError, KeyError, ValueError, IndexError, ZeroDivisionError) as e:
        if op["k"] in SEARCH_OPS:
            raise Aborted(type(e).__name__ + ":" + str(e)[:40], tree)
        raise


def _apply_op(tree, net, op):
    """Apply one op to the real tree. Returns (tree', primitives) where primitives is a list of
    primitive ops for the Lean machine when the op is a pure word of primitives, else None."""
    import random
    k = op["k"]
    rng = random.Random(op["seed"])
    S = gen.sym
    if k in ("slice", "project"):
        ix = S(op["ix"])
        if ix in tree.sliced_inds:
            raise Rejected("already sliced")
        if k == "slice":
            tree.remove_ind_(ix)
            return tree, [{"k": "remove_ind", "ix": op["ix"], "project": False}]
        tree.remove_ind_(ix, project=op["val"])
        return tree, [{"k": "remove_ind", "ix": op["ix"], "project": True}]
    if k == "nonplace_slice":
        ix = S(op["ix"])
        if ix in tree.sliced_inds:
            raise Rejected("already sliced")
        return tree.remove_ind(ix), [{"k": "remove_ind", "ix": op["ix"], "project": False}]
    if k == "refused":
        # a request the tree must refuse (ValueError / KeyError) -- and which must leave it exactly as it was:
        # the caller catches the exception and keeps using the same object
        w = op["what"]
        keys = list(tree.sliced_inds)
        try:
            if w in ("slice-again", "project-again"):
                if not keys:
                    raise Rejected("nothing sliced")
                ix = keys[op["pick"] % len(keys)]
                if w == "slice-again":
                    tree.remove_ind_(ix)
                else:
                    tree.remove_ind_(ix, project=0)
            elif w == "restore-unsliced":
                ix = S(op["ix"])
                if ix in tree.sliced_inds:
                    raise Rejected("is sliced")
                tree.restore_ind_(ix)
            else:
                tree.remove_ind_("no-such-index-%d" % op["pick"])
        except Rejected:
            raise
        except (ValueError, KeyError):
            return tree, []
        raise ValueError("request %s was not refused" % w)
    if k == "nonplace_restore":
        if not tree.sliced_inds:
            raise Rejected("nothing sliced")
        keys = list(tree.sliced_inds)
        ix = keys[op["pick"] % len(keys)]
        return tree.restore_ind(ix), [{"k": "restore_ind", "ix": gen.unsym(net)[ix]}]
    if k == "nonplace_unslice":
        return tree.unslice_all(), None
    if k == "restore":
        if not tree.sliced_inds:
            tree.remove_ind_(S(op["ix"]))
            return tree, [{"k": "remove_ind", "ix": op["ix"], "project": False}]
        keys = list(tree.sliced_inds)
        ix = keys[op["pick"] % len(keys)]
        tree.restore_ind_(ix)
        return tree, [{"k": "restore_ind", "ix": gen.unsym(net)[ix]}]
    if k == "unslice_rand":
        if not tree.sliced_inds:
            raise Rejected("nothing sliced")
        tree.unslice_rand_(seed=op["seed"])
        return tree, None
    if k == "unslice_all":
        tree.unslice_all_()
        return tree, None
    if k in ("reconf", "nonplace_reconf"):
        kw = dict(subtree_size=op["size"], subtree_search=op["search"], select=op["select"],
                  minimize=op["minimize"], maxiter=op["maxiter"], weight_what=op["weight_what"],
                  seed=op["seed"], weight_pwr=op.get("weight_pwr", 2), optimize=_inner_optimizer(op.get("optimize")))
        if k == "reconf":
            tree.subtree_reconfigure_(**kw)
            return tree, None
        return tree.subtree_reconfigure(**kw), None
    if k == "forest":
        tree.subtree_reconfigure_forest_(num_trees=op["num_trees"], num_restarts=op["num_restarts"],
                                         subtree_maxiter=op["subtree_maxiter"],
                                         subtree_size=op["subtree_size"], minimize=op["minimize"],
                                         subtree_search=tuple(op.get("subtree_search", ("bfs", "dfs", "random"))),
                                         subtree_weight_what=tuple(op.get("subtree_weight_what", ("flops", "size"))),
                                         parallel_maxiter_steps=op.get("parallel_maxiter_steps", 4),
                                         parallel=False, seed=op["seed"])
        return tree, None
    if k in ("anneal", "anneal_slice", "nonplace_anneal"):
        kw = dict(tsteps=op["tsteps"], numiter=op["numiter"], minimize=op["minimize"], seed=op["seed"],
                  tstart=op.get("tstart", 2), tfinal=op.get("tfinal", 0.05))
        if k == "anneal_slice":
            kw["target_size"] = max(1, tree.max_size() // op["div"])
            kw["slice_mode"] = op["slice_mode"]
        if k == "nonplace_anneal":
            return tree.simulated_anneal(**kw), None
        tree.simulated_anneal_(**kw)
        return tree, None
    if k == "temper":
        kw = dict(tsteps=op["tsteps"], numiter=op["numiter"], num_trees=op["num_trees"],
                  slice_mode=op["slice_mode"], parallel_slice_mode=op["parallel_slice_mode"],
                  parallel=False, seed=op["seed"])
        kw.update(tstart=op.get("tstart", 1), tfinal=op.get("tfinal", 0.01), swappiness=op.get("swappiness", 1.0),
                  coeff_size_penalty=op.get("coeff_size_penalty", 1.0), minimize=op.get("minimize"))
        if op["div"]:
            kw["target_size"] = max(1, tree.max_size() // op["div"])
            if op.get("init_frac"):
                kw["target_size_initial"] = max(kw["target_size"], tree.max_size() // 1) * op["init_frac"]
        elif kw["parallel_slice_mode"] == "time":
            # parallel_slice_mode='time' without a target_size raises TypeError (next() on a tuple):
            # a crash on an option combination, outside C02/C04; recorded in DESIGN.md
            kw["parallel_slice_mode"] = "temperature"
        tree.parallel_temper_(**kw)
        return tree, None
    if k in ("slice_auto", "nonplace_slice_auto"):
        kw = dict(allow_outer=op["allow_outer"], reslice=op["reslice"], max_repeats=op["max_repeats"],
                  seed=op["seed"], temperature=op.get("temperature", 0.01))
        if op.get("minimize") is not None:
            kw["minimize"] = op["minimize"]
        if op["target"] == "size":
            kw["target_size"] = max(1, tree.max_size() // op["div"])
        elif op["target"] == "slices":
            kw["target_slices"] = op["nsl"]
        else:
            kw["target_overhead"] = op["ovh"]
        if k == "nonplace_slice_auto":
            return tree.slice(**kw), None
        tree.slice_(**kw)
        return tree, None
    if k in ("slice_reconf", "slice_reconf_forest"):
        target = max(1, tree.max_size() // op["div"])
        ro = {"subtree_size": op["reconf_size"], "maxiter": 2}
        extra = dict(reslice=op.get("reslice", False), allow_outer=op.get("allow_outer", True),
                     minimize=op.get("minimize"), temperature=op.get("temperature", 0.01))
        if True:
            if k == "slice_reconf":
                tree.slice_and_reconfigure_(target, step_size=op["step_size"],
                                            max_repeats=op["max_repeats"], reconf_opts=ro, **extra)
            else:
                tree.slice_and_reconfigure_forest_(target, step_size=op["step_size"],
                                                   num_trees=op["num_trees"],
                                                   max_repeats=op["max_repeats"], parallel=False,
                                                   reconf_opts=ro, **extra)
        return tree, None
    if k == "copy":
        return tree.copy(), []
    if k == "stats":
        w = op["which"]
        if w == "contract_stats":
            tree.contract_stats()
        elif w == "force":
            tree.contract_stats(force=True)
        elif w == "total_flops":
            tree.total_flops()
        elif w == "total_write":
            tree.total_write()
        elif w == "max_size":
            tree.max_size()
        elif w == "peak_size":
            tree.peak_size()
        elif w == "get_path":
            tree.get_path()
        elif w == "combo":
            tree.combo_cost()
        elif w == "has_pre":
            tree.has_preprocessing()
        elif w == "logs":
            tree.total_flops(log=10)
            tree.total_write()
            tree.max_size(log=2)
            tree.total_flops(dtype="float")
        elif w == "peak_order":
            rr = random.Random(op["seed"])
            sc = {}
            tree.peak_size(order=lambda nd: sc.setdefault(nd, rr.random()), log=2)
        elif w == "total_cost":
            tree.total_cost(factor=rng.choice([1, 64, 256]))
        elif w == "arithmetic_intensity":
            tree.arithmetic_intensity()
        elif w == "recipes":
            # what print_contractions() / a direct make_contractor do: fill the per-node contraction recipes
            # through the getters, without compiling (and caching) a contractor
            for p_, l_, r_ in tree.traverse():
                tree.get_inds(p_)
                if tree.get_can_dot(p_):
                    tree.get_tensordot_axes(p_)
                    tree.get_tensordot_perm(p_)
                else:
                    tree.get_einsum_eq(p_)
        return tree, []
    if k == "manual":
        # a hand-made subtree reconfiguration out of the primitives, along a random path
        internal = [p for p in tree.children]
        root = sorted(internal, key=lambda p: (len(p), sorted(p)))[op["pick"] % len(internal)]
        leaves, branches = tree.get_subtree(root, op["size"], search=op["search"], seed=op["seed"])
        if len(branches) < 1:
            raise Rejected("no branch")
        tree.contract_stats()
        prims = []
        for b in branches:
            tree._remove_node(b)
            prims.append({"k": "remove", "p": sorted(b)})
        pool = list(leaves)
        while len(pool) > 1:
            a = pool.pop(rng.randrange(len(pool)))
            b = pool.pop(rng.randrange(len(pool)))
            pool.append(tree.contract_nodes_pair(a, b))
            prims.append({"k": "contract", "x": sorted(a), "y": sorted(b)})
        tree.contraction_cores.clear()
        tree.already_optimized.clear()
        return tree, prims
    if k == "sort":
        tree.sort_contraction_indices(priority=op["priority"], make_output_contig=op["out"],
                                      make_contracted_contig=op["con"], reset=op["reset"])
        return tree, []
    if k == "reset":
        tree.reset_contraction_indices()
        return tree, []
    raise ValueError(k)


def dump(tree, net):
    """Raw state of the real tree WITHOUT calling any getter (so nothing gets cached)."""
    us = gen.unsym(net)

    def legs(d):
        return sorted([us[a], int(b)] for a, b in d.items())

    nodes = []
    for node, info in tree.info.items():
        row = {"p": sorted(node)}
        for f in ("legs", "involved"):
            if f in info:
                row[f] = legs(info[f])
        for f in ("size", "flops"):
            if f in info:
                row[f] = int(info[f])
        nodes.append(row)
    return {
        "children": [[sorted(p), sorted(l), sorted(r)] for p, (l, r) in tree.children.items()],
        "rm": [us[i] for i in tree.sliced_inds],
        "sliced": [us[i] for i, si in tree.sliced_inds.items() if si.project is None],
        "projected": [[us[i], si.project] for i, si in tree.sliced_inds.items() if si.project is not None],
        "mult": int(tree.multiplicity),
        "sliced_inputs": sorted(tree.sliced_inputs),
        "preprocessing": sorted(tree.preprocessing),
        "nodes": nodes,
        "track": [bool(tree._track_flops), bool(tree._track_write), bool(tree._track_size)],
        "_flops": int(tree._flops) if tree._track_flops else None,
        "_write": int(tree._write) if tree._track_write else None,
        "_sizes": sorted(int(x) for x in tree._sizes._c.elements()) if tree._track_size else None,
        "_max": (None if not tree._track_size else
                 (int(tree._sizes._max_element) if tree._sizes._c else None)),
        "complete": bool(tree.is_complete()),
    }
