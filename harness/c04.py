"""C04 -- incrementally tracked costs equal a from-scratch rebuild after any history.

Tie, after every prefix of a random history over the public tree transformations and the
primitive mutators (harness/treehist.py):
  (A) `Tracked`/coherence of the Lean machine evaluated on the raw dump of the real tree: every
      cached legs/involved/size/flops of every node, the tracked _flops/_write/_sizes, multiplicity,
      sliced_inputs and preprocessing equal the from-scratch values the model computes for the dumped
      structure (`c04.scratch`); which fields are cached is not compared.
  (E) for steps that are words of primitives (remove_ind, restore_ind, _remove_node,
      contract_nodes_pair) the Lean step functions `TS.step` replay the word and must land on the
      same structure and totals (`c04.run`).
Oracle (implementation only): a fresh tree from (get_path(), sliced/projected indices) and the
leaf-set definition from the network alone.
"""

import json
import os

import cotengra as ctg

from . import common, gen, refimpl, treehist

PROP = "C04"
LEVEL = "proof"
LEVEL_TEXT = ("Lean 4 theorems about the tree state machine Model/TreeState.lean (structure, removed indices, "
              "multiplicity, tracked _flops/_write/_sizes with the delta edits of remove_ind/restore_ind/"
              "_remove_node/contract_nodes_pair): every primitive preserves `Tracked` (tracked totals = from-scratch "
              "sums over the current structure), hence every reachable state does (reachable_tracked), totals of a "
              "complete state equal those of the tree rebuilt from scratch (stats_eq_rebuild via C03), slice-then-"
              "unslice restores the figures, MaxCounter keeps the true maximum. The machine is tied to /repo on every "
              "run: its invariants are evaluated on raw dumps of the real tree after every step of random histories "
              "over all public transformations, and its step functions replay real primitive words.")
LEVEL_NOTE = ("Trusted: Lean kernel; hand-written model (per-node caches are abstracted to from-scratch values; their "
              "coherence in the real tree is checked on the dumps, not proved); compound operations (reconfigure, "
              "anneal, forests, slice search) are words of primitives chosen by oracles; pools run with parallel=False.")
TECHNIQUE = "Lean 4 invariant proof over a state machine + invariant evaluation on real state dumps + step replay"
LEAN_MODULES = ["CotengraVerif.Props.C04", "CotengraVerif.Props.C04Cache"]
THEOREMS = [
    "Cotengra.C04.tracked_init",
    "Cotengra.C04.tracked_contractPair",
    "Cotengra.C04.tracked_removeNode",
    "Cotengra.C04.tracked_removeInd",
    "Cotengra.C04.tracked_restoreInd",
    "Cotengra.C04.reachable_tracked",
    "Cotengra.C04.tracked_determined",
    "Cotengra.C04.slice_unslice_id",
    "Cotengra.C04.maxcounter_inv",
    "Cotengra.C04.getLegs_ok",
    "Cotengra.C04.getInvolved_ok",
    "Cotengra.C04.getSize_ok",
    "Cotengra.C04.getFlops_ok",
    "Cotengra.C04.removeInd_entry_ok",
]
TRUSTED = [
    "Lean 4.33 kernel; axioms ⊆ {propext, Classical.choice, Quot.sound}",
    "Model/TreeState.lean abstracts per-node caches to from-scratch values; coherence of the real caches is "
    "checked on dumps of the real tree after every step, not proved",
    "harness/treehist.py applies the public operations with parallel=False (no pools)",
]
ASSUMPTIONS = ["sizes >= 1; output indices occur in some input; N >= 2",
               "optimizers / PRNG inside compound operations are oracles (any valid choice)"]
RULE = ("random networks x random initial trees (random track_* flags) x random histories over "
        + ",".join(sorted(set(treehist.PUBLIC_OPS))) +
        "; one case = one (history prefix); non-trivial = the prefix contains a structure- or slice-changing op; "
        "distinct by content hash of (net, tree, prefix)")
BUDGET = {"quick": 900, "thorough": 3600}


def _rows_by_p(rows):
    return {tuple(r["p"]): r for r in rows}


def coherent(ctx, drv, net, d):
    """(A): the Lean machine's invariants evaluated on the raw dump. Returns list of mismatches."""
    resp = drv.call("c04.scratch", net=net.json(), children=d["children"], rm=d["rm"], sliced=d["sliced"])
    if "error" in resp:
        return [("driver", resp["error"])], resp
    bad = []
    internal = _rows_by_p(resp["nodes"])
    leaves = _rows_by_p(resp["leaves"])
    n = len(net.inputs)
    for row in d["nodes"]:
        p = tuple(row["p"])
        if len(p) == 1 and n > 1:
            m = leaves[p]
            if "legs" in row and sorted(row["legs"]) != sorted(m["legs"]):
                bad.append(("leaf-legs", row, m))
            if "size" in row and row["size"] != m["size"]:
                bad.append(("leaf-size", row, m))
            has_legs = "legs" in row
            if has_legs and (p[0] in d["preprocessing"]) != m["pre"]:
                bad.append(("preprocessing", row, m))
            if not has_legs and p[0] in d["preprocessing"]:
                bad.append(("stale-preprocessing", row, m))
            continue
        m = internal.get(p)
        if m is None:
            # childless intermediate (incomplete tree) or cleared root: nothing cached may be wrong
            # -- only legs/size can be cached; they depend on the leaf set alone
            continue
        if "legs" in row and [a for a, _ in sorted(row["legs"])] != [a for a, _ in sorted(m["legs"])]:
            bad.append(("legs", row, m))
        elif "legs" in row and len(p) != n and sorted(row["legs"]) != sorted(m["legs"]):
            bad.append(("legs-counts", row, m))
        if "involved" in row and sorted(row["involved"]) != sorted(m["involved"]):
            bad.append(("involved", row, m))
        if "size" in row and row["size"] != m["size"]:
            bad.append(("size", row, m))
        if "flops" in row and row["flops"] != m["flops"]:
            bad.append(("flops", row, m))
    if d["mult"] != resp["mult"]:
        bad.append(("multiplicity", d["mult"], resp["mult"]))
    want_sl = sorted(i for i, t in enumerate(net.inputs) if any(ix in d["rm"] for ix in t))
    if d["sliced_inputs"] != want_sl:
        bad.append(("sliced_inputs", d["sliced_inputs"], want_sl))
    if d["complete"]:
        mult = resp["mult"]
        if d["track"][0] and d["_flops"] * mult != resp["flops"]:
            bad.append(("_flops", d["_flops"], resp["flops"] // max(mult, 1)))
        if d["track"][1] and d["_write"] * mult != resp["write"]:
            bad.append(("_write", d["_write"], resp["write"] // max(mult, 1)))
        if d["track"][2]:
            want = sorted(r["size"] for r in resp["nodes"])
            if d["_sizes"] != want:
                bad.append(("_sizes", d["_sizes"], want))
            elif d["_sizes"] and d["_max"] != max(d["_sizes"]):
                bad.append(("_sizes.max", d["_max"], max(d["_sizes"])))
    return bad, resp


def figures(tree, net):
    """All reported figures of a tree through its public getters (on a copy)."""
    t = tree.copy()
    us = gen.unsym(net)
    rows = {}
    for node in t.info:
        if len(node) == 1 and t.N > 1:
            rows[tuple(sorted(node))] = {"legs": sorted(us[a] for a in t.get_legs(node)),
                                         "size": int(t.get_size(node))}
        elif node in t.children:
            rows[tuple(sorted(node))] = {
                "legs": sorted(us[a] for a in t.get_legs(node)),
                "involved": sorted([us[a], int(b)] for a, b in t.get_involved(node).items()),
                "size": int(t.get_size(node)), "flops": int(t.get_flops(node))}
    st = t.contract_stats()
    return {"rows": rows, "flops": int(st["flops"]), "write": int(st["write"]), "size": int(st["size"]),
            "mult": int(t.multiplicity), "total_flops": int(t.total_flops()),
            "total_write": int(t.total_write()), "max_size": int(t.max_size()),
            "sliced_inputs": sorted(t.sliced_inputs),
            "pre": sorted(i for i in range(t.N) if (t.get_legs(frozenset([i])) is not None) and i in t.preprocessing)}


def rebuild(tree, net):
    """The property's reference: a fresh tree with the same contraction order and removed indices."""
    tc = tree.copy()
    path = tc.get_path()
    t2 = ctg.ContractionTree.from_path(net.sym_inputs(), net.sym_output(), net.sym_sizes(), path=path)
    for ix, si in tree.sliced_inds.items():
        if si.project is None:
            t2.remove_ind_(ix)
        else:
            t2.remove_ind_(ix, project=si.project)
    return t2


def oracle(tree, net):
    """None if the live tree reports what a rebuilt tree reports, else a description."""
    live = figures(tree, net)
    ref = figures(rebuild(tree, net), net)
    for k in ("flops", "write", "size", "mult", "total_flops", "total_write", "max_size", "sliced_inputs", "pre"):
        if live[k] != ref[k]:
            return {"field": k, "live": live[k], "rebuilt": ref[k]}
    if set(live["rows"]) != set(ref["rows"]):
        return {"field": "node-set"}
    for p, r in live["rows"].items():
        if r != ref["rows"][p]:
            return {"field": "node", "p": list(p), "live": r, "rebuilt": ref["rows"][p]}
    return None


def make_case(rng, tier):
    nmax = 7 if tier == "quick" else 9
    net = gen.rand_net(rng, nmin=3, nmax=nmax, max_inds=9, dims=(1, 2, 2, 3, 4),
                       kinds=("bond", "bond", "hyper", "dangling", "out1", "outk", "all", "repeated", "batch"))
    tree = gen.rand_tree(rng, len(net.inputs))
    L = rng.randint(1, 8 if tier == "quick" else 20)
    hist = treehist.gen_history(rng, net, L)
    track = [rng.random() < 0.3 for _ in range(3)]
    return {"net": net.json(), "tree": tree, "track": track, "history": hist,
            "alphabet": rng.choice(gen.ALPHABETS)}


def build(case):
    gen.set_alphabet(case.get("alphabet", "ascii"), len(case.get("history", [])))
    net = gen.Net.from_json(case["net"])
    tr = case.get("track", [False] * 3)
    tree = gen.real_tree(ctg, net, case["tree"], track_flops=tr[0], track_write=tr[1], track_size=tr[2])
    return net, tree


def signature_of(hist_prefix, what):
    kinds = [o["k"] for o in hist_prefix]
    return {"site": "tree-history", "last_op": kinds[-1] if kinds else "init",
            "after_anneal": any(k.startswith("anneal") or k == "temper" for k in kinds[:-1]),
            "field": what}


def run_case(ctx, drv, case, check_model=True):
    """Returns True if the implementation held the property on this case."""
    net, tree = build(case)
    n = len(net.inputs)
    prefix = []
    others = []  # (tree kept aside after a copy/non-inplace op, figures at that time)
    STRUCT = {"slice", "project", "restore", "unslice_rand", "unslice_all", "reconf", "forest", "anneal",
              "anneal_slice", "temper", "slice_auto", "slice_reconf", "slice_reconf_forest", "manual",
              "nonplace_slice", "nonplace_reconf"}
    for op in [None] + case["history"]:
        before_bt = None
        before_rm = None
        prims = None
        if op is not None:
            if tree.is_complete():
                before_bt = gen.bt_of_real(tree)
                us = gen.unsym(net)
                before_rm = [{"k": "remove_ind", "ix": us[i], "project": si.project is not None}
                             for i, si in tree.sliced_inds.items()]
            try:
                old = tree
                tree, prims = treehist.apply_op(tree, net, op)
                if tree is not old:
                    others.append((old, figures(old, net)))
                ctx.count("op:" + op["k"])
            except treehist.Rejected as e:
                ctx.count("rejected:" + op["k"])
                continue
            except treehist.Aborted as e:
                # the public op raised from inside cotengra; the tree must still be coherent
                ctx.count("aborted:" + op["k"] + ":" + e.kind.split(":")[0])
                tree, prims = e.tree, None
            except Exception as e:
                # a transformation that never raises on the unchanged tree raised
                ctx.violation({"site": "tree-history", "last_op": op["k"], "field": "raised:" + type(e).__name__},
                              {"case": {**case, "history": prefix + [op]}, "error": repr(e)[:300]},
                              f"{op['k']} raised {type(e).__name__} after {[o['k'] for o in prefix]}")
                return False
            prefix.append(op)
        d = treehist.dump(tree, net)
        for i, t in enumerate(d["track"]):
            ctx.count(("tracked:" if t else "untracked:") + ("flops", "write", "size")[i])
        ctx.case({"net": case["net"], "tree": case["tree"], "prefix": prefix},
                 nontrivial=any(o["k"] in STRUCT for o in prefix), sample=len(prefix) >= 2)

        # --- implementation-side oracle --------------------------------------------------
        try:
            bad = oracle(tree, net)
        except Exception as e:
            bad = {"field": "raised:" + type(e).__name__, "error": repr(e)[:300]}
        if bad is None:
            # earlier trees kept aside must be unaffected by what happened to their copies
            for old, fig in others:
                if figures(old, net) != fig:
                    bad = {"field": "copy-independence"}
        if bad is not None:
            ctx.violation(signature_of(prefix, bad["field"]),
                          {"case": {**case, "history": list(prefix)}, "mismatch": bad},
                          f"after {[o['k'] for o in prefix]}: live tree and rebuilt tree differ on {bad['field']}")
            return False

        if not check_model:
            continue
        # --- (A) model invariants on the raw dump ------------------------------------------
        mism, resp = coherent(ctx, drv, net, d)
        ctx.traces += 1
        if mism:
            ctx.corr_broken(f"raw state of the real tree is not coherent with the model: {mism[0][0]}",
                            {"case": {**case, "history": list(prefix)}, "first": str(mism[0])[:400]})
        # --- (E) the Lean step functions replay primitive words ---------------------------
        if op is not None and prims and before_bt is not None and n > 1:
            r = drv.call("c04.run", net=case["net"], tree=before_bt, ops=before_rm + prims)
            ctx.count("model-step-replays")
            if "error" in r:
                ctx.corr_broken("driver error " + r["error"], None)
            else:
                st = r["steps"][-1]["state"] if r["steps"] else r["init"]
                live = figures(tree, net)
                same = (sorted(map(json.dumps, st["children"])) == sorted(map(json.dumps, d["children"]))
                        and st["mult"] == d["mult"] and sorted(st["rm"]) == sorted(d["rm"]))
                if d["complete"]:
                    same = same and [st["flops"], st["write"], st["size"]] == \
                        [live["flops"], live["write"], live["size"]]
                if not same or not all(s["ok"] for s in r["steps"]):
                    ctx.corr_broken("Lean step functions and the real primitives land on different states",
                                    {"case": {**case, "history": list(prefix)}})
    return True


def replay_corpus(ctx, drv):
    cdir = os.path.join(common.VERIF, "corpus", PROP)
    if not os.path.isdir(cdir):
        return
    for fn in sorted(os.listdir(cdir)):
        obj = json.load(open(os.path.join(cdir, fn)))
        ctx.count("corpus")
        run_case(ctx, drv, obj.get("replay", obj)["case"])


def maxcounter_corr(ctx, drv, nseq):
    """(E) the Lean MaxCounter against cotengra.utils.MaxCounter on random op sequences."""
    from cotengra.utils import MaxCounter
    for _ in range(nseq):
        ops = []
        mcr = MaxCounter()
        real = []
        pool = [ctx.rng.randint(1, 6) for _ in range(4)]
        for _ in range(ctx.rng.randint(1, 14)):
            x = ctx.rng.choice(pool)
            k = "add" if ctx.rng.random() < 0.55 else "discard"
            ops.append([k, x])
        dead = False
        for k, x in ops:
            if not dead:
                try:
                    (mcr.add if k == "add" else mcr.discard)(x)
                except KeyError:
                    dead = True
            if dead:
                real.append("KeyError")
            else:
                mx = mcr.max()
                real.append({"max": None if mx == -float("inf") else int(mx),
                             "items": sorted([int(a), int(b)] for a, b in mcr._c.items())})
        r = drv.call("c04.mc", ops=ops)
        ctx.count("maxcounter_sequences")
        model = [o if o == "KeyError" else {"max": o["max"], "items": sorted(o["items"])} for o in r.get("outs", [])]
        ctx.case({"maxcounter_ops": ops}, nontrivial=len(ops) >= 3, sample=False)
        if model != real:
            # implementation-side oracle: the maximum of the surviving multiset
            ctx.corr_broken("Lean MaxCounter and utils.MaxCounter disagree", {"ops": ops, "real": real, "model": model})


def _subtrees(bt):
    if isinstance(bt, int):
        return [bt]
    return _subtrees(bt[0]) + _subtrees(bt[1]) + [bt]


def cache_corr(ctx, drv, ncases):
    """(E) the lazy-getter model (Model/CostCache.lean) against the real `info` dicts: the same sequence
    of getter calls on a fresh tree must cache the same fields with the same values; and the loop body
    of remove_ind on cached entries must produce the entries of the real tree after remove_ind_."""
    for _ in range(ncases):
        rng = ctx.rng
        net = gen.rand_net(rng, nmin=2, nmax=6, max_inds=7, dims=(1, 2, 3),
                           kinds=("bond", "hyper", "dangling", "out1", "outk", "all", "repeated", "batch"))
        tree = gen.real_tree(ctg, net, gen.rand_tree(rng, len(net.inputs)))
        bt = gen.bt_of_real(tree)
        subs = _subtrees(bt)
        us = gen.unsym(net)
        keyof = [frozenset(gen.tree_leaves(s)) for s in subs]
        calls = []
        for _ in range(rng.randint(1, 6)):
            i = rng.randrange(len(subs))
            kinds = ["legs", "size"] + (["involved", "flops"] if not isinstance(subs[i], int) else [])
            calls.append([rng.choice(kinds), i])
        for k, i in calls:
            getattr(tree, "get_" + k)(keyof[i])
        real = []
        for s, key in zip(subs, keyof):
            info = tree.info[key]
            row = {"p": gen.tree_leaves(s)}
            for f in ("legs", "involved"):
                row[f] = sorted([us[a], int(b)] for a, b in info[f].items()) if f in info else None
            for f in ("size", "flops"):
                row[f] = int(info[f]) if f in info else None
            real.append(row)
        r = drv.call("c04.cache", net=net.json(), rm=[], tree=bt, calls=calls)
        ctx.count("cache_getter_sequences")
        ctx.case({"getter_calls": calls, "net": net.json(), "tree": bt}, nontrivial=len(calls) >= 2, sample=False)
        if "error" in r:
            ctx.corr_broken("driver error " + r["error"], None)
            continue
        model = []
        for row in r["info"]:
            model.append({"p": row["p"], "legs": None if row["legs"] is None else sorted(row["legs"]),
                          "involved": None if row["involved"] is None else sorted(row["involved"]),
                          "size": row["size"], "flops": row["flops"]})
        if model != real:
            ctx.corr_broken("lazy getters: model and real tree cache different fields/values",
                            {"net": net.json(), "tree": bt, "calls": calls})
            continue
        # remove_ind on cached entries
        inds = net.indices()
        ix = rng.choice(inds)
        t2 = gen.real_tree(ctg, net, bt)
        t2.remove_ind_(gen.sym(ix))
        real2 = {}
        for p in t2.children:
            info = t2.info[p]
            real2[tuple(sorted(p))] = {"legs": sorted([us[a], int(b)] for a, b in info["legs"].items()),
                                       "involved": sorted([us[a], int(b)] for a, b in info["involved"].items()),
                                       "size": int(info["size"]), "flops": int(info["flops"])}
        r2 = drv.call("c04.remove_cached", net=net.json(), rm=[], ix=ix, tree=gen.bt_of_real(t2))
        ctx.count("cache_remove_ind")
        if "error" in r2:
            ctx.corr_broken("driver error " + r2["error"], None)
            continue
        model2 = {tuple(sorted(row["p"])): {"legs": sorted(row["legs"]), "involved": sorted(row["involved"]),
                                            "size": row["size"], "flops": row["flops"]} for row in r2["nodes"]}
        if model2 != real2:
            ctx.corr_broken("remove_ind on cached entries: model and real info differ",
                            {"net": net.json(), "tree": bt, "ix": ix})


def run(ctx, drv):
    replay_corpus(ctx, drv)
    cache_corr(ctx, drv, 200 if ctx.tier == "quick" else 3000)
    maxcounter_corr(ctx, drv, 300 if ctx.tier == "quick" else 3000)
    ncases = 500 if ctx.tier == "quick" else 8000
    for _ in range(ncases):
        if ctx.time_left() < 10:
            break
        run_case(ctx, drv, make_case(ctx.rng, ctx.tier))


def search(ctx):
    for _ in range(2000):
        if ctx.time_left() < 10:
            break
        case = make_case(ctx.rng, "thorough")
        if not run_case(ctx, None, case, check_model=False):
            return True
    return False


def replay(ctx, obj):
    class _Q:
        pass
    c2 = common.Ctx(PROP, "quick", 0)
    c2.violation = lambda *a, **k: True
    ok = run_case(c2, None, obj["case"], check_model=False)
    return ok
