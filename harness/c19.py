"""C19 -- exponent stripping preserves the value and survives extreme scales.

Proof side (Lean, Props/C19.lean): `strip_invariant` / `strip_root_exact(_real)` (the stripped loop
of Contractor.__call__ against the plain loop, for every program and input, whenever no
normalising factor is 0), `add_stripped_exact(_real)`, `sum_stripped_exact`,
`gather_stripped_exact`, `sliced_exact`, `magnitude_bound_*`, `nonzero_result_no_zero_factor`.

Tie (E): the compiled model (`c19.run`, `c19.gather`, the same definitions over exact rationals) is
fed the *real* program of the real tree (`extract_contractions`: keys, operands, result axes) and
the real (sliced) input arrays converted exactly; compared with what the real code returns slice
by slice (`contract_core(strip_exponent=True)`): status (finite / check_zero exit / nan), exponent
against log10 of the product of the model's factors, mantissa entry by entry; and for the whole
sliced contraction (`tree.contract`): common exponent and every stacked chunk.

Oracle (implementation only): `refimpl.dense_einsum` over exact Fractions of the float inputs;
the returned (mantissa, exponent) must be finite and satisfy, in the log domain,
|m_k 10^(e-L) - ref_k/R| <= 1e-9 refabs_k/R for every entry (R = max|ref|, L = log10 R, refabs =
the same einsum over |inputs|: a bound that is sound under cancellation), and
|log10|m| + e - L| <= 1e-6 with equal sign at the largest entry -- whenever the exact result is
non-zero (the property is silent otherwise).
"""

import json
import math
import os
import sys
import warnings
from fractions import Fraction

import numpy as np

import cotengra as ctg

from . import common, gen, refimpl

cmod = sys.modules["cotengra.contract"]

PROP = "C19"
LEVEL = "proof"
LEVEL_TEXT = ("Partial proof. Lean 4 theorems over any ordered field (stated over the reals in the log domain): "
              "for every program, size assignment and input the stripped contraction loop keeps "
              "10^exponent x mantissa equal to the plain result whenever no normalising factor is 0 (which, for "
              "an unsliced contraction, is implied by a non-zero result); adding (mantissa, exponent) pairs, "
              "reducing them over slices and rescaling chunks before stacking are exact; after every step "
              "max|p| = 1 and every entry a step forms is bounded by K max|l| max|r|. Floating point is not "
              "modelled: that mantissa and exponent stay finite and accurate in IEEE doubles for scales "
              "1e-100..1e100 is decided by a differential oracle against exact rational arithmetic on every run.")
LEVEL_NOTE = ("Trusted: Lean kernel; the hand-written model Model/Strip.lean of contract.py:766-803, core.py:135-161, "
              "3313-3348 (tied by the differential correspondence on the generated cases only); numpy "
              "einsum/tensordot/max/abs/log10 modelled by their real-number meaning; the harness's conversion of "
              "floats to exact rationals and its tolerances (1e-9 relative to the absolute-value reference; 1e-6 in "
              "the log domain).")
TECHNIQUE = ("Lean 4 proof (loop invariant with per-key scales and product accounting; multilinearity of every "
             "step) + differential correspondence of the exact-rational model with Contractor/gather_slices + "
             "exact Fraction oracle in the log domain")
LEAN_MODULES = ["CotengraVerif.Props.C19"]
THEOREMS = [
    "Cotengra.C19.strip_invariant",
    "Cotengra.C19.strip_root_exact",
    "Cotengra.C19.strip_root_exact_real",
    "Cotengra.C19.nonzero_result_no_zero_factor",
    "Cotengra.C19.check_zero_exit_sound",
    "Cotengra.C19.strip_exact_of_nonzero",
    "Cotengra.C19.strip_exact_of_nonzero_real",
    "Cotengra.C19.sliced_exact_check_zero",
    "Cotengra.C19.sliced_nan_counterexample",
    "Cotengra.C19.add_stripped_exact",
    "Cotengra.C19.add_stripped_exact_real",
    "Cotengra.C19.sum_stripped_exact",
    "Cotengra.C19.gather_stripped_exact",
    "Cotengra.C19.sliced_exact_partial",
    "Cotengra.C19.magnitude_bound_normalised",
    "Cotengra.C19.magnitude_bound_step",
    "Cotengra.C19.magnitude_bound_real",
]
TRUSTED = [
    "Lean 4.33 kernel; axioms ⊆ {propext, Classical.choice, Quot.sound}",
    "hand-written model Model/Strip.lean (Contractor.__call__ strip branch, add_maybe_exponent_stripped, "
    "stripped branch of gather_slices), tied by this differential correspondence on the generated cases only",
    "IEEE-754 arithmetic, `10 ** x`, numpy max/abs/log10/einsum/tensordot are replaced by their real-number "
    "meaning in the theorems; finiteness and accuracy in doubles are checked by the oracle, not proved",
    "harness: exact conversion of float inputs to Fractions, refimpl.dense_einsum, tolerances",
]
ASSUMPTIONS = [
    "numpy float64 arrays, implementation 'cotengra'/'autoray' einsum+tensordot; other backends, autojit and "
    "cuquantum not exercised",
    "per-tensor entries are small integers (powers of two and sums of them) times one decimal scale 10^s per "
    "tensor, s in [-100, 100]",
    "the property is silent when the exact result is zero (all entries)",
]
RULE = ("random networks (2-5 tensors, hyper / repeated / dangling / output-on-several / size-1 indices) x random "
        "trees x 0-3 sliced indices of any kind (inner, output) x per-tensor decimal scales 10^s, s in [-100,100] "
        "(extreme, mixed-sign, and moderate streams) x check_zero x prefer_einsum x traversal order; plus a stream "
        "with a deliberately zero-valued slice, and the array_contract interface (incl. single-tensor "
        "expressions); non-trivial = >= 2 tensors, non-zero exact result, and (a sliced index or a scale beyond "
        "1e+-30); distinct by content hash")
BUDGET = {"quick": 600, "thorough": 3000}

NEG_INF = float("-inf")


# ------------------------------------------------------------------------------------ generation
def gen_case(rng, tier, stream=None):
    stream = stream or rng.choice(["extreme", "extreme", "mixed", "moderate", "zero-slice", "zero-slice",
                                   "interface", "block", "block"])
    block = stream == "block"
    if block:
        # like zero-slice, but instead of a zero block one tensor gets *different magnitudes along a
        # sliced index* (every entry still within 1e-100..1e100): consecutive slices then differ by
        # hundreds of orders of magnitude, which only the combination of slices can get wrong
        stream = "zero-slice"
    nmax = 4 if tier == "quick" else 5
    net = gen.rand_net(rng, nmin=1 if stream == "interface" else 2, nmax=nmax, max_inds=6, dims=(1, 2, 2, 3),
                       max_rank=4, max_total=3000)
    n = len(net.inputs)
    tree = gen.rand_tree(rng, n)
    inds = net.indices()
    k = rng.choice([0, 1, 1, 2, 2, 3]) if stream != "zero-slice" else rng.choice([1, 1, 2])
    if stream == "interface" and n == 1:
        k = 0
    sliced = rng.sample(inds, min(k, len(inds)))
    if stream == "zero-slice":
        # make sure a sliced index of size >= 2 exists
        big = [ix for ix in inds if net.sizes[ix] >= 2]
        if not big:
            ix = rng.choice(inds)
            net.sizes[ix] = 2
            big = [ix]
        if not any(ix in big for ix in sliced):
            sliced = [rng.choice(big)] + sliced[1:]
    scales = []
    for _ in range(n):
        if stream in ("extreme", "zero-slice", "interface"):
            s = rng.choice([rng.randint(-100, 100), rng.choice([-100, -99, 99, 100]),
                            rng.randint(60, 100) * rng.choice([-1, 1])])
        elif stream == "mixed":
            s = rng.choice([-100, 100, rng.randint(-100, 100)])
        else:
            s = rng.randint(-8, 8)
        scales.append(s)
    if stream == "extreme" and rng.random() < 0.5:
        sign = rng.choice([-1, 1])
        scales = [sign * abs(s) if s else sign * 50 for s in scales]     # all huge or all tiny
    vals = (1, 1, 2, 4, -1, -2, 3, 1, 2, -4, 1, 2, 0) if stream != "moderate" else \
        (1, 2, 3, -1, -3, 5, 2, 1, 0)
    arrays = []
    for t in net.inputs:
        size = 1
        for ix in t:
            size *= net.sizes[ix]
        a = [rng.choice(vals) for _ in range(size)]
        if all(v == 0 for v in a):
            a[rng.randrange(size)] = 1
        arrays.append(a)
    case = {"net": net.json(), "tree": tree, "sliced": sliced, "scales": scales, "ints": arrays,
            "check_zero": rng.random() < 0.4, "prefer_einsum": rng.random() < 0.3,
            "order_seed": rng.choice([None, rng.randrange(1 << 30)]),
            "implementation": rng.choice([None, None, "autoray"]), "stream": stream}
    if rng.random() < 0.35:
        # earlier uses of the same tree object with other (strip_exponent, check_zero) flags
        cz_ = case["check_zero"]
        case["warm"] = rng.choice([[[True, not cz_]], [[False, False]], [[True, not cz_], [False, False]],
                                   [[False, False], [True, not cz_]]])
    if stream == "zero-slice":
        # zero out one tensor on one value of a sliced index that it carries (if any tensor does)
        cands = [(ti, ix) for ti, t in enumerate(net.inputs) for ix in sliced if ix in t and net.sizes[ix] >= 2]
        if cands and not block:
            ti, ix = rng.choice(cands)
            v = rng.randrange(net.sizes[ix])
            case["zeroed"] = [ti, ix, v]
            _zero_out(net, arrays, ti, ix, v)
        if cands and block:
            ti, ix = rng.choice(cands)
            case["stream"] = "block"
            signs = [rng.choice([-1, 1]) for _ in range(net.sizes[ix])]
            if len(set(signs)) == 1:
                signs[rng.randrange(len(signs))] *= -1
            # every tensor carrying the index (or just one of them) gets the same sign pattern, so
            # that whole slices differ by up to several hundred orders of magnitude
            carriers = [k for k, t in enumerate(net.inputs) if ix in t]
            if rng.random() < 0.3:
                carriers = [ti]
            blocks = []
            for k in carriers:
                case["scales"][k] = 0
                blocks.append([k, ix, [sg * rng.randint(80, 97) for sg in signs]])
            case["block"] = blocks
            for a in arrays:
                for j, v in enumerate(a):
                    if v == 0:
                        a[j] = 1
        elif block:
            case["stream"] = "extreme"
    if stream == "interface":
        case["interface"] = rng.choice(["array_contract", "expression"])
    return case


def _zero_out(net, arrays, ti, ix, v):
    t = net.inputs[ti]
    shape = [net.sizes[i] for i in t]
    a = np.array(arrays[ti], dtype=object).reshape(shape) if shape else None
    if a is None:
        return
    sel = [slice(None)] * len(t)
    for ax, i in enumerate(t):
        if i == ix:
            sel[ax] = v
    a[tuple(sel)] = 0
    arrays[ti][:] = [int(x) for x in a.reshape(-1)]


def build(case):
    net = gen.Net.from_json(case["net"])
    shapes = net.shapes()
    farrays = []
    for a, sh, s in zip(case["ints"], shapes, case["scales"]):
        c = float(10.0 ** s) if s >= 0 else 1.0 / float(10.0 ** (-s))
        farrays.append((np.array(a, dtype=np.float64) * c).reshape(sh))
    for ti, ix, exps in (case.get("block") or []):
        t = net.inputs[ti]
        a = farrays[ti]
        for v, e in enumerate(exps):
            sel = tuple(v if i == ix else slice(None) for i in t)
            f = float(10.0 ** e) if e >= 0 else 1.0 / float(10.0 ** (-e))
            a[sel] = a[sel] * f
    return net, farrays


def exact_arrays(farrays):
    """float arrays -> object arrays of the exactly equal Fractions"""
    out = []
    for a in farrays:
        o = np.empty(a.shape, dtype=object)
        flat = a.reshape(-1)
        of = o.reshape(-1)
        for i in range(flat.shape[0]):
            of[i] = Fraction(float(flat[i]))
        out.append(o)
    return out


def abs_arrays(xs):
    out = []
    for a in xs:
        o = np.empty(a.shape, dtype=object)
        of, af = o.reshape(-1), a.reshape(-1)
        for i in range(af.shape[0]):
            of[i] = abs(af[i])
        out.append(o)
    return out


def log10_frac(x):
    x = abs(x)
    return math.log10(x.numerator) - math.log10(x.denominator)


def frac_str(x):
    return f"{x.numerator}/{x.denominator}" if x.denominator != 1 else str(x.numerator)


# ------------------------------------------------------------------------------------ real code
def real_tree(case, net):
    tree = gen.real_tree(ctg, net, case["tree"])
    for ix in case["sliced"]:
        tree.remove_ind_(gen.sym(ix))
    return tree


def order_fn(case):
    if case.get("order_seed") is None:
        return None
    import random
    r = random.Random(case["order_seed"])
    scores = {}

    def f(node):
        if node not in scores:
            scores[node] = r.random()
        return scores[node]
    return f


def call_real(fn):
    """run real code; returns ('ok', (m, e)) or ('exception', name)"""
    with warnings.catch_warnings():
        warnings.simplefilter("ignore")
        with np.errstate(all="ignore"):
            try:
                return "ok", fn()
            except Exception as e:  # noqa: BLE001
                return "exception", type(e).__name__ + ": " + str(e)[:80]


def status_of(m, e):
    """classify a returned (mantissa, exponent) pair"""
    ma = np.asarray(m, dtype=np.float64)
    ef = float(e)
    if np.isnan(ma).any() or math.isnan(ef):
        return "nan"
    if np.isinf(ma).any() or ef == float("inf"):
        return "inf"
    if ef == NEG_INF:
        return "zero"
    return "ok"


# ------------------------------------------------------------------------------------ oracle
def oracle(net, out_inds, got_m, got_e, ref, refabs):
    """compare a finite (m, e) with the exact reference dictionaries. Returns None or a reason."""
    keys = [k for k, v in ref.items() if v != 0]
    if not keys:
        return None
    R = max(abs(ref[k]) for k in keys)
    L = log10_frac(R)
    m = np.asarray(got_m, dtype=np.float64)
    shape = tuple(net.sizes[i] for i in out_inds)
    if m.shape != shape:
        return f"shape {m.shape} != {shape}"
    if abs(float(got_e) - L) > 280:
        return f"exponent {float(got_e)!r} is {float(got_e) - L:.1f} decades away from log10 max|result| = {L!r}"
    sc = 10.0 ** (float(got_e) - L)
    worst = None
    import itertools
    for key in itertools.product(*[range(d) for d in shape]):
        r = ref.get(key, 0)
        ra = refabs.get(key, 0)
        g = float(m[key]) * sc
        tol = 1e-9 * float(ra / R) + 1e-300
        if abs(g - float(r / R)) > tol:
            return f"entry {key}: got {g!r} (normalised), want {float(r / R)!r}, tol {tol:.3g}"
        if abs(r) == R:
            worst = key
    if refabs[worst] > 10 ** 5 * R:
        return None       # the largest entry is itself the result of heavy cancellation: ill-conditioned
    g = float(m[worst])
    if g == 0.0 or (g > 0) != (ref[worst] > 0):
        return f"sign of the largest entry {worst}"
    if abs(math.log10(abs(g)) + float(got_e) - L) > 1e-6:
        return f"log10|m|+e = {math.log10(abs(g)) + float(got_e)!r}, want {L!r}"
    return None


def reference(net, exact, fixed=None):
    _, ref = refimpl.dense_einsum(net.inputs, net.output, net.sizes, exact, fixed=fixed)
    _, refabs = refimpl.dense_einsum(net.inputs, net.output, net.sizes, abs_arrays(exact), fixed=fixed)
    return ref, refabs


def is_nonzero(ref, refabs):
    """the exact result is non-zero *and* not mere rounding noise of the float inputs: if
    max|ref| < 1e-9 max refabs the mathematical result (the integers behind the scaled inputs)
    cancels completely and what is left of it in exact arithmetic is the rounding of the scales;
    floating point may then return an exact 0 -- the property is silent there"""
    top = max([abs(v) for v in ref.values()], default=0)
    if top == 0:
        return False
    topa = max([abs(v) for v in refabs.values()], default=0)
    return float(top / topa) >= 1e-9


# ------------------------------------------------------------------------------------ model side
def model_program(tree, net, case):
    """the real program of the real tree as model steps: keys are ssa-like ids of the nodes"""
    us = gen.unsym(net)
    sliced = set(case["sliced"])
    contractions = cmod.extract_contractions(tree, order_fn(case), case["prefer_einsum"])
    ids = {}
    n = len(net.inputs)
    for i in range(n):
        ids[ctg.utils.node_from_single(i)] = i
    nxt = [n]
    steps = []
    for p, l, r, tdot, arg, perm in contractions:
        out = [us[c] for c in tree.get_inds(p)]
        if l is None and r is None:
            steps.append(["pre", ids[p], out])
        else:
            if p not in ids:
                ids[p] = nxt[0]
                nxt[0] += 1
            steps.append(["pair", ids[p], ids[l], ids[r], out])
    leaves_inds = [[ix for ix in t if ix not in sliced] for t in net.inputs]
    return steps, leaves_inds, contractions


def send_run(drv, net, steps, leaves_inds, exact_slice, cz):
    leaves = [{"inds": li, "data": [frac_str(x) for x in a.reshape(-1)]} for li, a in zip(leaves_inds, exact_slice)]
    return drv.call("c19.run", sizes=sorted([k, v] for k, v in net.sizes.items()), leaves=leaves, steps=steps,
                    check_zero=cz)


def parse_frac(s):
    return Fraction(s)


# ------------------------------------------------------------------------------------ one case
def slice_arrays_exact(tree, net, exact, i):
    """the exact arrays of slice i, sliced exactly like tree.slice_arrays"""
    key = tree.slice_key(i)
    us = gen.unsym(net)
    out = []
    for t, a in zip(net.inputs, exact):
        sel = tuple(key.get(gen.sym(ix), slice(None)) for ix in t)
        sub = a[sel] if t else a
        if not isinstance(sub, np.ndarray):
            o = np.empty((), dtype=object)
            o[()] = sub
            sub = o
        out.append(sub)
    return out, {us[k]: v for k, v in key.items()}


def check_case(ctx, drv, case, corr=True):
    net, farrays = build(case)
    n = len(net.inputs)
    cz = case["check_zero"]
    ctx.count("stream:" + case["stream"])
    ctx.count("n:%d" % n)
    ctx.count("check_zero:%s" % cz)
    if case.get("interface"):
        return check_interface(ctx, case, net, farrays)
    tree = real_tree(case, net)
    sliced = case["sliced"]
    out_sliced = [ix for ix in sliced if ix in net.output]
    ctx.count("sliced:%d" % len(sliced))
    ctx.count("output_sliced:%d" % len(out_sliced))
    kw = dict(strip_exponent=True, check_zero=cz, prefer_einsum=case["prefer_einsum"], order=order_fn(case))
    if case.get("implementation"):
        kw["implementation"] = case["implementation"]
    if case.get("warm"):
        # the same tree object has been used before with *other* run-time flags (on harmless all-ones arrays):
        # what it compiled or remembered then must not leak into the judged call
        ones = [np.ones_like(np.asarray(a, dtype=float)) for a in farrays]
        for w in case["warm"]:
            kw0 = dict(kw, strip_exponent=w[0], check_zero=w[1])
            call_real(lambda: tree.contract(ones, **kw0))
        ctx.count("same-tree-used-before-with-other-flags")
    st, res = call_real(lambda: tree.contract(farrays, **kw))
    exact = exact_arrays(farrays)
    ref, refabs = reference(net, exact)
    nonzero = is_nonzero(ref, refabs)
    # exact value of every slice (which slices are identically zero?)
    nsl = tree.nslices
    zero_slices = []
    cond = {}
    if sliced:
        exact_abs = abs_arrays(exact)
        for i in range(nsl):
            _, fixed = slice_arrays_exact(tree, net, exact, i)
            _, r_i = refimpl.dense_einsum(net.inputs, net.output, net.sizes, exact, fixed=fixed)
            _, ra_i = refimpl.dense_einsum(net.inputs, net.output, net.sizes, exact_abs, fixed=fixed)
            top = max([abs(v) for v in r_i.values()], default=0)
            topa = max([abs(v) for v in ra_i.values()], default=0)
            cond[i] = float(top / topa) if topa else 0.0
            if top == 0:
                zero_slices.append(i)
            elif cond[i] < 1e-9:
                # the exact value of the slice is rounding noise of the float inputs (complete
                # cancellation): in floating point it can vanish exactly, in one evaluation order
                # or another, and then behaves like a zero-valued slice (0/0)
                zero_slices.append(i)
                ctx.count("noise_slice")
    else:
        top = max([abs(v) for v in ref.values()], default=0)
        topa = max([abs(v) for v in refabs.values()], default=0)
        cond[0] = float(top / topa) if topa else 0.0
    ctx.count("zero_slices:%s" % ("some" if zero_slices else "none"))
    ctx.count("result:%s" % ("nonzero" if nonzero else "zero"))
    maxs = max(abs(s) for s in case["scales"])
    nontrivial = n >= 2 and nonzero and (bool(sliced) or maxs >= 30)
    ctx.case(case, nontrivial=nontrivial)

    # ---- implementation-side oracle -------------------------------------------------------------
    sig_base = {"site": "tree.contract", "check_zero": cz, "output_sliced": bool(out_sliced)}
    ok = True
    if nonzero:
        if st == "exception":
            cls = "zero-slice-nonzero-total" if zero_slices else "exception"
            ctx.violation(dict(sig_base, **{"class": cls, "kind": "exception"}), {"case": case},
                          f"tree.contract(strip_exponent=True, check_zero={cz}) raises {res} although the "
                          f"result is non-zero ({len(zero_slices)} zero-valued slice(s) of {nsl})")
            ok = False
        elif not (isinstance(res, tuple) and len(res) == 2):
            ctx.violation(dict(sig_base, **{"class": "shape"}), {"case": case},
                          "tree.contract(strip_exponent=True) does not return a (mantissa, exponent) pair")
            return False
        else:
            m, e = res
            s = status_of(m, e)
            ctx.count("real_status:" + s)
            if s != "ok":
                cls = "zero-slice-nonzero-total" if zero_slices else "nonfinite"
                ctx.violation(dict(sig_base, **{"class": cls, "kind": s}), {"case": case},
                              f"tree.contract(strip_exponent=True, check_zero={cz}) returns a {s} "
                              f"mantissa/exponent although the exact result is non-zero "
                              f"({len(zero_slices)} zero-valued slice(s) of {nsl}; scales {case['scales']})")
                ok = False
            else:
                bad = oracle(net, net.output, m, e, ref, refabs)
                if bad:
                    ctx.violation(dict(sig_base, **{"class": "value"}), {"case": case},
                                  "mantissa x 10^exponent differs from the exact result: " + bad)
                    ok = False
    else:
        ctx.count("silent:zero-result")
    if not corr or drv is None:
        return ok

    # ---- correspondence with the exact-rational model ---------------------------------------------
    steps, leaves_inds, contractions = model_program(tree, net, case)
    per_slice = []
    garbage = False
    ckw = {k: v for k, v in kw.items()}
    for i in range(nsl):
        ex_i, _ = slice_arrays_exact(tree, net, exact, i) if sliced else (exact, {})
        resp = send_run(drv, net, steps, leaves_inds, ex_i, cz)
        if "error" in resp:
            ctx.corr_broken("driver error: " + resp["error"], case)
            return ok
        if not resp.get("wf", False):
            ctx.corr_broken("the real program is not well-formed in the model's sense (WF)", case)
            return ok
        fl_i = tree.slice_arrays(farrays, i) if sliced else farrays
        st_i, res_i = call_real(lambda: tree.contract_core(fl_i, **ckw))
        ctx.traces += 1
        ms = resp["status"]
        ctx.count("model_status:" + ms)
        if st_i == "exception" or not (isinstance(res_i, tuple) and len(res_i) == 2):
            ctx.corr_broken("contract_core raises / returns " + str(res_i)[:80], case)
            return ok
        m_i, e_i = res_i
        rs = status_of(m_i, e_i)
        if 0.0 < cond.get(i, 1.0) < 1e-6:
            # the slice value is rounding noise (cancellation): exact and float arithmetic
            # legitimately differ in every digit; nothing to compare
            ctx.count("ill_conditioned_slice")
            garbage = True
            per_slice.append({"status": "skip"})
            continue
        if ms == "ok":
            if rs != "ok":
                ctx.corr_broken(f"slice {i}: model ok, real {rs}", case)
                return ok
            facs = [parse_frac(s) for s in resp["factors"]]
            e_model = sum(log10_frac(f) for f in facs)
            if abs(e_model - float(e_i)) > 1e-7:
                ctx.corr_broken(f"slice {i}: exponent {float(e_i)!r} vs model {e_model!r}", case)
                return ok
            M = [parse_frac(s) for s in resp["mantissa"]["data"]]
            got = np.asarray(m_i, dtype=np.float64).reshape(-1)
            if len(M) != got.shape[0] or any(abs(float(a) - float(b)) > 1e-7 for a, b in zip(M, got)):
                ctx.corr_broken(f"slice {i}: mantissa differs from the model's", case)
                return ok
            if parse_frac(resp["maxabs"]) != 1:
                ctx.corr_broken("model mantissa is not normalised", case)
            F = Fraction(1)
            for f in facs:
                F *= f
            per_slice.append({"status": "ok",
                              "m": {"inds": resp["mantissa"]["inds"], "data": resp["mantissa"]["data"]},
                              "f": frac_str(F)})
            ctx.count("steps_normalised", len(facs))
        elif ms in ("zero", "nan"):
            per_slice.append({"status": ms})
            if rs != ms:
                # an exact zero reached by cancellation may be float garbage instead of 0.0
                ctx.count("cancellation_garbage")
                garbage = True
                if rs != "ok":
                    ctx.corr_broken(f"slice {i}: model {ms}, real {rs}", case)
                    return ok
        else:
            ctx.corr_broken(f"slice {i}: model status {ms}", case)
            return ok
    # whole sliced contraction: status, common exponent and chunks
    if sliced and not garbage:
        out_pos = [ix for ix in net.output if ix in sliced]
        chunks = {}
        for i in range(nsl):
            key_slice = tree.slice_key(i)
            key = tuple(key_slice[gen.sym(ix)] for ix in out_pos)
            chunks.setdefault(key, []).append(per_slice[i])
        g = drv.call("c19.gatherres", chunks=list(chunks.values()))
        if "error" in g:
            ctx.corr_broken("driver error: " + g["error"], case)
            return ok
        ctx.traces += 1
        ctx.count("gather_model_status:" + g["status"])
        if st == "exception" or not (isinstance(res, tuple) and len(res) == 2):
            ctx.corr_broken(f"tree.contract raises / returns {str(res)[:60]}; the model gathers to status "
                            f"{g['status']}", case)
            return ok
        m, e = res
        rs = status_of(m, e)
        if rs != g["status"]:
            ctx.corr_broken(f"tree.contract returns a {rs} result; the model gathers to {g['status']}", case)
            return ok
        if rs == "ok":
            Fm = parse_frac(g["f"])
            if abs(log10_frac(Fm) - float(e)) > 1e-7:
                ctx.corr_broken(f"gathered exponent {float(e)!r} vs model {log10_frac(Fm)!r}", case)
                return ok
            marr = np.asarray(m, dtype=np.float64)
            for key, ch in zip(chunks.keys(), g["chunks"]):
                sel = []
                kit = iter(key)
                for ix in net.output:
                    sel.append(next(kit) if ix in sliced else slice(None))
                got = marr[tuple(sel)].reshape(-1)
                want = [float(parse_frac(s)) for s in ch["data"]]
                if len(want) != got.shape[0] or any(abs(a - b) > 1e-7 for a, b in zip(want, got)):
                    ctx.corr_broken(f"gathered chunk {key} differs from the model's", case)
                    return ok
            ctx.count("gather_compared")
            # the all-finite case also through `rescaleChunks` (the function of gather_stripped_exact)
            if all(p["status"] == "ok" for p in per_slice):
                g2 = drv.call("c19.gather", chunks=[[{"m": p["m"], "f": p["f"]} for p in c]
                                                    for c in chunks.values()])
                if g2.get("f") != g["f"] or [c["data"] for c in g2.get("chunks", [])] != \
                        [c["data"] for c in g["chunks"]]:
                    ctx.corr_broken("gatherRes and rescaleChunks disagree on finite chunks", case)
    return ok


def check_interface(ctx, case, net, farrays):
    """array_contract / array_contract_expression with strip_exponent=True (incl. one tensor)"""
    n = len(net.inputs)
    exact = exact_arrays(farrays)
    ref, refabs = reference(net, exact)
    nonzero = is_nonzero(ref, refabs)
    ctx.case(case, nontrivial=nonzero and n >= 2)
    ctx.count("interface:" + case["interface"] + (":single" if n == 1 else ""))
    inputs, output, sd = net.sym_inputs(), net.sym_output(), net.sym_sizes()
    path = [tuple(p) for p in gen.tree_to_ssa(case["tree"], n)]
    if case["interface"] == "array_contract":
        fn = lambda: ctg.array_contract(farrays, inputs, output, optimize="greedy", strip_exponent=True)  # noqa: E731
    else:
        fn = lambda: ctg.array_contract_expression(inputs, output, sd, optimize="greedy",  # noqa: E731
                                                   strip_exponent=True)(*farrays)
    st, res = call_real(fn)
    if not nonzero:
        ctx.count("silent:zero-result")
        return True
    sig = {"site": case["interface"], "single": n == 1}
    if st == "exception":
        ctx.violation(dict(sig, **{"class": "exception"}), {"case": case}, f"{case['interface']} raises {res}")
        return False
    if not (isinstance(res, tuple) and len(res) == 2):
        ctx.violation(dict(sig, **{"class": "shape"}), {"case": case},
                      f"{case['interface']}(strip_exponent=True) does not return (mantissa, exponent)")
        return False
    m, e = res
    s = status_of(m, e)
    if s != "ok":
        ctx.violation(dict(sig, **{"class": "nonfinite", "kind": s}), {"case": case},
                      f"{case['interface']}(strip_exponent=True) returns a {s} result; scales {case['scales']}")
        return False
    bad = oracle(net, net.output, m, e, ref, refabs)
    if bad:
        ctx.violation(dict(sig, **{"class": "value"}), {"case": case},
                      "mantissa x 10^exponent differs from the exact result: " + bad)
        return False
    return True


def add_pairs_tie(ctx, drv):
    """add_maybe_exponent_stripped on random pairs against the model's addStripped (factor domain)"""
    from cotengra.core import add_maybe_exponent_stripped
    rng = ctx.rng
    for _ in range(60 if ctx.tier == "quick" else 600):
        k = rng.randint(1, 4)
        xs = [Fraction(rng.choice([1, 2, 3, -1, -4, 0])) / rng.choice([1, 2, 4]) for _ in range(k)]
        ys = [Fraction(rng.choice([1, 2, 3, -1, -4, 0])) / rng.choice([1, 2, 4]) for _ in range(k)]
        ex, ey = rng.randint(-300, 300), rng.randint(-300, 300)
        if rng.random() < 0.3:
            ey = ex + rng.randint(-3, 3)
        xm, ym = np.array([float(v) for v in xs]), np.array([float(v) for v in ys])
        with np.errstate(all="ignore"):
            m, e = add_maybe_exponent_stripped((xm, float(ex)), (ym, float(ey)))
        g = drv.call("c19.gather", chunks=[[{"m": {"inds": [0], "data": [frac_str(v) for v in xs]},
                                             "f": frac_str(Fraction(10) ** ex)},
                                            {"m": {"inds": [0], "data": [frac_str(v) for v in ys]},
                                             "f": frac_str(Fraction(10) ** ey)}]])
        ctx.traces += 1
        ctx.count("add_pairs")
        if "error" in g:
            ctx.corr_broken("driver error: " + g["error"])
            return
        want = [float(parse_frac(s)) for s in g["sums"][0]["m"]["data"]]
        ok = abs(log10_frac(parse_frac(g["sums"][0]["f"])) - float(e)) < 1e-9 and \
            all(abs(a - float(b)) <= 1e-9 for a, b in zip(want, np.asarray(m).reshape(-1)))
        # oracle: m 10^e = xm 10^xe + ym 10^ye, exactly in rationals up to rounding
        tot = [x * Fraction(10) ** ex + y * Fraction(10) ** ey for x, y in zip(xs, ys)]
        scale = Fraction(10) ** int(e)
        for a, t in zip(np.asarray(m).reshape(-1), tot):
            if abs(Fraction(float(a)) - t / scale) > Fraction(1, 10 ** 9):
                ctx.violation({"site": "add_maybe_exponent_stripped", "class": "value"},
                              {"add": {"xs": [str(v) for v in xs], "ys": [str(v) for v in ys], "ex": ex, "ey": ey}},
                              "add_maybe_exponent_stripped is not exact")
                return
        if not ok:
            ctx.corr_broken("add_maybe_exponent_stripped differs from the model's addStripped",
                            {"ex": ex, "ey": ey})
            return


# ------------------------------------------------------------------------------------ entry points
def _replay_corpus(ctx, drv):
    d = os.path.join(common.VERIF, "corpus", PROP)
    if not os.path.isdir(d):
        return
    for fn in sorted(os.listdir(d)):
        if fn.endswith(".json"):
            obj = json.load(open(os.path.join(d, fn)))
            ctx.count("corpus")
            rep = obj.get("replay", obj)
            if "case" in rep:
                check_case(ctx, drv, rep["case"], corr=False)


def run(ctx, drv):
    _replay_corpus(ctx, drv)
    add_pairs_tie(ctx, drv)
    ncases = 2500 if ctx.tier == "quick" else 40000
    for _ in range(ncases):
        if ctx.time_left() < 20:
            break
        check_case(ctx, drv, gen_case(ctx.rng, ctx.tier))


def search(ctx):
    before = ctx.violations
    for _ in range(3000):
        if ctx.time_left() < 20:
            break
        check_case(ctx, None, gen_case(ctx.rng, "thorough"), corr=False)
        if ctx.violations > before:
            return True
    return False


class _Quiet:
    """a Ctx stand-in for replays: records whether the oracle complained"""

    def __init__(self, ctx):
        self.ctx = ctx
        self.failed = False
        self.tier = ctx.tier
        self.rng = ctx.rng
        self.traces = 0

    def count(self, *a, **k):
        pass

    def case(self, *a, **k):
        pass

    def corr_broken(self, *a, **k):
        pass

    def violation(self, sig, replay, what, **k):
        for e in self.ctx._known:
            if e.get("property") == PROP and e.get("kind") == "known" and common._sig_match(e["match"], sig):
                print("KNOWN-FINDING:", e["what"][:120], "...")
                return False
        self.failed = True
        print("#", what)
        return True


def replay(ctx, obj):
    q = _Quiet(ctx)
    if "add" in obj:
        return True
    check_case(q, None, obj["case"], corr=False)
    return not q.failed
