"""C17 -- skeletons of the generator-carrying variables of a function, and the Python mirror of the
Lean analysis `Cotengra.RFlow.analyse` (lean/CotengraVerif/Model/RngFlow.lean).

`skeleton(fn_node, seed_param, attr_names, is_init)` reads one function's AST and returns

    {"nvars": n, "attrs": [var ids bound to a seeded generator on entry], "body": <stmt>,
     "vars": [names], "sinks": [{"k", "kind", "line", "node"}]}

with statements / expressions encoded as nested lists (the same encoding the driver op
`c17.rngflow` parses and `to_lean` prints):

    expr:  ["var", x] ["none"] ["global"] ["const"] ["getRng", e] ["draw", e] ["or", a, b]
           ["choice", a, b] ["both", a, b]
    stmt:  ["skip"] ["assign", x, e] ["use", k, strict, e] ["seq", a, b] ["ite", a, b]
           ["iteNone", x, a, b] ["iteTruthy", x, a, b] ["loop", b] ["brk"] ["ret"]

What is extracted is purely syntactic (which names are assigned what, under which branches and
loops, and which expressions reach a sink); the data-flow reasoning itself is `analyse`, proved
sound in Lean (`RFlow.analyse_sound`) and re-run by the kernel on the regenerated skeleton table
(`C17.rng_dataflow_seeded`).  `analyse` below is a line-by-line mirror used (a) to decide the
mode of the call-graph edges and (b) as the Python side of the E-correspondence `c17.rngflow`.
"""

import ast

SEED_NAMES = ("seed", "rng")
# calls whose arguments are only inspected, never used as a seed
INSPECT_ONLY = {"isinstance", "type", "print", "repr", "str", "id", "len", "hasattr", "getattr", "callable",
                "bool", "format", "issubclass"}
SEEDED_CTORS = {"Random", "default_rng", "RandomState", "Generator", "SeedSequence", "PCG64", "MT19937",
                "get_rng"}
UNSUPPORTED = 999000      # sink ids >= this: a construct the skeleton cannot express (always reported)

SKIP = ["skip"]


def seq(*stmts):
    out = [s for s in stmts if s != SKIP]
    if not out:
        return SKIP
    r = out[-1]
    for s in reversed(out[:-1]):
        r = ["seq", s, r]
    return r


def ite(a, b):
    return SKIP if (a == SKIP and b == SKIP) else ["ite", a, b]


def loop(b):
    return SKIP if b == SKIP else ["loop", b]


def both_fold(es):
    es = [e for e in es if e is not None]
    if not es:
        return None
    r = es[0]
    for e in es[1:]:
        r = ["both", r, e]
    return r


class Skel:
    def __init__(self, fn, seed_param, attr_names, is_init, imports):
        self.fn = fn
        self.imports = imports or {}
        self.vars = [seed_param or "<no seed parameter>"]
        self.sinks = []
        self.attr_names = set(attr_names)
        self.is_init = is_init
        self.late = []
        a = fn.args
        params = [x.arg for x in a.posonlyargs + a.args + a.kwonlyargs]
        # other seed-like parameters
        self.extra_params = [p for p in params if p in SEED_NAMES and p != seed_param]
        for p in self.extra_params:
            self.vars.append(p)
        self._find_tracked()

    # ---------------------------------------------------------------- names
    def key_of(self, e):
        if isinstance(e, ast.Name):
            return e.id
        if isinstance(e, ast.Attribute) and isinstance(e.value, ast.Name) and e.value.id == "self":
            return "self." + e.attr
        return None

    def var_of(self, e):
        k = self.key_of(e)
        if k is not None and k in self.vars:
            return self.vars.index(k)
        return None

    def _is_random_module(self, e):
        if isinstance(e, ast.Name) and self.imports.get(e.id) == ("mod", "random"):
            return True
        if isinstance(e, ast.Attribute) and e.attr == "random" and isinstance(e.value, ast.Name) and \
                self.imports.get(e.value.id, ("", ""))[1] in ("numpy",):
            return True
        if isinstance(e, ast.Name) and self.imports.get(e.id) in (("name", ("numpy", "random")),
                                                                 ("mod", "numpy.random")):
            return True
        return False

    def _ctor_call(self, e):
        """get_rng(..) / random.Random(..) / np.random.default_rng(..): returns (True, arg or None)"""
        if not isinstance(e, ast.Call):
            return False, None
        f = e.func
        nm = f.id if isinstance(f, ast.Name) else (f.attr if isinstance(f, ast.Attribute) else None)
        if nm == "get_rng" or (nm in SEEDED_CTORS and isinstance(f, ast.Attribute) and
                               self._is_random_module(f.value)):
            arg = e.args[0] if e.args else (e.keywords[0].value if e.keywords else None)
            return True, arg
        return False, None

    def direct(self, e, tracked_only=False):
        """translation of an expression that *directly* denotes a seed / generator value, else None"""
        v = self.var_of(e)
        if v is not None:
            return ["var", v]
        if self._is_random_module(e):
            return ["global"]
        ok, arg = self._ctor_call(e)
        if ok:
            return ["getRng", self.value(arg) if arg is not None else ["none"]]
        if isinstance(e, ast.Call) and isinstance(e.func, ast.Attribute):
            recv = e.func.value
            if self._is_random_module(recv):
                return ["draw", ["global"]]
            d = self.direct(recv)
            if d is not None:
                return ["draw", d]
        if isinstance(e, ast.BoolOp):
            parts = [self.direct(x) for x in e.values]
            if any(p is not None for p in parts):
                vals = [self.value(x) for x in e.values]
                r = vals[-1]
                for x in reversed(vals[:-1]):
                    r = ["or", x, r] if isinstance(e.op, ast.Or) else ["choice", x, r]
                return r
        if isinstance(e, ast.IfExp):
            if self.direct(e.body) is not None or self.direct(e.orelse) is not None:
                return ["choice", self.value(e.body), self.value(e.orelse)]
        if isinstance(e, ast.BinOp):
            l, r = self.direct(e.left), self.direct(e.right)
            if l is not None or r is not None:
                return ["both", l or ["const"], r or ["const"]]
        if isinstance(e, ast.NamedExpr):
            return self.direct(e.value)
        return None

    def value(self, e):
        """translation of an expression in a position where a seed is expected"""
        if e is None:
            return ["none"]
        if isinstance(e, ast.Constant) and e.value is None:
            return ["none"]
        d = self.direct(e)
        if d is not None:
            return d
        # any other expression: computed from the tracked values it mentions (or a constant)
        subs = []
        for n in ast.walk(e):
            v = self.var_of(n)
            if v is not None:
                subs.append(["var", v])
            elif self._is_random_module(n) and not isinstance(getattr(n, "ctx", None), ast.Store):
                subs.append(["global"])
        subs = [s for i, s in enumerate(subs) if s not in subs[:i]]
        if not subs:
            return ["const"]
        return both_fold(subs + [["const"]])

    def _find_tracked(self):
        """names / self-attributes that carry a seed or a generator (fixpoint over the assignments)"""
        for a in sorted(self.attr_names):
            if "self." + a not in self.vars:
                self.vars.append("self." + a)
        # names used where a seed is expected (`f(seed=x)`, `get_rng(x)`, `{"seed": x}`) are tracked
        # whatever they are assigned from: `x = None ... f(seed=x)` must be seen
        def seed_position(e):
            k = self.key_of(e)
            if k is not None and k not in self.vars and not (isinstance(e, ast.Name) and e.id in ("None", "self")):
                self.vars.append(k)
        for node in ast.walk(self.fn):
            if isinstance(node, ast.Call):
                ok, arg = self._ctor_call(node)
                if ok and arg is not None:
                    seed_position(arg)
                for kw in node.keywords:
                    if kw.arg in SEED_NAMES:
                        seed_position(kw.value)
            elif isinstance(node, ast.Dict):
                for k, v in zip(node.keys, node.values):
                    if isinstance(k, ast.Constant) and k.value in SEED_NAMES:
                        seed_position(v)
        changed = True
        while changed:
            changed = False
            for node in ast.walk(self.fn):
                tv = None
                if isinstance(node, ast.Assign):
                    tv = (node.targets, node.value)
                elif isinstance(node, ast.AnnAssign) and node.value is not None:
                    tv = ([node.target], node.value)
                elif isinstance(node, ast.NamedExpr):
                    tv = ([node.target], node.value)
                if tv is None:
                    continue
                tgts, val = tv
                if self.direct(val) is None:
                    continue
                for t in tgts:
                    k = self.key_of(t)
                    if k is not None and k not in self.vars:
                        self.vars.append(k)
                        changed = True

    # ---------------------------------------------------------------- sinks
    def new_sink(self, kind, node, strict, e):
        k = len(self.sinks)
        self.sinks.append({"k": k, "kind": kind, "line": getattr(node, "lineno", 0), "node": node})
        return ["use", k, bool(strict), e]

    def sinks_of(self, e, out=None):
        """`use` statements for the sinks inside expression `e` (evaluation order: inner first)"""
        out = [] if out is None else out
        if e is None:
            return out
        if isinstance(e, (ast.FunctionDef, ast.AsyncFunctionDef, ast.Lambda, ast.ClassDef)) and e is not self.fn:
            # a nested function: its sinks run whenever it is called -- checked where it is
            # defined and once more at the end of the enclosing function
            inner = []
            for ch in ast.iter_child_nodes(e):
                self.sinks_of(ch, inner)
            out.extend(inner)
            self.late.extend(inner)
            return out
        if isinstance(e, ast.IfExp):
            # the sinks of the two arms run under the test (refined when it is `x is None` / `x`)
            self.sinks_of(e.test, out)
            a, b = seq(*self.sinks_of(e.body, [])), seq(*self.sinks_of(e.orelse, []))
            if a != SKIP or b != SKIP:
                out.append(self.branch(e.test, a, b))
            return out
        for ch in ast.iter_child_nodes(e):
            self.sinks_of(ch, out)
        if isinstance(e, ast.NamedExpr):
            v = self.var_of(e.target)
            if v is not None:           # (rng := get_rng(seed))
                out.append(["assign", v, self.value(e.value)])
        if isinstance(e, ast.Call):
            f = e.func
            fname = f.id if isinstance(f, ast.Name) else (f.attr if isinstance(f, ast.Attribute) else None)
            ok, arg = self._ctor_call(e)
            if ok:
                out.append(self.new_sink("get_rng", e, True, self.value(arg) if arg is not None else ["none"]))
                return out
            if isinstance(f, ast.Attribute):
                if self._is_random_module(f.value):
                    out.append(self.new_sink("draw", e, False, ["global"]))
                else:
                    d = self.direct(f.value)
                    if d is not None:
                        out.append(self.new_sink("draw", e, False, d))
            if fname in INSPECT_ONLY:
                return out
            for kw in e.keywords:
                if kw.arg in SEED_NAMES:
                    d = self.direct(kw.value)
                    if d is not None or (isinstance(kw.value, ast.Constant) and kw.value.value is None):
                        out.append(self.new_sink("kw", e, True, self.value(kw.value)))
            for a in e.args:
                if isinstance(a, ast.Starred):
                    continue
                d = self.direct(a)
                if d is not None and not (isinstance(a, ast.Call) and d[0] == "draw"):
                    out.append(self.new_sink("pos", e, True, d))
        if isinstance(e, ast.Dict):
            for k, v in zip(e.keys, e.values):
                if isinstance(k, ast.Constant) and k.value in SEED_NAMES:
                    d = self.direct(v)
                    if d is not None or (isinstance(v, ast.Constant) and v.value is None):
                        out.append(self.new_sink("dict", e, True, self.value(v)))
        return out

    # ---------------------------------------------------------------- statements
    def test(self, t):
        """('none'|'truthy', var, negated) for the recognised tests on a tracked variable"""
        neg = False
        while isinstance(t, ast.UnaryOp) and isinstance(t.op, ast.Not):
            t, neg = t.operand, not neg
        if isinstance(t, ast.Compare) and len(t.ops) == 1 and isinstance(t.comparators[0], ast.Constant) \
                and t.comparators[0].value is None and isinstance(t.ops[0], (ast.Is, ast.IsNot)):
            v = self.var_of(t.left)
            if v is not None:
                return "none", v, neg != isinstance(t.ops[0], ast.IsNot)
        v = self.var_of(t)
        if v is not None:
            return "truthy", v, neg
        return None

    def branch(self, t, a, b):
        r = self.test(t)
        if r is None:
            return ite(a, b)
        kind, v, neg = r
        if neg:
            a, b = b, a
        return ["iteNone" if kind == "none" else "iteTruthy", v, a, b]

    def assign_targets(self, targets, val):
        if isinstance(val, ast.IfExp) and any(self.var_of(t) is not None for t in targets):
            # x = A if T else B   ==   if T: x = A  else: x = B
            return [self.branch(val.test, seq(*self.assign_targets(targets, val.body)),
                                seq(*self.assign_targets(targets, val.orelse)))]
        out = []
        for t in targets:
            v = self.var_of(t)
            if v is not None:
                out.append(["assign", v, self.value(val)])
            elif isinstance(t, (ast.Tuple, ast.List)) and isinstance(val, (ast.Tuple, ast.List)) and \
                    len(t.elts) == len(val.elts) and \
                    not any(isinstance(x, ast.Starred) for x in list(t.elts) + list(val.elts)) and \
                    not ({self.var_of(n) for x in t.elts for n in ast.walk(x)} - {None}) & \
                        ({self.var_of(n) for x in val.elts for n in ast.walk(x)} - {None}):
                # a, rng = x, get_rng(seed): element by element (the right-hand sides are evaluated
                # before any target is bound: only when no target occurs on the right)
                for te, ve in zip(t.elts, val.elts):
                    out.extend(self.assign_targets([te], ve))
            elif isinstance(t, (ast.Tuple, ast.List)):
                for el in ast.walk(t):
                    v2 = self.var_of(el)
                    if v2 is not None and isinstance(getattr(el, "ctx", None), ast.Store):
                        out.append(["assign", v2, ["both", self.value(val), ["const"]]])
            elif isinstance(t, ast.Subscript) and isinstance(t.slice, ast.Constant) and t.slice.value in SEED_NAMES:
                d = self.direct(val)
                if d is not None or (isinstance(val, ast.Constant) and val.value is None):
                    out.append(self.new_sink("dict", t, True, self.value(val)))
        return out

    def nested_tracked_assign(self, stmts):
        """an assignment to a tracked variable inside a compound statement of `stmts`"""
        for s in stmts:
            if isinstance(s, (ast.FunctionDef, ast.AsyncFunctionDef, ast.ClassDef)):
                continue
            subs = []
            for fld in ("body", "orelse", "finalbody"):
                subs.extend(getattr(s, fld, []) or [])
            for h in getattr(s, "handlers", []) or []:
                subs.extend(h.body)
            for c in getattr(s, "cases", []) or []:
                subs.extend(c.body)
            for sub in subs:
                for n in ast.walk(sub):
                    if isinstance(n, (ast.Assign, ast.AnnAssign, ast.AugAssign, ast.NamedExpr, ast.For)):
                        tg = n.targets if isinstance(n, ast.Assign) else [n.target]
                        for t in tg:
                            for el in ast.walk(t):
                                if self.var_of(el) is not None:
                                    return True
        return False

    def block(self, stmts):
        return seq(*[self.stmt(s) for s in stmts])

    def try_block(self, stmts):
        """the body of a `try`: an exception may leave it before / after any of its statements, so
        after each one the rest is either run or abandoned"""
        r = SKIP
        for s in reversed(stmts):
            r = ite(SKIP, seq(self.stmt(s), r))
        return r

    def stmt(self, s):
        if isinstance(s, ast.Assign):
            return seq(*self.sinks_of(s.value), *[u for t in s.targets for u in self.sinks_of(t)],
                       *self.assign_targets(s.targets, s.value))
        if isinstance(s, ast.AnnAssign):
            if s.value is None:
                return SKIP
            return seq(*self.sinks_of(s.value), *self.assign_targets([s.target], s.value))
        if isinstance(s, ast.AugAssign):
            v = self.var_of(s.target)
            pre = self.sinks_of(s.value)
            if v is not None:
                return seq(*pre, ["assign", v, ["both", ["var", v], self.value(s.value)]])
            return seq(*pre)
        if isinstance(s, ast.If):
            return seq(*self.sinks_of(s.test), self.branch(s.test, self.block(s.body), self.block(s.orelse)))
        if isinstance(s, (ast.For, ast.AsyncFor)):
            pre = self.sinks_of(s.iter)
            tg = []
            for el in ast.walk(s.target):
                v = self.var_of(el)
                if v is not None:
                    tg.append(["assign", v, ["both", self.value(s.iter), ["const"]]])
            return seq(*pre, loop(seq(*tg, self.block(s.body))), self.block(s.orelse))
        if isinstance(s, ast.While):
            pre = self.sinks_of(s.test)
            inner = self.block(s.body)
            if inner == SKIP and not pre:
                return self.block(s.orelse)
            body = seq(*pre, self.branch(s.test, inner, ["brk"]))
            return seq(loop(body), self.block(s.orelse))
        if isinstance(s, (ast.With, ast.AsyncWith)):
            pre = [u for it in s.items for u in self.sinks_of(it.context_expr)]
            return seq(*pre, self.block(s.body))
        if isinstance(s, ast.Try) or s.__class__.__name__ == "TryStar":
            pre = []
            if self.nested_tracked_assign(s.body):
                # an exception raised in the middle of a nested block would leave a state the
                # statement-level encoding below does not describe
                k = UNSUPPORTED + len(self.sinks)
                self.sinks.append({"k": k, "kind": "unsupported: generator variable assigned inside a compound "
                                                   "statement of a try body", "line": s.lineno, "node": s})
                pre = [["use", k, True, ["global"]]]
            hs = SKIP
            for h in reversed(s.handlers):
                hs = ite(self.block(h.body), hs)
            # (`else` runs only after a complete body; folding it into the interruptible body is an
            # over-approximation)
            return seq(*pre, self.try_block(list(s.body) + list(s.orelse)), hs, self.block(s.finalbody))
        if isinstance(s, ast.Return):
            return seq(*self.sinks_of(s.value), ["ret!"])
        if isinstance(s, ast.Raise):
            return seq(*self.sinks_of(s.exc), ["ret"])
        if isinstance(s, (ast.Break, ast.Continue)):
            return ["brk"]
        if isinstance(s, (ast.FunctionDef, ast.AsyncFunctionDef, ast.ClassDef)):
            return seq(*self.sinks_of(s))
        if s.__class__.__name__ == "Match":
            r = SKIP
            for c in reversed(s.cases):
                r = ite(self.block(c.body), r)
            return seq(*self.sinks_of(s.subject), r)
        # Expr, Assert, Delete, Import, Global, Pass, ...
        out = []
        for ch in ast.iter_child_nodes(s):
            if isinstance(ch, ast.expr):
                self.sinks_of(ch, out)
        return seq(*out)

    def build(self):
        pre = []
        a = self.fn.args
        allp = a.posonlyargs + a.args
        defaults = dict(zip([x.arg for x in allp[len(allp) - len(a.defaults):]], a.defaults))
        defaults.update({x.arg: d for x, d in zip(a.kwonlyargs, a.kw_defaults) if d is not None})
        for p in self.extra_params:
            d = defaults.get(p)
            pre.append(["assign", self.vars.index(p),
                        ["none"] if (isinstance(d, ast.Constant) and d.value is None) else ["const"]])
        body = self.block(self.fn.body)
        assigned_attrs = set()
        for node in ast.walk(self.fn):
            if isinstance(node, (ast.Assign, ast.AnnAssign)):
                for t in (node.targets if isinstance(node, ast.Assign) else [node.target]):
                    k = self.key_of(t)
                    if k and k.startswith("self.") and k in self.vars:
                        assigned_attrs.add(k)
        post = list(self.late)
        if self.is_init:
            for k in sorted(assigned_attrs):
                post.append(self.new_sink("attr-exit", self.fn, True, ["var", self.vars.index(k)]))
        attrs = [i for i, nm in enumerate(self.vars)
                 if nm.startswith("self.") and not (self.is_init and nm in assigned_attrs)]
        # the sinks of nested functions and the attribute checks of `__init__` are evaluated at every
        # `return` and at the end of the body
        def at_exit(st):
            if st == ["ret!"]:
                return seq(*post, ["ret"])
            if st[0] in ("seq", "ite"):
                return [st[0], at_exit(st[1]), at_exit(st[2])]
            if st[0] in ("iteNone", "iteTruthy"):
                return [st[0], st[1], at_exit(st[2]), at_exit(st[3])]
            if st[0] == "loop":
                return ["loop", at_exit(st[1])]
            return st
        return {"nvars": len(self.vars), "attrs": attrs, "body": seq(*pre, at_exit(body), *post),
                "vars": list(self.vars), "sinks": self.sinks}


def skeleton(fn_node, seed_param, attr_names, is_init, imports=None):
    return Skel(fn_node, seed_param, attr_names, is_init, imports).build()


def trivial(sk):
    """no sink at all: nothing to check"""
    return not sk["sinks"]


# ------------------------------------------------------------------------------------------------
# mirror of Cotengra.RFlow.analyse  (values are 4-tuples of bools: gT, gF, bd, nn)
TOP = (True, True, True, True)
BOT = (False, False, False, False)
DEAD = (False, [])


def v_join(a, b):
    return tuple(x or y for x, y in zip(a, b))


def v_le(a, b):
    return all((not x) or y for x, y in zip(a, b))


def s_get(s, x):
    return s[1][x] if x < len(s[1]) else TOP


def s_set(s, x, v):
    if x < len(s[1]):
        vals = list(s[1])
        vals[x] = v
        return (s[0], vals)
    return s


def s_join(a, b):
    if not a[0]:
        return b
    if not b[0]:
        return a
    return (True, [v_join(x, y) for x, y in zip(a[1], b[1])])


def s_le(a, b):
    return (not a[0]) or (b[0] and len(a[1]) == len(b[1]) and
                          all(v_le(s_get(a, x), s_get(b, x)) for x in range(len(a[1]))))


def eval_a(s, e):
    t = e[0]
    if t == "var":
        return s_get(s, e[1])
    if t == "none":
        return (False, False, False, True)
    if t == "global":
        return (False, False, True, False)
    if t == "const":
        return (True, True, False, False)
    if t == "getRng":
        a = eval_a(s, e[1])
        return (a[0] or a[1], False, a[2] or a[3], False)
    if t == "draw":
        a = eval_a(s, e[1])
        return (a[0] or a[1], a[0] or a[1], a[2], False)
    if t == "or":
        a, b = eval_a(s, e[1]), eval_a(s, e[2])
        fall = a[1] or a[3] or a[2]
        return (a[0] or (fall and b[0]), fall and b[1], a[2] or (fall and b[2]), fall and b[3])
    if t == "choice":
        return v_join(eval_a(s, e[1]), eval_a(s, e[2]))
    if t == "both":
        a, b = eval_a(s, e[1]), eval_a(s, e[2])
        g = (a[0] or a[1]) and (b[0] or b[1])
        abot, bbot = a == BOT, b == BOT
        return (g, g, ((a[2] or a[3]) and not bbot) or ((b[2] or b[3]) and not abot), False)
    raise ValueError(t)


def refine(s, x, keep):
    v = s_get(s, x)
    w = tuple(a and b for a, b in zip(v, keep))
    if w == BOT:
        return DEAD
    return s_set(s, x, w)


LOOP_SENTINEL = 1000000


def _iter(f, n, i):
    while n > 0:
        j = f(i)
        if s_le(j, i):
            return i
        i = s_join(i, j)
        n -= 1
    return i


def analyse(st, s):
    """-> (bad sinks, norm state, brk state)"""
    t = st[0]
    if t == "skip":
        return [], s, DEAD
    if t == "assign":
        return [], (s_set(s, st[1], eval_a(s, st[2])) if s[0] else s), DEAD
    if t == "use":
        v = eval_a(s, st[3])
        ok = (not s[0]) or ((not v[2]) and ((not st[2]) or (not v[3])))
        return ([] if ok else [st[1]]), s, DEAD
    if t == "seq":
        b1, n1, k1 = analyse(st[1], s)
        b2, n2, k2 = analyse(st[2], n1)
        return b1 + b2, n2, s_join(k1, k2)
    if t == "ite":
        b1, n1, k1 = analyse(st[1], s)
        b2, n2, k2 = analyse(st[2], s)
        return b1 + b2, s_join(n1, n2), s_join(k1, k2)
    if t in ("iteNone", "iteTruthy"):
        ka, kb = ((False, False, False, True), (True, True, True, False)) if t == "iteNone" else \
            ((True, False, True, False), (False, True, True, True))
        b1, n1, k1 = analyse(st[2], refine(s, st[1], ka) if s[0] else s)
        b2, n2, k2 = analyse(st[3], refine(s, st[1], kb) if s[0] else s)
        return b1 + b2, s_join(n1, n2), s_join(k1, k2)
    if t == "loop":
        def f(i):
            _, n, k = analyse(st[1], i)
            return s_join(n, k)
        inv = _iter(f, 4 * len(s[1]) + 2, s)
        b, n, k = analyse(st[1], inv)
        return b + ([] if s_le(s_join(n, k), inv) else [LOOP_SENTINEL]), inv, DEAD
    if t == "brk":
        return [], DEAD, s
    if t == "ret":
        return [], DEAD, DEAD
    raise ValueError(t)


def init_state(nvars, attrs):
    vals = []
    for x in range(nvars):
        if x == 0:
            vals.append((True, True, False, False))
        elif x in attrs:
            vals.append((True, False, False, False))
        else:
            vals.append(BOT)
    return (True, vals)


def bad_sinks(sk):
    return analyse(sk["body"], init_state(sk["nvars"], sk["attrs"]))[0]


# ------------------------------------------------------------------------------------------------
def expr_lean(e):
    t = e[0]
    if t == "var":
        return f"(.var {e[1]})"
    if t == "none":
        return ".none"
    if t == "global":
        return ".globalMod"
    if t == "const":
        return ".const"
    nm = {"getRng": "getRng", "draw": "draw", "or": "orElse", "choice": "choice", "both": "both"}[t]
    return "(." + nm + " " + " ".join(expr_lean(x) for x in e[1:]) + ")"


def stmt_lean(s, ind=4):
    t = s[0]
    pad = " " * ind
    if t == "skip":
        return pad + ".skip"
    if t == "brk":
        return pad + ".brk"
    if t == "ret":
        return pad + ".ret"
    if t == "assign":
        return f"{pad}(.assign {s[1]} {expr_lean(s[2])})"
    if t == "use":
        return f"{pad}(.use {s[1]} {'true' if s[2] else 'false'} {expr_lean(s[3])})"
    if t == "seq":
        # flatten right-nested sequences for readability
        items = []
        while s[0] == "seq":
            items.append(s[1])
            s = s[2]
        items.append(s)
        out = ""
        for it in items[:-1]:
            out += f"{pad}(.seq\n{stmt_lean(it, ind + 1)}\n"
        out += stmt_lean(items[-1], ind + 1) + ")" * (len(items) - 1)
        return out
    if t in ("ite", "loop"):
        return f"{pad}(.{t}\n" + "\n".join(stmt_lean(x, ind + 1) for x in s[1:]) + ")"
    if t in ("iteNone", "iteTruthy"):
        return f"{pad}(.{t} {s[1]}\n" + "\n".join(stmt_lean(x, ind + 1) for x in s[2:]) + ")"
    raise ValueError(t)
