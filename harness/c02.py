"""C02 -- tree transformations never change the value the tree computes.

After every prefix of a random history over the public tree transformations, interleaved with
contractions (which cache per-node recipes) and cost queries:
  (iii) oracle, implementation only: `tree.contract(integer arrays, options)` equals the dense
        reference einsum (harness/refimpl.py), entry by entry and in the declared axis order; for
        projected indices the corresponding fixed-index section (size-1 axis if it is an output index).
        Checked both on the live tree (explicit `contract` steps, which populate the caches that
        later steps must keep coherent) and on a copy of the live tree after every other step.
  (A)   the program `extract_contractions` yields for the current tree is certified by the Lean
        checker `Admissible net removed tree program` (builder of C01; soundness is a theorem), with
        `removed` = the currently sliced/projected indices;
  (E)   the Lean model of the cache discipline (Model/RecipeCache.lean) replays the history's
        invalidation events and must agree with the real tree on which nodes may keep recipes.
"""

import json
import os
import sys

import numpy as np

import cotengra as ctg

from . import c01, common, gen, refimpl, treehist

cmod = sys.modules["cotengra.contract"]

PROP = "C02"
LEVEL = "proof"
LEVEL_TEXT = ("Lean 4 theorems: (1) Props/C02.lean recipes_coherent_all_histories -- in the model of the per-node "
              "recipe caches (Model/RecipeCache.lean: which of inds / einsum_eq / can_dot / tensordot_axes / "
              "tensordot_perm are cached at each node, written against which index orders; the invalidation done by "
              "remove_ind, restore_ind, node re-creation, sort/reset_contraction_indices, get_contractor) every "
              "reachable state is coherent: a cached recipe agrees with the current index order of the node and its "
              "children, for every history; (2) with C01's admissible_sound a coherent state extracts an Admissible "
              "program, whose value is the einsum (per slice) -- so the value is unchanged by any history; (3) C06's "
              "gather theorems assemble the slices. The tie on every run: after every prefix of random histories over "
              "all public transformations the REAL program is certified by the Lean checker and the REAL contraction "
              "of integer arrays is compared with an independent dense reference, on the live tree and on copies.")
LEVEL_NOTE = ("Trusted: Lean kernel; the cache-discipline model (validated against dumps of the real info dicts); C01's "
              "array-primitive model; inner optimizers/PRNG as oracles; pools run with parallel=False; integer arrays "
              "(no float rounding).")
TECHNIQUE = ("Lean 4 invariant proof over the recipe-cache state machine + C01's verified certificate checker on the "
             "real programs after every step + differential value check against a dense reference")
LEAN_MODULES = ["CotengraVerif.Props.C02", "CotengraVerif.Props.C02Facts", "CotengraVerif.Props.C02Value"]
THEOREMS = [
    "Cotengra.C02.coherent_init",
    "Cotengra.C02.coherent_getInds",
    "Cotengra.C02.coherent_getRecipe",
    "Cotengra.C02.recipe_matches_final_inds",
    "Cotengra.C02.coherent_step",
    "Cotengra.C02.reachable_coherent",
    "Cotengra.C02.unfixed_counterexample",
    "Cotengra.C02.mutators_end_with_reset",
    "Cotengra.C02.mutators_nonempty",
    "Cotengra.C02.transformation_preserves_value",
]
TRUSTED = [
    "Lean 4.33 kernel; axioms ⊆ {propext, Classical.choice, Quot.sound}",
    "Model/RecipeCache.lean abstracts a recipe to the index orders it was computed against",
    "C01: Admissible checker (sound by theorem) + functional-array model of numpy primitives",
]
ASSUMPTIONS = ["integer arrays; numpy backend; parallel=False; N >= 2; output duplicate-free"]
RULE = ("random networks x random initial trees x random histories over the public transformations + contract steps "
        "with random options (order, prefer_einsum, implementation); one case = one history prefix; non-trivial = "
        "prefix has a structure/slice/sort op and the tree has >= 3 tensors; distinct by content hash")
BUDGET = {"quick": 900, "thorough": 3600}

OPS = tuple(k for k in treehist.PUBLIC_OPS if k != "manual") + ("contract", "contract", "contract", "contract", "sort", "sort")


# ---------------------------------------------------------------------------------------------
# (F) source-derived fact table: which functions change nodes / index orders, and do they reset?
# ---------------------------------------------------------------------------------------------

RECIPE_KEYS = {"einsum_eq", "can_dot", "tensordot_axes", "tensordot_perm"}
RESET_PRIMS = {"_reset_contraction_recipes", "reset_contraction_indices"}


def _scan_function(fn):
    """(changes nodes or index orders?, calls _reset_contraction_recipes?) for one FunctionDef"""
    import ast
    changes, resets = False, False
    for node in ast.walk(fn):
        if isinstance(node, ast.Call) and isinstance(node.func, ast.Attribute):
            if node.func.attr == "_remove_node":
                changes = True
            if node.func.attr == "_reset_contraction_recipes":
                resets = True
        # info[...]["inds"] = ...
        if isinstance(node, (ast.Assign, ast.AugAssign)):
            targets = node.targets if isinstance(node, ast.Assign) else [node.target]
            for t in targets:
                if isinstance(t, ast.Subscript) and isinstance(t.slice, ast.Constant) and t.slice.value == "inds":
                    changes = True
        # for k in (..., "inds", ...): ....pop(k, None)
        if isinstance(node, ast.For) and isinstance(node.iter, (ast.Tuple, ast.List)):
            vals = {e.value for e in node.iter.elts if isinstance(e, ast.Constant)}
            if "inds" in vals:
                changes = True
    return changes, resets


def extract_facts():
    import ast
    rows = []
    src = open(os.path.join(common.REPO, "cotengra", "core.py")).read()
    mod = ast.parse(src)
    for cls in [n for n in mod.body if isinstance(n, ast.ClassDef) and n.name == "ContractionTree"]:
        for fn in cls.body:
            if isinstance(fn, ast.FunctionDef):
                ch, rs = _scan_function(fn)
                rows.append(("ContractionTree." + fn.name, ch, rs, fn.name in RESET_PRIMS or fn.name == "_remove_node"))
    src2 = open(os.path.join(common.REPO, "cotengra", "pathfinders", "path_simulated_annealing.py")).read()
    for fn in ast.parse(src2).body:
        if isinstance(fn, ast.FunctionDef):
            ch, rs = _scan_function(fn)
            if ch or rs:
                rows.append(("path_simulated_annealing." + fn.name, ch, rs, False))
    # the reset primitive itself must drop every derived recipe key for every node
    helper_ok = False
    for cls in [n for n in mod.body if isinstance(n, ast.ClassDef) and n.name == "ContractionTree"]:
        for fn in cls.body:
            if isinstance(fn, ast.FunctionDef) and fn.name == "_reset_contraction_recipes":
                keys = set()
                clears = False
                for node in ast.walk(fn):
                    if isinstance(node, ast.For) and isinstance(node.iter, (ast.Tuple, ast.List)):
                        keys |= {e.value for e in node.iter.elts if isinstance(e, ast.Constant)}
                    if isinstance(node, ast.Call) and isinstance(node.func, ast.Attribute) and \
                            node.func.attr == "clear" and isinstance(node.func.value, ast.Attribute) and \
                            node.func.value.attr == "contraction_cores":
                        clears = True
                helper_ok = RECIPE_KEYS <= keys and clears
    return rows, helper_ok


def gen_facts():
    rows, helper_ok = extract_facts()
    lines = ["/- GENERATED by harness/c02.py from /repo/cotengra (core.py, path_simulated_annealing.py) on every run.",
             "   One row per function: (name, changes nodes or index orders, calls _reset_contraction_recipes,",
             "   is itself a primitive / the reset). -/",
             "namespace Cotengra.C02.Facts", "",
             "structure Row where", "  name : String", "  changes : Bool", "  resets : Bool", "  primitive : Bool",
             "deriving DecidableEq, Repr", "",
             "def rows : List Row := ["]
    body = []
    for name, ch, rs, prim in rows:
        if ch or rs:
            body.append('  ⟨"%s", %s, %s, %s⟩' % (name, str(ch).lower(), str(rs).lower(), str(prim).lower()))
    lines.append(",\n".join(body))
    lines += ["]", "", "/-- `_reset_contraction_recipes` pops every derived recipe key and clears the compiled cores -/",
              "def helperDropsAllRecipes : Bool := %s" % str(helper_ok).lower(), "",
              "end Cotengra.C02.Facts", ""]
    return {"CotengraVerif/Generated/FactsC02.lean": "\n".join(lines)}


def dump_recipes(tree, net):
    us = gen.unsym(net)

    def inds_of(node):
        v = tree.info.get(node, {}).get("inds")
        return None if v is None else [us[c] for c in v]

    rows = []
    for p, (l, r) in tree.children.items():
        info = tree.info[p]
        row = {"p": sorted(p), "inds": inds_of(p), "l_inds": inds_of(l), "r_inds": inds_of(r)}
        if "einsum_eq" in info:
            terms, out = c01.parse_eq(info["einsum_eq"])
            row["einsum_eq"] = [terms[0], terms[1], out]
        if "tensordot_axes" in info:
            row["tensordot_axes"] = [list(map(int, a)) for a in info["tensordot_axes"]]
        if "tensordot_perm" in info:
            pm = info["tensordot_perm"]
            row["tensordot_perm"] = None if pm is None else list(map(int, pm))
        rows.append(row)
    return rows


def contract_opts(rng):
    return {"order": rng.choice(["dfs", "dfs", "len", "random"]), "prefer_einsum": rng.random() < 0.4,
            "impl": rng.choice([None, "cotengra", "autoray"]),
            # mantissa x 10**exponent is the same value (a zero-valued slice gives nan without check_zero: C19's
            # known finding, so the zero check is always on here)
            "strip": rng.random() < 0.2}


def make_case(rng, tier):
    nmax = 6 if tier == "quick" else 8
    net = gen.rand_net(rng, nmin=3, nmax=nmax, max_inds=8, dims=(1, 2, 2, 3),
                       kinds=("bond", "bond", "hyper", "dangling", "out1", "outk", "all", "repeated", "batch"),
                       max_total=3000)
    tree = gen.rand_tree(rng, len(net.inputs))
    L = rng.randint(1, 7 if tier == "quick" else 16)
    if rng.random() < 0.35:
        # words known to be delicate for cached recipes: a contraction (which caches), then an
        # operation that re-creates or re-orders nodes, then a contraction with other options
        tmpl = rng.choice([
            ["slice", "sort", "contract", "restore", "contract"],
            ["sort", "contract", "slice", "contract"],
            ["sort", "contract", "project", "contract"],
            ["contract", "reconf", "contract"],
            ["contract", "sort", "contract"],
            ["contract", "anneal", "contract"],
            ["slice", "slice", "sort", "contract", "restore", "contract", "restore", "contract"],
            ["sort", "contract", "slice_auto", "contract", "unslice_all", "contract"],
            ["contract", "forest", "contract"],
            ["sort", "contract", "copy", "slice", "contract"],
            # recipes filled by *queries* only (nothing compiled, `contraction_cores` empty), then a short
            # transformation that re-creates few nodes, then a contraction
            ["recipes", "anneal-short", "contract"],
            ["sort", "recipes", "anneal-short", "contract"],
            ["recipes", "temper-short", "contract"],
            ["recipes", "reconf", "contract"],
            ["slice", "recipes", "anneal-short", "restore", "contract"],
        ])
        hist = []
        for k in tmpl:
            if k == "recipes":
                hist.append({"k": "stats", "seed": rng.randrange(1 << 30), "which": "recipes"})
            elif k == "anneal-short":
                h1 = treehist.gen_history(rng, net, 1, ops=("anneal",))
                h1[0].update(tsteps=1, numiter=rng.choice([1, 1, 2]))
                hist += h1
            elif k == "temper-short":
                h1 = treehist.gen_history(rng, net, 1, ops=("temper",))
                h1[0].update(tsteps=1, numiter=1, div=None, parallel_slice_mode="temperature")
                hist += h1
            else:
                hist += treehist.gen_history(rng, net, 1, ops=(k,))
        hist += treehist.gen_history(rng, net, rng.randint(0, 2), ops=OPS)
    else:
        hist = treehist.gen_history(rng, net, L, ops=OPS)
    for op in hist:
        if op["k"] == "contract":
            op.update(contract_opts(rng))
    return {"net": net.json(), "tree": tree, "history": hist, "seed": rng.randrange(1 << 30),
            "final": contract_opts(rng), "alphabet": rng.choice(gen.ALPHABETS)}


def reference(net, arrays, tree):
    fixed = {}
    us = gen.unsym(net)
    for ix, si in tree.sliced_inds.items():
        if si.project is not None:
            fixed[us[ix]] = si.project
    return refimpl.dense_einsum(net.inputs, net.output, net.sizes, arrays, fixed=fixed)


def do_contract(tree, arrays, o, seed):
    order = c01.make_order(o["order"], seed)
    if o.get("strip"):
        m, e = tree.contract([np.asarray(a, dtype=float) for a in arrays], order=order,
                             prefer_einsum=o["prefer_einsum"], implementation=o["impl"],
                             strip_exponent=True, check_zero=True)
        if float(e) == float("-inf"):
            # `check_zero` met an all-zero intermediate: the documented answer is the pair (0.0, -inf), a scalar
            # standing for the all-zero result
            return "ALLZERO"
        # integer inputs of small magnitude: the exact value is recovered by rounding
        return np.rint(np.asarray(m, dtype=float) * 10.0 ** float(e)).astype(np.int64)
    return tree.contract(arrays, order=order, prefer_einsum=o["prefer_einsum"], implementation=o["impl"])


def value_ok(tree, net, arrays, o, seed):
    oshape, res = reference(net, arrays, tree)
    try:
        x = do_contract(tree, arrays, o, seed)
    except Exception as e:
        return "raises %s: %s" % (type(e).__name__, str(e)[:100])
    if isinstance(x, str) and x == "ALLZERO":
        return None if all(int(v) == 0 for v in res.values()) else "(0.0, -inf) returned for a non-zero result"
    return c01.compare_with_reference(x, oshape, res)


def sig(prefix, kind):
    kinds = [o["k"] for o in prefix]
    return {"site": "tree-history", "kind": kind,
            "has_sort": "sort" in kinds, "has_anneal": any(k.startswith("anneal") or k == "temper" for k in kinds),
            "has_reconf": any(k in ("reconf", "forest", "manual", "nonplace_reconf", "slice_reconf",
                                    "slice_reconf_forest") for k in kinds)}


def run_case(ctx, drv, case, check_model=True):
    gen.set_alphabet(case.get("alphabet", "ascii"), case.get("seed", 0))
    ctx.count("alphabet:" + case.get("alphabet", "ascii"))
    net = gen.Net.from_json(case["net"])
    tree = gen.real_tree(ctg, net, case["tree"])
    arrays = c01.int_arrays(net, case["seed"])
    prefix = []
    STRUCT = {"slice", "project", "restore", "unslice_rand", "unslice_all", "reconf", "forest", "anneal",
              "anneal_slice", "temper", "slice_auto", "slice_reconf", "slice_reconf_forest", "manual",
              "nonplace_slice", "nonplace_reconf", "sort", "reset"}
    hist = list(case["history"]) + [{"k": "contract", "seed": case["seed"], **case["final"]}]
    for op in hist:
        bad = None
        if op["k"] == "contract":
            ctx.count("op:contract")
            bad = value_ok(tree, net, arrays, op, op["seed"])
            where = "live"
        else:
            try:
                tree, _ = treehist.apply_op(tree, net, op)
                ctx.count("op:" + op["k"])
            except treehist.Rejected:
                ctx.count("rejected:" + op["k"])
                continue
            except treehist.Aborted as e:
                ctx.count("aborted:" + op["k"] + ":" + e.kind.split(":")[0])
                tree = e.tree
            except Exception as e:
                ctx.violation(sig(prefix + [op], "raised:" + type(e).__name__),
                              {"case": {**case, "history": prefix + [op]}, "error": repr(e)[:300]},
                              f"{op['k']} raised {type(e).__name__} after {[o['k'] for o in prefix]}")
                return False
        prefix.append(op)
        ctx.case({"net": case["net"], "tree": case["tree"], "prefix": prefix},
                 nontrivial=any(o["k"] in STRUCT for o in prefix), sample=len(prefix) >= 3)
        if bad is None and op["k"] != "contract" and tree.is_complete():
            # value on a copy, so that the live caches are not touched by the check itself
            o2 = {"order": "dfs", "prefer_einsum": bool(op["seed"] & 1), "impl": None}
            bad = value_ok(tree.copy(), net, arrays, o2, op["seed"])
            where = "copy"
        if bad is not None:
            ctx.violation(sig(prefix, "value"),
                          {"case": {**case, "history": list(prefix), "final": None}, "observed": bad, "where": where},
                          f"after {[o['k'] for o in prefix]}: contraction differs from the reference ({bad})")
            return False
        if not check_model or not tree.is_complete():
            continue
        # ---- (A'): the invariant C02.Coherent evaluated on the raw info dicts of the live tree ----
        rr = drv.call("c02.coherent", nodes=dump_recipes(tree, net))
        ctx.traces += 1
        if "error" in rr:
            ctx.corr_broken("driver error " + rr["error"], None)
        elif rr["bad"]:
            ctx.count("incoherent_dump")
            ctx.corr_broken("cached recipes of the live tree are not the recipes of its cached index orders: %s"
                            % json.dumps(rr["bad"][:2]), {"case": {**case, "history": list(prefix)}})
        else:
            ctx.count("coherent_dump")
            ctx.count("cached_recipes", sum(1 for r in dump_recipes(tree, net) if "einsum_eq" in r or "tensordot_axes" in r))
        # ---- (A): the real program of the current tree is certified by the Lean checker ------
        tc = tree.copy()
        us = gen.unsym(net)
        removed = [us[i] for i in tc.sliced_inds]
        pe = bool(op["seed"] & 2)
        try:
            prog = c01.serialise_program(cmod.extract_contractions(tc, None, pe))
        except Exception as e:
            ctx.corr_broken("extract_contractions raised " + repr(e)[:100], {"case": case, "prefix": prefix})
            continue
        resp = drv.call("c01.admissible", net=case["net"], removed=removed, tree=gen.bt_of_real(tc), program=prog)
        ctx.traces += 1
        if "error" in resp:
            ctx.corr_broken("driver error " + resp["error"], None)
        elif not resp["admissible"]:
            ctx.corr_broken("real program of the transformed tree rejected by the Lean checker: %s" % resp["why"],
                            {"case": {**case, "history": list(prefix)}})
        else:
            ctx.count("admissible")
    return True


def replay_corpus(ctx, drv):
    cdir = os.path.join(common.VERIF, "corpus", PROP)
    if not os.path.isdir(cdir):
        return
    for fn in sorted(os.listdir(cdir)):
        obj = json.load(open(os.path.join(cdir, fn)))
        ctx.count("corpus")
        case = obj.get("replay", obj)["case"]
        if case.get("final") is None:
            case["final"] = {"order": "dfs", "prefer_einsum": False, "impl": None}
        run_case(ctx, drv, case)


def run(ctx, drv):
    replay_corpus(ctx, drv)
    ncases = 300 if ctx.tier == "quick" else 5000
    for _ in range(ncases):
        if ctx.time_left() < 10:
            break
        run_case(ctx, drv, make_case(ctx.rng, ctx.tier))


def search(ctx):
    for _ in range(3000):
        if ctx.time_left() < 10:
            break
        if not run_case(ctx, None, make_case(ctx.rng, "thorough"), check_model=False):
            return True
    return False


def replay(ctx, obj):
    c2 = common.Ctx(PROP, "quick", 0)
    c2.violation = lambda *a, **k: True
    case = dict(obj["case"])
    if case.get("final") is None:
        case["final"] = {"order": "dfs", "prefer_einsum": False, "impl": None}
    return run_case(c2, None, case, check_model=False)
