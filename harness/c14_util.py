"""Shared machinery of the C14 / C15 checks (reusable optimizers, on-disk cache).

  * scripted sub-optimizers: `ReusableHyperOptimizer` / `ReusableRandomGreedyOptimizer` subclasses that
    override *only* `_get_suboptimizer`, so that what a "search" finds (tree, sliced indices, score)
    is dictated by the harness; hashing, policy, DiskDict, _deconstruct_tree and _reconstruct_tree
    are the real code
  * sessions: one optimizer object answering a list of queries, executed in a *child process*
    (fork from the pristine harness process, or a completely fresh interpreter)
  * crash injection for the writer, from the harness side only: audit hook (kills the process
    before the b-th file-system call under the cache directory), wrapped file object (kills it
    after k bytes), RLIMIT_FSIZE (the kernel kills it at byte k)
  * directory snapshots
"""

import json
import os
import pickle
import subprocess
import sys

from . import common  # noqa: F401  (puts the repo under test on sys.path)

import cotengra as ctg
from cotengra.core import ContractionTree
from cotengra.hyperoptimizers.hyper import ReusableHyperOptimizer
from cotengra.pathfinders.path_basic import ReusableRandomGreedyOptimizer
from cotengra.reusable import hash_contraction

from . import gen

VERIF = common.VERIF


# ---------------------------------------------------------------------------------------------
# scripted sub-optimizers


class Script:
    """what the next search will find; number of searches performed in this process"""
    current = None
    searches = 0


class ScriptedSub:
    minimize = "flops"

    def __init__(self):
        self.tree = None
        self.best_flops = None

    def search(self, inputs, output, size_dict):
        ans = Script.current
        Script.searches += 1
        n = len(inputs)
        ssa = gen.tree_to_ssa(ans["tree"], n) if n > 1 else []
        tree = ContractionTree.from_path(inputs, output, size_dict, ssa_path=ssa)
        for ix in ans.get("sliced", ()):
            tree.remove_ind_(ix)
        self.tree = tree
        self.best_flops = ans.get("flops", 0)
        return tree

    def __call__(self, inputs, output, size_dict, **kw):
        return self.search(inputs, output, size_dict).get_path()


class ScriptedHyper(ReusableHyperOptimizer):
    def _get_suboptimizer(self):
        return ScriptedSub()


class ScriptedRG(ReusableRandomGreedyOptimizer):
    def _get_suboptimizer(self):
        return ScriptedSub()


class CountingMixin:
    """real sub-optimizer, searches counted"""

    def _get_suboptimizer(self):
        Script.searches += 1
        return super()._get_suboptimizer()


class RealHyper(CountingMixin, ReusableHyperOptimizer):
    pass


class RealRG(CountingMixin, ReusableRandomGreedyOptimizer):
    pass


def make_optimizer(cfg):
    kw = dict(directory=cfg.get("directory"), overwrite=cfg.get("overwrite", False),
              cache_only=cfg.get("cache_only", False))
    # "default" = the argument is not passed at all: the constructor's own default applies
    if cfg.get("hash_method", "a") != "default":
        kw["hash_method"] = cfg.get("hash_method", "a")
    if cfg.get("split", "auto") != "default":
        kw["directory_split"] = cfg.get("split", "auto")
    cls = cfg.get("cls", "hyper")
    if cls == "hyper":
        return ScriptedHyper(**kw)
    if cls == "rg":
        return ScriptedRG(**kw)
    if cls == "real-hyper":
        return RealHyper(max_repeats=4, methods=["greedy"], optlib="random", progbar=False, parallel=False, **kw)
    if cls == "real-rg":
        return RealRG(max_repeats=4, seed=7, parallel=False, **kw)
    raise ValueError(cls)


def key_of(cfg, q, split, method=None):
    """the key the optimizer uses; `method` = the optimizer's actual hash method when the
    configuration leaves it to the constructor's default"""
    m = cfg.get("hash_method", "a")
    if m == "default":
        m = method or "a"
    h = hash_contraction(q["inputs"], q["output"], q["sizes"], m)
    return (h[:2], h[2:]) if split else h


def tree_struct(tree):
    """canonical structure of a real tree: sorted list of the leaf sets of its internal nodes"""
    return sorted(sorted(node) for node in tree.children)


def path_struct(q, path):
    """structure of the tree a stored linear path denotes for query q (harness-side reading)"""
    t = ContractionTree.from_path(q["inputs"], q["output"], q["sizes"], path=path, autocomplete=True)
    return tree_struct(t)


def _jsonable(x):
    if isinstance(x, (tuple, list)):
        return [_jsonable(y) for y in x]
    if isinstance(x, dict):
        return {str(k): _jsonable(v) for k, v in x.items()}
    if isinstance(x, (int, str, bool)) or x is None:
        return x
    if isinstance(x, float):
        return x
    return repr(x)


def _as_query(q):
    return {"inputs": tuple(tuple(t) for t in q["inputs"]), "output": tuple(q["output"]),
            "sizes": dict(q["sizes"])}


def con_summary(q, con):
    try:
        st = path_struct(q, con["path"])
    except Exception:  # noqa: BLE001  (a path stored for another number of tensors)
        st = None
    return {"struct": st, "path": _jsonable(con["path"]),
            "score": float(con["score"]), "sliced": sorted(con["sliced_inds"])}


def disk_entry(cfg, q, k):
    """the entry file of key `k`, unpickled by the harness itself (None if absent/unreadable)"""
    d = cfg.get("directory")
    if not d:
        return None
    p = os.path.join(d, *k) if isinstance(k, tuple) else os.path.join(d, k)
    try:
        with open(p, "rb") as f:
            return con_summary(q, pickle.load(f))
    except Exception:  # noqa: BLE001
        return None


_HOLDERS = {}


def _call_args(opt, cfg, q):
    """the three objects handed to the optimizer. With `same_objects` the caller keeps ONE inputs list, ONE output
    list and ONE size dict for all its queries and updates them in place between queries (a sweep over bond
    dimensions or networks): the optimizer must look at their contents, not at their identity."""
    if not cfg.get("same_objects"):
        return q["inputs"], q["output"], q["sizes"]
    h = _HOLDERS.setdefault(id(opt), ([], [], {}))
    h[0][:] = list(q["inputs"])
    h[1][:] = list(q["output"])
    h[2].clear()
    h[2].update(q["sizes"])
    return h


def observe_op(opt, cfg, op):
    """Run one query on `opt`; return the observation (JSON-able dict)."""
    q = _as_query(op["q"])
    Script.current = op.get("ans")
    before = Script.searches
    obs = {"api": op.get("api", "search")}
    actual = getattr(opt, "_hash_method", None)
    k0 = key_of(cfg, q, opt.directory_split, actual)
    obs["disk_before"] = disk_entry(cfg, q, k0)
    try:
        if obs["api"] == "update":
            # explicit `update_from_tree(tree, overwrite=...)` with a tree built by the harness
            ans = op["ans"]
            n = len(q["inputs"])
            tree = ContractionTree.from_path(q["inputs"], q["output"], q["sizes"],
                                             ssa_path=gen.tree_to_ssa(ans["tree"], n) if n > 1 else [])
            for ix in ans.get("sliced", ()):
                tree.remove_ind_(ix)
            obs["update_con"] = con_summary(q, {"path": tree.get_path(), "score": tree.get_score(),
                                                "sliced_inds": tuple(tree.sliced_inds)})
            opt.update_from_tree(tree, overwrite=op["overwrite"])
            obs["outcome"] = "ok"
        elif obs["api"] == "call":
            path = opt(*_call_args(opt, cfg, q))
            obs["outcome"] = "ok"
            obs["path"] = _jsonable(path)
            obs["struct"] = path_struct(q, path)
        else:
            tree = opt.search(*_call_args(opt, cfg, q))
            obs["outcome"] = "ok"
            obs["tree"] = {
                "inputs": _jsonable(tree.inputs), "output": _jsonable(tree.output),
                "sizes": sorted([k, int(v)] for k, v in tree.size_dict.items()),
                "N": tree.N, "complete": bool(tree.is_complete()),
                "sliced": sorted(tree.sliced_inds), "path": _jsonable(tree.get_path()),
                "score": float(tree.get_score()),
                "flops": int(tree.contraction_cost()) if tree.is_complete() else None,
            }
            obs["struct"] = tree_struct(tree)
    except KeyError as e:
        obs["outcome"] = "KeyError"
        obs["msg"] = str(e)[:80]
    except Exception as e:  # noqa: BLE001
        obs["outcome"] = "raised:" + type(e).__name__
        obs["msg"] = str(e)[:200]
    obs["searches"] = Script.searches - before
    obs["disk_after"] = disk_entry(cfg, q, k0)
    obs["searched_con"] = None
    if obs["searches"]:
        try:
            last = opt.last_opt
            obs["searched_con"] = con_summary(q, opt._deconstruct_tree(last, last.tree))
        except Exception as e:  # noqa: BLE001
            obs["searched_con"] = {"error": repr(e)[:100]}
    # the stored entry of this query's key, as this process' DiskDict now sees it
    split = opt.directory_split
    k = key_of(cfg, q, split, actual)
    obs["key"] = "/".join(k) if isinstance(k, tuple) else k
    try:
        mem = opt._cache[k]
    except Exception:  # noqa: BLE001
        mem = None
    obs["stored"] = None if mem is None else con_summary(q, mem)
    return obs


def job_session(cfg, ops):
    """One process, one optimizer object, a list of queries."""
    import warnings
    warnings.simplefilter("ignore")
    Script.searches = 0
    opt = make_optimizer(cfg)
    out = [observe_op(opt, cfg, op) for op in ops]
    return {"split": bool(opt.directory_split), "obs": out}


def job_session_owners(segments):
    """One process, several *owners* of the same cache directory: `segments` is a list of
    {"cfg", "ops", "owner"}; segments with the same owner id are served by the same optimizer object, which
    stays alive (with whatever it remembers) while other owners work on the directory in between."""
    import warnings
    warnings.simplefilter("ignore")
    Script.searches = 0
    owners = {}
    out = []
    for seg in segments:
        k = seg["owner"]
        if k not in owners:
            owners[k] = make_optimizer(seg["cfg"])
        opt = owners[k]
        # the policy of a resumed owner may not change (it is the same object)
        out.append({"split": bool(opt.directory_split), "obs": [observe_op(opt, seg["cfg"], op) for op in seg["ops"]]})
    return out


# ---------------------------------------------------------------------------------------------
# crash injection / system-call observation (child process only)


class _Instr:
    def __init__(self, root, crash):
        self.root = os.path.abspath(root)
        self.crash = crash or {"kind": "none"}
        self.events = []
        self.nboundary = 0
        self.written = 0
        self.open_files = []

    def rel(self, p):
        try:
            p = os.path.abspath(os.fspath(p))
        except TypeError:
            return None
        if isinstance(p, bytes):
            p = os.fsdecode(p)
        if p == self.root:
            return []
        if p.startswith(self.root + os.sep):
            return p[len(self.root) + 1:].split(os.sep)
        return None

    def boundary(self):
        if self.crash["kind"] == "boundary" and self.nboundary == self.crash["b"]:
            os._exit(9)
        self.nboundary += 1

    def audit(self, event, args):
        if event == "open":
            path, _mode, flags = args
            if isinstance(path, int) or flags is None:
                return
            rel = self.rel(path)
            if rel is None:
                return
            self.boundary()
            if flags & (os.O_WRONLY | os.O_RDWR):
                if flags & os.O_TRUNC or ((flags & os.O_CREAT) and not os.path.lexists(path)):
                    # O_TRUNC, or O_CREAT (|O_EXCL) of a file that is not there: a new empty file
                    self.events.append({"op": "create", "p": rel})
                else:
                    self.events.append({"op": "open-inplace", "p": rel})
        elif event == "os.mkdir":
            rel = self.rel(args[0])
            if rel is None:
                return
            self.boundary()
            self.events.append({"op": "mkdir", "p": rel})
        elif event == "os.rename":
            s, d = self.rel(args[0]), self.rel(args[1])
            if s is None and d is None:
                return
            self.boundary()
            self.events.append({"op": "rename", "s": s, "d": d})
            for f in self.open_files:      # an open descriptor follows its file
                if f._rel == s and not f._raw.closed:
                    f._rel = d
        elif event in ("os.remove", "os.rmdir"):
            rel = self.rel(args[0])
            if rel is None:
                return
            self.boundary()
            self.events.append({"op": "unlink" if event == "os.remove" else "rmdir", "p": rel})
        elif event in ("os.truncate", "os.link", "os.symlink"):
            self.boundary()
            self.events.append({"op": event})


class _CrashFile:
    """binary file object that buffers like Python's own (nothing reaches the OS before flush /
    close) and whose process dies once `k` bytes in total have reached the OS; every transfer is
    recorded as an `append` to the path the descriptor has *at that moment* (renames tracked)"""

    def __init__(self, raw, rel, instr):
        self._raw, self._rel, self._instr = raw, rel, instr
        self._buf = b""
        instr.open_files.append(self)

    def write(self, data):
        data = bytes(data)
        self._buf += data
        if len(self._buf) >= 1 << 16:   # (io.DEFAULT_BUFFER_SIZE-like behaviour for big entries)
            self._emit()
        return len(data)

    def _emit(self):
        data, self._buf = self._buf, b""
        if not data:
            return
        ins = self._instr
        if ins.crash["kind"] == "bytes" and ins.written + len(data) >= ins.crash["k"]:
            part = data[: ins.crash["k"] - ins.written]
            if part:
                os.write(self._raw.fileno(), part)
            os._exit(9)
        n = 0
        while n < len(data):
            n += os.write(self._raw.fileno(), data[n:])
        ins.written += len(data)
        ins.events.append({"op": "append", "p": self._rel, "b": list(data)})

    def flush(self):
        self._emit()

    def fileno(self):
        return self._raw.fileno()

    def close(self):
        if not self._raw.closed:
            self._emit()
            self._raw.close()

    def seek(self, *a):
        self._emit()
        return self._raw.seek(*a)

    def truncate(self, *a):
        self._emit()
        return self._raw.truncate(*a)

    def tell(self):
        self._emit()
        return self._raw.tell()

    def read(self, *a):
        self._emit()
        return self._raw.read(*a)

    def __getattr__(self, name):
        return getattr(self._raw, name)

    def __enter__(self):
        return self

    def __exit__(self, *a):
        self.close()
        return False

    def __iter__(self):
        return iter(self._raw)

    def __del__(self):
        try:
            self.close()
        except Exception:  # noqa: BLE001
            pass


def install_instrumentation(root, crash):
    import builtins
    import io
    import _io

    instr = _Instr(root, crash)
    real_open = builtins.open

    def patched_open(file, mode="r", *a, **kw):
        rel = None
        if isinstance(file, (str, bytes, os.PathLike)):
            rel = instr.rel(file)
        elif isinstance(file, int):
            try:
                rel = instr.rel(os.readlink("/proc/self/fd/%d" % file))
            except OSError:
                rel = None
            if rel is not None and "b" in mode and any(c in mode for c in "wax+"):
                raw = real_open(file, mode, buffering=0, closefd=kw.get("closefd", True))
                return _CrashFile(raw, rel, instr)
            rel = None
        if rel is not None and "b" in mode and any(c in mode for c in "wax+"):
            raw = real_open(file, mode, buffering=0)
            return _CrashFile(raw, rel, instr)
        return real_open(file, mode, *a, **kw)

    kind = (crash or {}).get("kind")
    if kind in ("profile", "profile-count"):
        # kill at the n-th call/return event (Python or C function) while DiskDict.__setitem__ is
        # running, with the *real* (buffered) file objects
        state = {"depth": 0, "n": 0}

        def prof(frame, event, arg):
            code = frame.f_code
            if event == "call" and code.co_name == "__setitem__" and \
                    getattr(code, "co_qualname", "").startswith("DiskDict"):
                state["depth"] += 1
            if state["depth"] > 0:
                if kind == "profile" and state["n"] == crash["n"]:
                    os._exit(9)
                state["n"] += 1
                instr.profile_events = state["n"]
            if event == "return" and code.co_name == "__setitem__" and \
                    getattr(code, "co_qualname", "").startswith("DiskDict"):
                state["depth"] -= 1

        instr.profile_events = 0
        sys.setprofile(prof)
    elif kind != "rlimit":
        builtins.open = patched_open
        io.open = patched_open
        _io.open = patched_open
    else:
        import resource
        import signal
        signal.signal(signal.SIGXFSZ, signal.SIG_DFL)
        resource.setrlimit(resource.RLIMIT_FSIZE, (crash["k"], crash["k"]))
    sys.addaudithook(instr.audit)
    return instr


def job_write(cfg, ops, crash):
    """The writer: a session run under instrumentation (and killed as `crash` says)."""
    instr = install_instrumentation(cfg["directory"], crash)
    res = job_session(cfg, ops)
    sys.setprofile(None)
    res["profile_events"] = getattr(instr, "profile_events", 0)
    res["events"] = instr.events
    res["boundaries"] = instr.nboundary
    res["written"] = instr.written
    return res


def snapshot(root):
    """directory content below `root`: files as [components, bytes], dirs as [components]"""
    files, dirs = [], []
    if not os.path.isdir(root):
        return {"files": [], "dirs": [], "exists": False}
    for dp, dn, fns in os.walk(root):
        dn.sort()
        rel = [] if dp == root else os.path.relpath(dp, root).split(os.sep)
        if rel:
            dirs.append(rel)
        for fn in sorted(fns):
            with open(os.path.join(dp, fn), "rb") as f:
                files.append([rel + [fn], list(f.read())])
    return {"files": files, "dirs": dirs, "exists": True}


# ---------------------------------------------------------------------------------------------
# child processes

JOBS = {"session": job_session, "write": job_write, "session_owners": job_session_owners}


def in_fork(job, *args):
    """Run JOBS[job](*args) in a forked child. Returns ("ok", result) | ("exc", type, msg) |
    ("died", wait-status)."""
    r, w = os.pipe()
    sys.stdout.flush()
    sys.stderr.flush()
    pid = os.fork()
    if pid == 0:
        code = 0
        try:
            os.close(r)
            try:
                data = pickle.dumps(("ok", JOBS[job](*args)))
            except BaseException as e:  # noqa: BLE001
                data = pickle.dumps(("exc", type(e).__name__, str(e)[:300]))
            n = 0
            while n < len(data):
                n += os.write(w, data[n:])
        except BaseException:  # noqa: BLE001
            code = 3
        finally:
            os._exit(code)
    os.close(w)
    chunks = []
    while True:
        c = os.read(r, 1 << 16)
        if not c:
            break
        chunks.append(c)
    os.close(r)
    _, status = os.waitpid(pid, 0)
    data = b"".join(chunks)
    if not data:
        return ("died", status)
    return pickle.loads(data)


def in_fresh(job, *args, timeout=120):
    """Same, in a completely fresh interpreter (`python -m harness.c14_util`)."""
    env = dict(os.environ)
    env["COTENGRA_REPO"] = common.REPO
    env["PYTHONDONTWRITEBYTECODE"] = "1"
    p = subprocess.run([common.PY, "-m", "harness.c14_util"], input=pickle.dumps((job, args)),
                       capture_output=True, cwd=VERIF, env=env, timeout=timeout)
    if not p.stdout:
        return ("died", p.returncode)
    return pickle.loads(p.stdout)


def run_child(mode, job, *args):
    return in_fresh(job, *args) if mode == "fresh" else in_fork(job, *args)


def _main():
    job, args = pickle.loads(sys.stdin.buffer.read())
    out = os.dup(1)
    os.dup2(2, 1)  # anything the library prints goes to stderr
    try:
        data = pickle.dumps(("ok", JOBS[job](*args)))
    except BaseException as e:  # noqa: BLE001
        data = pickle.dumps(("exc", type(e).__name__, str(e)[:300]))
    n = 0
    while n < len(data):
        n += os.write(out, data[n:])
    os._exit(0)


if __name__ == "__main__":
    _main()
