"""C17 -- operations that take a seed are deterministic functions of their arguments.

Proof side (Lean): `Flow.noninterference` (every program none of whose reachable bodies reads the
global generator or the hash order computes a function of arguments + seeded generator),
`Flow.cleanAll_sound` (the table decision procedure is sound for every program the table covers),
and the closed obligation `C17.seeded_apis_clean` over the call graph that `gen_facts` regenerates
from /repo's AST on every run (harness/c17_facts.py).

Tie to /repo:
  (F) the fact table itself (regenerated each run; a seed that is dropped, a `random.*` call, an
      order-sensitive use of a set changes a row and the `decide` obligation stops compiling);
  (E) the decision procedure run by the compiled driver (`c17.clean`) against an independent
      Python reachability on the same table, entry by entry; `c17.draws` replays the three
      branches of the real `get_rng` on the model's `Env.read`;
  (F') the table "attribute copied by set_state_from to depth d / mutated in place at depth m"
      with the obligation m <= d (`C17.no_shared_mutable_state`, soundness `Share.safe_sound`);
  dynamic validation of every verdict, API by API: the same (arguments, seed) is executed in
      fresh interpreters with different PYTHONHASHSEED, the global `random`/`numpy.random`
      generators reseeded differently and advanced between calls, and in a different call order;
      all canonical results must be identical.  In one interpreter every call is in addition
      repeated on the SAME object after a warm-up history that exercises the object's caches
      (in-place reconfigure / anneal / forest, slice+unslice, queries, a seeded call with another
      seed), on copies, and through the inplace variant on two copies and on the original
      (c17_worker.same_object_checks).  This is also the implementation-side oracle.

Round 3:
  (F'') `Generated/FactsC17Rng.lean`: skeletons of the variables that carry the seed / a generator
      (harness/c17_rngflow.py), checked by the kernel with the verified analysis `RFlow.analyse`
      (`C17.rng_dataflow_seeded`); the Python mirror of the analysis decides the edge modes of the
      call graph and is compared with Lean's on every skeleton (`c17.rngflow`);
  `rdSched`: pool results consumed in completion order (`as_completed`, `wait`) -- fourth source of
      the flow model;  `parallel=` may be an executor object: the worker's OrderedPool completes
      the futures FIFO / LIFO / shuffled (one order per interpreter), and the forest's rounds as
      seen by the pool are compared with `Model/Gather.lean` (`c17.gather`);
  the state of the global `random` / `numpy.random` generators is compared before / after every
      seeded call (`Flow.clean_leaves_global_untouched`);  `c17.getrng`: every branch of get_rng.
"""

import json
import os
import random as _random
import subprocess
import sys

from . import common, gen
from . import c17_facts

PROP = "C17"
LEVEL = "proof"
LEVEL_TEXT = ("Partial proof. Lean 4: noninterference of a four-source imperative semantics (seeded generator / "
              "process-global generator / string-hash order / completion order of the workers of an executor "
              "pool) for every program whose reachable bodies read only the seeded source, and that such a program "
              "leaves the global generator untouched; soundness of the table decision procedure; a data-flow "
              "analysis of the variables that carry the seed / a generator, proved sound, re-run by the kernel on "
              "the skeletons extracted from /repo's AST on every run (no sink -- get_rng(x), f(seed=x), x.randint() "
              "-- receives None or the global module on any path); determinism of the forest's submission-order "
              "gather for every completion order of the pool; and the closed obligation over the regenerated call "
              "graph that no public callable with a `seed` parameter of the enumerated families reaches the global "
              "generator, drops its seed, consumes a hash-ordered set or pool results in completion order. That the "
              "extracted tables cover the real bodies is not proved: it is validated dynamically, API by API, in "
              "fresh interpreters under different PYTHONHASHSEED, global-generator states and pool completion "
              "orders, including the state of the global generators before / after every call and the forest's "
              "rounds as seen by the pool.")
LEVEL_NOTE = ("Trusted: Lean kernel; the AST fact extractor harness/c17_facts.py (name-based call resolution with "
              "receiver typing, calls through parameters / external libraries opaque, a reviewed list of int-only "
              "set iterations); CPython's random.Random(seed) and numpy's default_rng(seed) being functions of the "
              "seed; networkx and native kahypar deterministic given their seed; dict ordering.")
TECHNIQUE = ("Lean 4 proof (noninterference by induction on fuel; closed-set certificate checking) + source-derived "
             "fact table with a kernel `decide` obligation + subprocess differential testing under PYTHONHASHSEED / "
             "global-RNG perturbation")
LEAN_MODULES = ["CotengraVerif.Lemmas.FlowNI", "CotengraVerif.Lemmas.RngFlowSound",
                "CotengraVerif.Lemmas.GatherLemmas", "CotengraVerif.Props.C17"]
THEOREMS = [
    "Cotengra.Flow.noninterference",
    "Cotengra.Flow.cleanFrom_sound",
    "Cotengra.Flow.cleanAll_sound",
    "Cotengra.C17.seeded_apis_clean",
    "Cotengra.C17.seeded_apis_deterministic",
    "Cotengra.C17.same_seed_same_result",
    "Cotengra.C17.global_read_interferes",
    "Cotengra.C17.hash_read_interferes",
    "Cotengra.C17.prefix_snapshot_counterexample",
    "Cotengra.Share.safe_sound",
    "Cotengra.C17.no_shared_mutable_state",
    "Cotengra.C17.copies_are_private",
    "Cotengra.C17.shared_state_counterexample",
    # round 3: worker completion order as a fourth source; data flow of the generator variables;
    # gathering from an executor pool; get_rng
    "Cotengra.Flow.clean_leaves_global_untouched",
    "Cotengra.C17.seeded_apis_leave_global_untouched",
    "Cotengra.C17.sched_read_interferes",
    "Cotengra.C17.sched_row_rejected",
    "Cotengra.RFlow.analyse_sound",
    "Cotengra.RFlow.skeleton_ok_sound",
    "Cotengra.C17.rng_dataflow_seeded",
    "Cotengra.C17.rng_dataflow_no_bad_use",
    "Cotengra.C17.agglom_none_counterexample",
    "Cotengra.Gather.gatherSub_complete",
    "Cotengra.Gather.forestRun_submission_deterministic",
    "Cotengra.Gather.completion_gather_distinct_scores",
    "Cotengra.C17.forest_gather_deterministic",
    "Cotengra.C17.completion_order_tie_counterexample",
    "Cotengra.C17.completion_order_harmless_without_ties",
    "Cotengra.C17.get_rng_seeded_ignores_global",
    "Cotengra.C17.get_rng_none_reads_global",
]
TRUSTED = [
    "Lean 4.33 kernel; axioms ⊆ {propext, Classical.choice, Quot.sound}",
    "harness/c17_facts.py: AST extraction of the call graph (hypothesis `Covers` of the Lean theorems); calls "
    "through parameters and external libraries are opaque; ambiguous dynamic dispatch is opaque; "
    "REVIEWED_INT_SETS lists the set iterations reviewed as integer-only",
    "CPython random.Random(seed) / numpy default_rng(seed) / networkx / native kahypar are functions of their seed",
    "the canonicalisation of results in harness/c17_worker.py (trees -> node sets + ssa path + sliced indices)",
    "harness/c17_rngflow.py: the syntactic extraction of the skeletons (which names carry a seed / generator, which "
    "expressions are sinks, how Python statements map to skeleton statements); the data-flow analysis on them is "
    "Lean's (`RFlow.analyse`, proved sound), its Python mirror is compared with it on every skeleton",
    "CPython's concurrent.futures (Future / as_completed / wait) as used by the harness's OrderedPool",
]
ASSUMPTIONS = [
    "scope of the static obligation: the families C17 enumerates (utils generators, random-greedy, RandomOptimizer, "
    "labels/kahypar partition builders, slice/SliceFinder/unslice_rand, get_subtree, subtree_reconfigure(_forest), "
    "simulated_anneal / parallel_temper); compressed-contraction optimizers, hyper-optimizer samplers and the "
    "flowcutter/quickbb/igraph wrappers are analysed and reported as notes only",
    "parallel= is False or an executor OBJECT (the harness passes one that computes every task at submit and "
    "completes the futures first-in-first-out, last-in-first-out or shuffled); real process / thread pools, dask "
    "and ray (scatter pools) are not exercised: what they add beyond a completion order -- pickling, worker-side "
    "global state -- is out of scope",
    "optimizer objects passed as arguments (`optimize=`) are part of the arguments",
]
RULE = ("[round 3: options that gate randomness take their boundary values (random_strength 0 / 0.0 / 1e-9 / default, "
        "temperature 0 / degenerate ranges, groupsize / parts / cutoff, partitioner options); forest / tempering / "
        "random-greedy also with an executor pool as parallel= on lattices with a single bond size (score ties), the "
        "pool completing first-in-first-out / last-in-first-out / shuffled per interpreter; optimizer objects passed "
        "as optimize=; the global generators' state is compared before / after every call] "
        "[every case also: the identical call repeated on the SAME object after a warm-up history, on copies, "
        "after a call with another seed and through the inplace variant, inside one interpreter] "
        "per round a random network (6-30 tensors; single-letter, multi-character and unicode index labels so that "
        "string hashing matters) x random tree x every seeded API with randomised options; each case = (API, "
        "arguments, integer seed) executed in 3 (quick) / 6 (thorough) fresh interpreters with distinct "
        "PYTHONHASHSEED, distinct global-RNG seeds and perturbation, and a shuffled call order; non-trivial = no "
        "exception and the result changes when the seed changes; distinct by content hash")
BUDGET = {"quick": 600, "thorough": 3000}

# exercised, but outside the statement of C17 (no `seed` parameter): differences are notes
NOTE_ONLY = {"slice_and_reconfigure_forest_globalseed"}

WORKER = os.path.join(os.path.dirname(os.path.abspath(__file__)), "c17_worker.py")
HASHSEEDS = ["1", "4242", "0", "4294967295", "77", "31337", "123456789", "99"]

# worker API -> static entries (qualified names of harness/c17_facts.py) it exercises
API_ENTRIES = {
    "get_rng": ["utils:get_rng"],
    "gumbel": ["utils:GumbelBatchedGenerator.__init__", "utils:GumbelBatchedGenerator.__call__"],
    "jitter_dict": ["core:jitter_dict"],
    "rand_equation": ["utils:rand_equation"],
    "tree_equation": ["utils:tree_equation"],
    "randreg_equation": ["utils:randreg_equation"],
    "perverse_equation": ["utils:perverse_equation"],
    "lattice_equation": ["utils:lattice_equation"],
    "networkx_graph_to_equation": ["utils:networkx_graph_to_equation"],
    "rand_tree": ["utils:rand_tree"],
    "make_rand_size_dict_from_inputs": ["utils:make_rand_size_dict_from_inputs"],
    "make_arrays_from_inputs": ["utils:make_arrays_from_inputs"],
    "make_arrays_from_eq": ["utils:make_arrays_from_eq"],
    "random_greedy_track_flops": ["pathfinders.path_basic:optimize_random_greedy_track_flops"],
    "RandomGreedyOptimizer": ["pathfinders.path_basic:RandomGreedyOptimizer.__init__",
                              "pathfinders.path_basic:RandomGreedyOptimizer.__call__",
                              "pathfinders.path_basic:RandomGreedyOptimizer.search",
                              "pathfinders.path_basic:RandomGreedyOptimizer.ssa_path"],
    "optimize_greedy": ["pathfinders.path_basic:ContractionProcessor.optimize_greedy"],
    "RandomOptimizer": ["pathfinders.path_random:RandomOptimizer.__init__",
                        "pathfinders.path_random:RandomOptimizer.__call__",
                        "pathfinders.path_random:RandomOptimizer.search"],
    "labels_partition": ["pathfinders.path_labels:labels_partition"],
    "kahypar_membership": ["pathfinders.path_kahypar:kahypar_subgraph_find_membership"],
    "labels_divide": ["core:PartitionTreeBuilder.build_divide"],
    "kahypar_divide": ["core:PartitionTreeBuilder.build_divide"],
    "labels_agglom": ["core:PartitionTreeBuilder.build_agglom"],
    "kahypar_agglom": ["core:PartitionTreeBuilder.build_agglom"],
    "slice": ["core:ContractionTree.slice"],
    "SliceFinder": ["slicer:SliceFinder.__init__", "slicer:SliceFinder.search", "slicer:SliceFinder.trial",
                    "slicer:SliceFinder.best"],
    "unslice_rand": ["core:ContractionTree.unslice_rand"],
    "get_subtree": ["core:ContractionTree.get_subtree"],
    "subtree_reconfigure": ["core:ContractionTree.subtree_reconfigure"],
    "subtree_reconfigure_forest": ["core:ContractionTree.subtree_reconfigure_forest"],
    "simulated_anneal": ["pathfinders.path_simulated_annealing:simulated_anneal_tree"],
    "parallel_temper": ["pathfinders.path_simulated_annealing:parallel_temper_tree"],
    # outside the enumerated scope (dynamic only; static verdict reported as a note)
    "greedy_compressed": ["pathfinders.path_compressed_greedy:GreedyCompressed.get_ssa_path"],
    "greedy_span": ["pathfinders.path_compressed_greedy:GreedySpan.get_ssa_path"],
}

_FACTS = {}


def _facts():
    if "fx" not in _FACTS:
        _FACTS["fx"] = c17_facts.build(common.REPO)
    return _FACTS["fx"]


def gen_facts():
    return {"CotengraVerif/Generated/FactsC17.lean": c17_facts.to_lean(_facts()),
            "CotengraVerif/Generated/FactsC17Rng.lean": c17_facts.rng_to_lean(_facts())}


# ------------------------------------------------------------------------------------ cases
def _label(i, style):
    if style == 0:
        return gen.sym(i)
    if style == 1:
        return f"ix{i}" + "_" * (i % 3)
    return chr(0x3b1 + (i % 24)) + str(i // 24 if i >= 24 else "")


def _net(rng, n, style, dims=(2, 3, 4), out=True):
    kinds = ("bond", "bond", "bond", "bond", "hyper") + (("out1", "outk") if out else ())
    net = gen.rand_net(rng, nmin=n, nmax=n, max_inds=max(3, 2 * n), dims=dims, kinds=kinds, max_rank=7,
                       allow_scalar=False, max_total=10 ** 30)
    j = {"inputs": [[_label(i, style) for i in t] for t in net.inputs],
         "output": [_label(i, style) for i in net.output],
         "size_dict": [[_label(k, style), v] for k, v in net.sizes.items()]}
    return j, net


def _net_simple(rng, n, style):
    """connected ordinary network (every index on exactly two tensors, a few output indices):
    random spanning tree plus extra bonds"""
    inputs = [[] for _ in range(n)]
    ix = 0
    for i in range(1, n):
        j = rng.randrange(i)
        inputs[i].append(ix)
        inputs[j].append(ix)
        ix += 1
    for _ in range(rng.randint(n // 2, n)):
        i, j = rng.sample(range(n), 2)
        if len(inputs[i]) < 5 and len(inputs[j]) < 5:
            inputs[i].append(ix)
            inputs[j].append(ix)
            ix += 1
    output = []
    for _ in range(rng.randint(0, 2)):
        inputs[rng.randrange(n)].append(ix)
        output.append(ix)
        ix += 1
    sizes = {k: rng.choice([2, 3, 4]) for k in range(ix)}
    j = {"inputs": [[_label(i, style) for i in t] for t in inputs],
         "output": [_label(i, style) for i in output],
         "size_dict": [[_label(k, style), v] for k, v in sizes.items()]}
    return j, None


def _net_lattice(rng, style):
    """a lattice with ONE bond size everywhere (many trees of exactly equal cost: score ties) and
    a sequential or random contraction tree"""
    dims = rng.choice([[3, 3], [4, 4], [3, 4], [2, 3, 2], [5, 2], [2, 2, 2], [4, 3], [6, 2]])
    d = rng.choice([2, 2, 3])
    cyc = rng.random() < 0.2
    import itertools
    sites = list(itertools.product(*[range(k) for k in dims]))
    pos = {x: i for i, x in enumerate(sites)}
    inputs = [[] for _ in sites]
    ix = 0
    for x in sites:
        for ax in range(len(dims)):
            y = list(x)
            y[ax] += 1
            if y[ax] >= dims[ax]:
                if not (cyc and dims[ax] > 2):
                    continue
                y[ax] = 0
            inputs[pos[x]].append(ix)
            inputs[pos[tuple(y)]].append(ix)
            ix += 1
    n = len(sites)
    j = {"inputs": [[_label(i, style) for i in t] for t in inputs], "output": [],
         "size_dict": [[_label(k, style), d] for k in range(ix)]}
    if rng.random() < 0.7:
        ssa = [[0, 1]] + [[n + i - 1, i + 1] for i in range(1, n - 1)]
    else:
        ssa = gen.tree_to_ssa(gen.rand_tree(rng, n), n)
    return j, ssa, {"dims": dims, "d": d, "cyclic": cyc}


def gen_cases(rng, rounds, big=False):
    cases = []
    for rnd in range(rounds):
        style = rng.randrange(3)
        n = rng.choice([6, 7, 8, 10, 12, 14]) if not big else rng.choice([12, 16, 20, 26])
        j, net = _net(rng, n, style)
        tree = gen.rand_tree(rng, n)
        ssa = gen.tree_to_ssa(tree, n)
        inds = [k for k, _ in j["size_dict"]]
        base = {"net": j, "ssa_path": ssa}

        def C(api, presliced=None, **o):
            # `base` is looked up at call time; seed 0 (falsy) is an edge of `get_rng`'s dispatch
            c = dict(base, api=api, seed=rng.choice([0, 0, 1] + [rng.randrange(10 ** 6)] * 17), opts=o)
            if presliced:
                c["presliced"] = presliced
            cases.append(c)

        # --- generators ---------------------------------------------------------------------
        C("get_rng")
        C("gumbel")
        C("jitter_dict", strength=rng.choice([0.01, 0.3, 2.0]))
        nn = rng.randint(3, 9)
        C("rand_equation", n=nn, reg=rng.randint(2, 4), n_out=rng.randint(0, 2),
          n_hyper_in=rng.randint(0, 2), n_hyper_out=rng.randint(0, 2), d_max=rng.randint(2, 5))
        nt = rng.randint(2, 9)
        C("tree_equation", n=nt, n_outer=rng.randint(0, nt - 1), d_max=4)
        reg = rng.choice([2, 3, 4])
        nr = rng.choice([k for k in range(reg + 1, 12) if (k * reg) % 2 == 0])
        C("randreg_equation", n=nr, reg=reg)
        C("perverse_equation", n=rng.randint(1, 6), num_indices=rng.randint(1, 5), n_outer=rng.randint(0, 3))
        C("lattice_equation", dims=[rng.randint(2, 3) for _ in range(rng.randint(1, 3))],
          cyclic=rng.random() < 0.5, d_max=rng.choice([None, 3, 5]))
        ne = rng.randint(3, 7)
        edges = sorted({tuple(sorted(rng.sample(range(ne), 2))) for _ in range(ne + 2)})
        C("networkx_graph_to_equation", n=ne, edges=[list(e) for e in edges])
        C("rand_tree", n=rng.randint(3, 8), reg=rng.randint(2, 3), n_out=rng.randint(0, 2),
          optimize=rng.choice(["greedy", "greedy"]))
        C("make_rand_size_dict_from_inputs")
        C("make_arrays_from_inputs", dtype=rng.choice(["float64", "float32", "complex128"]))
        C("make_arrays_from_eq", eq=rng.choice(["ab,bc,cd->ad", "abc,cde,ea->bd", "aab,bc->c"]))
        # --- path finders -------------------------------------------------------------------
        # (the options that gate randomness take their boundary values too: temperature 0, a
        # degenerate range, random_strength 0 / 0.0 / tiny / default ...)
        C("random_greedy_track_flops", ntrials=rng.randint(1, 6), use_ssa=rng.random() < 0.5,
          **rng.choice([{}, {"temperature": 0.5}, {"temperature": [0.1, 2.0], "costmod": [0.5, 2.0]},
                        {"costmod": 1.0}, {"temperature": 0.0}, {"temperature": [1e-9, 1e-9], "costmod": [1.0, 1.0]},
                        {"temperature": [1e-12, 1.0]}]))
        C("RandomGreedyOptimizer", max_repeats=rng.randint(1, 6), mode=rng.choice(["call", "search"]),
          **rng.choice([{}, {}, {"temperature": [1e-9, 1e-9]}, {"temperature": 0.5, "costmod": 1.0},
                        {"parallel": "pool", "workers": rng.randint(1, 3)},
                        {"parallel": "pool", "workers": rng.randint(2, 4), "temperature": [1e-9, 1e-9]}]))
        C("optimize_greedy", temperature=rng.choice([0.1, 0.7, 3.0, 0.0, 0]), costmod=rng.choice([1.0, 0.5, 2.0]))
        C("RandomOptimizer", mode=rng.choice(["call", "search"]))
        C("optimize_object", kind=rng.choice(["random_greedy", "random", "greedy_compressed"]),
          via=rng.choice(["array_contract_tree", "array_contract_path", "rand_tree", "subtree_optimize"]))
        # partition-based builders on a larger, sparser network (small ones have a unique partition)
        nb = rng.choice([12, 16, 20, 26, 32])
        jb, _ = _net_simple(rng, nb, style)
        keep = base
        base = {"net": jb, "ssa_path": []}
        C("labels_partition", parts=rng.randint(2, 4),
          **rng.choice([{}, {"memory": rng.choice([-1, 0, 1])}, {"final_sweep": False},
                        {"weight_nodes": rng.choice(["const", "linear", "log"]),
                         "weight_edges": rng.choice(["const", "linear", "log"])},
                        {"maxiter": rng.randint(1, 4)}, {"pop_decay": 0.5, "con_pow": 2}]))
        C("kahypar_membership", parts=rng.randint(2, 4),
          **rng.choice([{}, {"mode": rng.choice(["direct", "recursive"]), "objective": rng.choice(["cut", "km1"])},
                        {"imbalance": rng.choice([0.01, 0.3])}, {"fix_output_nodes": True},
                        {"weight_nodes": "linear"}, {"compress": rng.choice([0, 2])}]))
        strengths = [0, 0.0, 1e-9, None, 0.01, 0.3, 1.0]          # None = the builder's default
        for b in ("labels", "kahypar"):
            for variant in ("_divide", "_agglom"):
                o = {}
                rs = rng.choice(strengths)
                if rs is not None:
                    o["random_strength"] = rs
                if rng.random() < 0.25:
                    o["via"] = "trial_fn"
                if variant == "_divide":
                    o.update(cutoff=rng.randint(2, 4), parts=rng.randint(2, 4))
                    if rng.random() < 0.3:
                        o["parts_decay"] = rng.choice([0.0, 0.5, 1.0])
                    if b == "kahypar" and rng.random() < 0.4:
                        o.update(rng.choice([{"imbalance": 0.1, "imbalance_decay": rng.choice([-1, 0, 2])},
                                             {"fix_output_nodes": "auto"}, {"mode": "recursive"},
                                             {"objective": "km1"}]))
                else:
                    o.update(groupsize=rng.randint(2, 6))
                    if rng.random() < 0.3:
                        o["sub_optimize"] = rng.choice(["greedy", "optimal"])
                if b == "labels" and rng.random() < 0.3:
                    o.update(rng.choice([{"memory": 1}, {"final_sweep": False}, {"maxiter": 2}]))
                C(b + variant, **o)
        C("greedy_compressed", chi=rng.choice([2, 4, 8]), temperature=rng.choice([0.2, 1.0]))
        C("greedy_span", temperature=rng.choice([0.2, 1.0]))
        base = keep
        # --- operations on trees ------------------------------------------------------------
        # from here on the cases carry a warm-up history applied to the tree object before the
        # call (see c17_worker.apply_history): the result must not depend on it beyond the
        # visible state of the tree
        plainC = C

        def C(api, presliced=None, **o):  # noqa: F811
            plainC(api, presliced=presliced, **o)
            c = cases[-1]
            hist = []
            if rng.random() < 0.75:
                mini = o.get("minimize")
                for _ in range(rng.randint(1, 3)):
                    k = rng.choice(["reconf_", "reconf_", "reconf_", "stats", "contractor", "seeded_other",
                                    "anneal_", "forest_", "slice_unslice"])
                    if k == "reconf_":
                        a = {"subtree_size": rng.randint(2, 4), "maxiter": rng.randint(1, 4)}
                        m = rng.choice([mini, mini, None, "flops", "size"])
                        if m is not None:
                            a["minimize"] = m
                        hist.append([k, a])
                    elif k == "forest_":
                        hist.append([k, {"num_trees": 2, "num_restarts": 1, "subtree_maxiter": 2,
                                         "subtree_size": 3, "seed": rng.randrange(1000)}])
                    elif k == "anneal_":
                        hist.append([k, {"tsteps": 2, "numiter": 2, "seed": rng.randrange(1000)}])
                    elif k == "seeded_other":
                        hist.append([k, {"seed": rng.randrange(10 ** 6)}])
                    elif k == "slice_unslice":
                        if not presliced:
                            hist.append([k, {"seed": rng.randrange(1000)}])
                    else:
                        hist.append([k])
            if hist:
                c["history"] = hist

        temp = rng.choice([0.01, 0.3, 1.0])
        tgt = rng.choice([{"target_slices": rng.choice([2, 4, 8])}, {"target_size": rng.choice([4, 8, 16, 64])},
                          {"target_overhead": rng.choice([1.5, 3.0])}])
        C("slice", temperature=temp, allow_outer=rng.choice([True, True, False]), **tgt)
        C("slice", presliced=rng.sample(inds, min(2, len(inds))), reslice=True, temperature=temp,
          target_slices=rng.choice([2, 4]))
        C("SliceFinder", temperature=temp, allow_outer=rng.choice([True, False, "only"]),
          **rng.choice([{"target_slices": 4}, {"target_size": 8}, {"target_overhead": 2.0}]))
        C("unslice_rand", presliced=rng.sample(inds, min(3, len(inds))))
        C("get_subtree", size=rng.randint(2, 6), search=rng.choice(["random", "random", "bfs", "dfs"]),
          which=rng.randrange(8))
        for ss in ("bfs", "dfs", "random"):
            for sel in ("max", "min", "random"):
                C("subtree_reconfigure", subtree_size=rng.randint(2, 5), subtree_search=ss, select=sel,
                  maxiter=rng.randint(2, 8), weight_what=rng.choice(["flops", "size"]),
                  minimize=rng.choice(["flops", "size", "combo"]))
        C("subtree_reconfigure_forest", num_trees=rng.randint(2, 4), num_restarts=rng.randint(1, 3),
          subtree_maxiter=rng.randint(2, 5), subtree_size=rng.randint(2, 4),
          **rng.choice([{}, {"subtree_search": ["bfs", "dfs"], "subtree_select": ["max", "min"]},
                        {"subtree_search": ["random"], "subtree_select": ["random", "max"]}]))
        for sm in ([None] + [rng.choice(["basic", "reslice", "drift", 2])]):
            o = {"tsteps": rng.randint(2, 4), "numiter": rng.randint(2, 5)}
            if sm is not None:
                o.update(target_size=rng.choice([4, 8, 32]), slice_mode=sm)
            C("simulated_anneal", **o)
        for ts in (None, rng.choice([4, 16])):
            o = {"tsteps": 2, "numiter": rng.randint(2, 3), "num_trees": rng.randint(2, 3)}
            if ts is not None:
                o.update(target_size=ts, slice_mode=rng.choice(["drift", "basic"]),
                         parallel_slice_mode=rng.choice(["temperature", "time", "constant"]))
            if rng.random() < 0.5:
                o.update(parallel="pool", workers=rng.randint(1, 3))
            C("parallel_temper", **o)
        C("slice", temperature=rng.choice([0, 0.0]), target_slices=rng.choice([2, 4]))
        C("SliceFinder", temperature=0.0, target_slices=4)
        C("windowed_reconfigure", window_size=rng.randint(2, 5), max_iterations=rng.randint(1, 4),
          score_temperature=rng.choice([0.0, 0.5]), queue_temperature=rng.choice([0.0, 1.0]))
        # --- an executor pool as `parallel=`: lattices with one bond size (score ties) --------
        keep2 = base
        for _ in range(2):
            jl, ssal, info = _net_lattice(rng, style)
            base = {"net": jl, "ssa_path": ssal}
            C("subtree_reconfigure_forest", num_trees=rng.randint(3, 5), num_restarts=rng.randint(2, 3),
              subtree_maxiter=rng.randint(2, 5), subtree_size=rng.randint(3, 5), parallel="pool",
              workers=rng.randint(1, 4),
              **rng.choice([{}, {}, {"restart_fraction": rng.choice([0.3, 0.5, 0.8])},
                            {"subtree_search": ["bfs", "dfs"], "subtree_select": ["max", "min"]},
                            {"minimize": rng.choice(["flops", "size", "combo", "write"])}]))
            cases[-1]["lattice"] = info
            # random-greedy batches on the same lattice: many different paths of exactly equal flops
            plainC("RandomGreedyOptimizer", max_repeats=rng.randint(4, 8), mode=rng.choice(["call", "search"]),
                   parallel="pool", workers=rng.randint(2, 4), temperature=rng.choice([0.5, [0.3, 1.0], [1e-9, 1e-9]]))
        C("parallel_temper", tsteps=2, numiter=2, num_trees=rng.randint(2, 4), parallel="pool",
          workers=rng.randint(1, 3))
        plainC("slice_and_reconfigure_forest_globalseed", target_size=rng.choice([8, 16, 64]),
               num_trees=rng.randint(2, 3), max_repeats=4, parallel="pool",
               reconf_opts={"subtree_size": 3, "maxiter": 2})
        base = keep2
    return cases


# ------------------------------------------------------------------------------------ running
SCHEDS = ["fifo", "lifo", "shuffle"]


def _sched_of(run, k):
    """completion order of the executor pools in the k-th interpreter: third component of the run,
    default by position (older replay files have two components)"""
    return run[2] if len(run) > 2 else SCHEDS[k % 3]


def _spawn(cases, hashseed, perturb, order=None, same_object=False, sched="fifo"):
    env = dict(os.environ, PYTHONHASHSEED=str(hashseed))
    env.pop("PYTHONPATH", None)
    job = {"repo": common.REPO, "perturb": perturb, "cases": cases, "order": order, "same_object": same_object,
           "sched": sched}
    p = subprocess.Popen([common.PY, WORKER], stdin=subprocess.PIPE, stdout=subprocess.PIPE,
                         stderr=subprocess.PIPE, text=True, env=env)
    p._job = json.dumps(job)
    return p


def run_workers(cases, runs, shuffle_rng=None, timeout=900, same_object=()):
    """runs: list of (hashseed, perturb). Returns list of result dicts (pos -> canonical).
    `same_object`: positions in `runs` whose interpreter also repeats every call on the same
    object (c17_worker.same_object_checks)."""
    procs = []
    for k, run in enumerate(runs):
        hs, pert = run[0], run[1]
        order = None
        if shuffle_rng is not None and k > 0:
            order = list(range(len(cases)))
            shuffle_rng.shuffle(order)
        procs.append(_spawn(cases, hs, pert, order, same_object=k in same_object, sched=_sched_of(run, k)))
    outs = []
    # feed all, then collect (the workers run in parallel)
    import threading
    res = [None] * len(procs)

    def go(i, p):
        try:
            so, se = p.communicate(p._job, timeout=timeout)
            res[i] = (p.returncode, so, se)
        except subprocess.TimeoutExpired:
            p.kill()
            res[i] = (-9, "", "timeout")
    ths = [threading.Thread(target=go, args=(i, p)) for i, p in enumerate(procs)]
    for t in ths:
        t.start()
    for t in ths:
        t.join()
    for rc, so, se in res:
        if rc != 0:
            raise RuntimeError("C17 worker failed: " + (se or "")[-800:])
        outs.append(json.loads(so))
    return outs


def _val(r):
    """results of calls that used an executor pool are {"value": .., "pool_rounds": ..}"""
    return r["value"] if isinstance(r, dict) and "pool_rounds" in r else r


def _is_exc(r):
    r = _val(r)
    return isinstance(r, dict) and "exception" in r


def _key(r):
    if _is_exc(r):
        return json.dumps({"exception": _val(r)["exception"]})
    return json.dumps(r, sort_keys=True)


def _sig(case):
    o = case.get("opts", {})
    cls = {k: o[k] for k in ("subtree_search", "select", "mode", "slice_mode", "parallel") if k in o}
    if "random_strength" in o:
        cls["random_strength"] = "zero" if not o["random_strength"] else "nonzero"
    if o.get("temperature") in (0, 0.0, [0.0, 0.0], [1e-9, 1e-9]):
        cls["temperature"] = "zero"
    cls = {k: (v if isinstance(v, (str, int)) else str(v)) for k, v in cls.items()}
    return {"site": case["api"], **cls}


def _minimal_replay(case, runs):
    return {"cases": [case], "runs": [list(r) for r in runs]}


def _check_single(case, runs):
    """run one case alone; True = all results identical"""
    outs = run_workers([case], runs)
    return len({_key(_val(o["results"]["0"])) for o in outs}) == 1


def compare(ctx, cases, outs, runs, sens=None):
    """Compare the workers' results case by case; report violations; returns set of failing APIs."""
    failing = {}
    for pos, case in enumerate(cases):
        rs = [o["results"][str(pos)] for o in outs]
        # the verdict is about the RESULT; what an executor pool was handed round by round is
        # intermediate state: a difference there alone is a broken correspondence, not a violation
        keys = {_key(_val(r)) for r in rs}
        if len(keys) == 1 and len({_key(r) for r in rs}) > 1:
            ctx.count("pool_intermediate_differs:" + case["api"])
            ctx.corr_broken("the trees handed to / returned by the executor pool differ between completion "
                            "orders although the final result is the same",
                            {"api": case["api"], "seed": case["seed"], "opts": case.get("opts")})
        api = case["api"]
        exc = _is_exc(rs[0])
        if exc:
            ctx.count("exception:" + api + ":" + _val(rs[0])["exception"])
        sensitive = bool(sens) and sens.get(pos)
        ctx.count("api:" + api)
        if case.get("opts", {}).get("parallel") == "pool":
            ctx.count("pool:" + api)
            if len({_key(_val(r)) for r in rs}) > 1:
                ctx.count("pool_result_depends_on_completion_order:" + api)
        for kk, vv in _sig(case).items():
            if kk in ("random_strength", "temperature"):
                ctx.count(f"gate:{api}:{kk}={vv}")
        if sensitive:
            ctx.count("seed_sensitive:" + api)
        ctx.case({"api": api, "seed": case["seed"], "opts": case.get("opts"),
                  "n": len(case["net"]["inputs"]), "label0": case["net"]["size_dict"][0][0]},
                 nontrivial=(not exc) and sensitive)
        ctx.traces += 1
        if len(keys) > 1:
            if api in NOTE_ONLY:
                ctx.count("note_only_differs:" + api)
                ctx.notes.setdefault("outside_scope_nondeterministic", []).append(
                    {"api": api, "seed": case["seed"], "opts": case.get("opts")})
                continue
            failing.setdefault(api, []).append(pos)
    # the state of the process-global generators before / after every seeded call
    touched = {}
    for o in outs:
        for pos in o.get("global_touched", []):
            api = cases[pos]["api"]
            ctx.count("global_rng_touched:" + api)
            touched.setdefault(api, cases[pos])
    ctx.count("global_rng_untouched_checks", len(cases) * len(outs))
    for api, case in sorted(touched.items()):
        ctx.corr_broken("a seeded call advanced the process-global `random` / `numpy.random` generator "
                        "(Flow.clean_leaves_global_untouched: a clean entry leaves it where it was)",
                        {"api": api, "seed": case["seed"], "opts": case.get("opts")})
    # the same call repeated on the same object / copies inside one interpreter
    for o in outs:
        for pos_s, labels in (o.get("selfcheck") or {}).items():
            case = cases[int(pos_s)]
            api = case["api"]
            ctx.count("same_object_differs:" + api)
            ctx.count("same_object_history_violations")
            sig = dict(_sig(case), **{"class": "same-object-history"})
            rep = {"cases": [case], "runs": [list(runs[0])], "same_object": True}
            alone = run_workers([case], [runs[0]], same_object=(0,))[0].get("selfcheck")
            if not alone:
                p = int(pos_s)
                rep = {"cases": cases[:p + 1], "runs": [list(runs[0])], "pos": p, "same_object": True}
            if ctx.violation(sig, rep,
                             f"{api}{ {k: v for k, v in sig.items() if k not in ('site', 'class')} } with "
                             f"seed={case['seed']}: the identical call on the same (visibly unchanged) object "
                             f"returns a different result depending on what was called before "
                             f"({', '.join(labels)}; history {case.get('history')})"):
                failing.setdefault(api, [])
    for api, poss in failing.items():
        # one report per (api, option class); replay = the single case if it reproduces alone
        seen = set()
        for pos in poss:
            case = cases[pos]
            sig = _sig(case)
            k = json.dumps(sig, sort_keys=True)
            if k in seen:
                continue
            seen.add(k)
            extra = [("9001", 515151, "lifo"), ("17", 626262, "fifo"), ("5", 737373, "shuffle"),
                     ("271828", 848484, "lifo"), ("6", 959595, "shuffle")]
            alone = not _check_single(case, list(runs[:3]) + extra)
            rep = _minimal_replay(case, list(runs[:3]) + extra) if alone else \
                {"cases": cases[:pos + 1], "runs": [list(r) for r in runs], "pos": pos}
            ctx.violation(sig, rep,
                          f"{api}{ {k: v for k, v in sig.items() if k != 'site'} } with the same arguments and "
                          f"seed={case['seed']} returns different results in fresh interpreters "
                          f"(PYTHONHASHSEED / global RNG state"
                          + (" / completion order of the executor pool passed as parallel=" if
                             case.get("opts", {}).get("parallel") == "pool" else "") + " differ)")
    return set(failing)


def gather_tie(ctx, drv, cases, outs):
    """intermediate state of the forest against `Model/Gather.lean`: in every interpreter, round by
    round, the trees that the real code submits to the pool in round r+1 must be the parents the
    model selects from round r's results -- stable sort by score of the results gathered in
    SUBMISSION order, the best `keep` cyclically -- and the returned tree the first of the last
    round, whatever the completion order of the pool was"""
    for pos, case in enumerate(cases):
        o = case.get("opts", {})
        if case["api"] != "subtree_reconfigure_forest" or o.get("parallel") != "pool":
            continue
        num_trees = o.get("num_trees", 8)
        keep = max(1, int(num_trees * o.get("restart_fraction", 0.5)))
        for out in outs:
            r = out["results"][str(pos)]
            orders = (out.get("pool_orders") or {}).get(str(pos))
            if _is_exc(r) or not orders or any("error" in x for x in r["pool_rounds"]):
                continue
            rounds = r["pool_rounds"]
            ok = True
            why = None
            for i, rd in enumerate(rounds):
                vals = sorted(set(rd["score"]), key=float)
                ranks = [vals.index(x) for x in rd["score"]]
                if len(set(ranks)) < len(ranks):
                    ctx.count("gather:round_with_score_tie")
                m = drv.call("c17.gather", mode="submission", scores=ranks, order=orders[i], keep=keep,
                             num_trees=num_trees)
                ctx.traces += 1
                ctx.count("gather:rounds_checked")
                ctx.count("gather:order=" + out.get("sched", "?"))
                if "error" in m or not m.get("valid"):
                    ok, why = False, f"driver: {m}"
                    break
                if i + 1 < len(rounds):
                    want = [rd["result"][p] for p in m["parents"]]
                    if rounds[i + 1]["parent"] != want:
                        ok, why = False, f"round {i + 1}: submitted parents differ from the model's selection"
                        break
                else:
                    final = json.dumps([r["value"]["ssa_path"], sorted(k for k, _ in r["value"]["sliced"])])
                    if rd["result"][m["sorted"][0]] != final:
                        ok, why = False, "returned tree is not the first of the model's sorted last round"
            if not ok:
                ctx.corr_broken("forest rounds observed through the pool differ from Model/Gather (submission-order "
                                "gather + stable sort + best-keep cycle): " + str(why),
                                {"api": case["api"], "seed": case["seed"], "opts": o, "sched": out.get("sched")})
                return


def dynamic_round(ctx, rng, rounds, nruns, big=False, drv=None):
    cases = gen_cases(rng, rounds, big=big)
    runs = [(HASHSEEDS[k % len(HASHSEEDS)], rng.randrange(1 << 30), SCHEDS[k % 3]) for k in range(nruns)]
    shuf = _random.Random(rng.randrange(1 << 30))
    outs = run_workers(cases, runs, shuffle_rng=shuf, same_object=(0,))
    ctx.count("same_object_cases", len(cases))
    ctx.count("cases_with_history", sum(1 for c in cases if c.get("history")))
    # seed sensitivity (non-vacuity): the same cases with seed+1 in one more interpreter
    cases2 = [dict(c, seed=c["seed"] + 1) for c in cases]
    o2 = run_workers(cases2, [runs[0]])[0]
    sens = {pos: _key(_val(o2["results"][str(pos)])) != _key(_val(outs[0]["results"][str(pos)]))
            for pos in range(len(cases))}
    probes = {o.get("probe") for o in outs}
    ctx.notes["distinct_string_hashes_seen"] = max(ctx.notes.get("distinct_string_hashes_seen", 0), len(probes))
    failing = compare(ctx, cases, outs, runs, sens)
    if drv is not None:
        gather_tie(ctx, drv, cases, outs)
    return cases, failing


# ------------------------------------------------------------------------------------ static side
def static_side(ctx, drv):
    fx = _facts()
    verd = c17_facts.verdicts(fx)
    t = fx["table"]
    ctx.notes["fact_table"] = {"rows": len(t), "entries": len(fx["entries"]), "extras": len(fx["extras"]),
                               "opaque_calls": fx["opaque_calls"],
                               "reviewed_int_sets": fx["reviewed_int_sets"]}
    ctx.obligation("get_rng has the recognised three-branch shape (primitive of the fact table)",
                   fx["get_rng_shape_ok"], "utils.py get_rng")
    ctx.notes["static_tainted_in_scope"] = {q: v["tainted"][:3] for q, v in verd.items()
                                            if v["in_scope"] and not v["clean"]}
    ctx.notes["static_tainted_outside_scope"] = sorted(q for q, v in verd.items()
                                                       if not v["in_scope"] and not v["clean"])
    # (E) the Lean decision procedure on the same table, entry by entry
    ents = fx["entries"] + fx["extras"]
    resp = drv.call("c17.clean", table=[[r["calls"], r["rdGlobal"], r["rdHash"], r["rdSched"]] for r in t],
                    entries=[e["id"] for e in ents])
    if "error" in resp:
        ctx.corr_broken("driver error: " + resp["error"])
    else:
        for e, row in zip(ents, resp["entries"]):
            v = verd[e["q"]]
            ctx.traces += 1
            ctx.count("static:" + ("clean" if v["clean"] else "tainted"))
            want_taint = sorted(i for i in c17_facts.reach(t, e["id"])
                                if t[i]["rdGlobal"] or t[i]["rdHash"] or t[i]["rdSched"])
            if row["clean"] != v["clean"] or row["reach"] != v["reach"] or row["tainted"] != want_taint:
                ctx.corr_broken("Lean cleanFrom and Python reachability disagree", {"entry": e["q"], "lean": row})
        in_ids = [e["id"] for e in fx["entries"]]
        resp2 = drv.call("c17.clean", table=[[r["calls"], r["rdGlobal"], r["rdHash"], r["rdSched"]] for r in t], entries=in_ids)
        if resp2.get("all") != all(verd[e["q"]]["clean"] for e in fx["entries"]):
            ctx.corr_broken("Lean cleanAll and Python reachability disagree")
    # (E) the generator-variable data flow: Lean's verified `analyse` against the Python mirror that
    # decided the edge modes, skeleton by skeleton
    sks = fx["skeletons"]
    ctx.notes["rng_skeletons"] = {"count": len(sks), "sinks": sum(len(k["sinks"]) for k in sks),
                                  "with_branch_on_none": sum(1 for k in sks if "iteNone" in json.dumps(k["body"])),
                                  "with_loops": sum(1 for k in sks if '"loop"' in json.dumps(k["body"])),
                                  "bad": {k["q"]: k["bad"] for k in sks if k["bad"]}}
    ctx.obligation("the generator-variable skeletons could be extracted for the seeded functions",
                   len(sks) >= 30, f"{len(sks)} skeletons")
    resp4 = drv.call("c17.rngflow", skeletons=[{"nvars": k["nvars"], "attrs": k["attrs"], "body": k["body"]}
                                               for k in sks])
    if "error" in resp4:
        ctx.corr_broken("driver error (c17.rngflow): " + resp4["error"])
    else:
        for k, row in zip(sks, resp4["results"]):
            ctx.traces += 1
            ctx.count("rngflow:" + ("ok" if not k["bad"] else "bad-sink"))
            if row["bad"] != k["bad"]:
                ctx.corr_broken("Lean RFlow.analyse and the Python mirror disagree on a skeleton",
                                {"fn": k["q"], "lean": row["bad"], "python": k["bad"]})
    # the analysis itself on fixed probes with known answers (both implementations)
    from . import c17_rngflow as rf
    probes = [
        # (skeleton body, nvars, attrs, expected bad sinks)
        (["seq", ["ite", ["assign", 1, ["getRng", ["var", 0]]], ["assign", 1, ["none"]]],
          ["loop", ["use", 2, True, ["var", 1]]]], 2, [], [2]),
        (["seq", ["ite", ["assign", 1, ["getRng", ["var", 0]]], ["assign", 1, ["none"]]],
          ["iteNone", 1, ["skip"], ["use", 0, False, ["var", 1]]]], 2, [], []),
        (["use", 0, False, ["or", ["var", 0], ["global"]]], 1, [], [0]),          # `(seed or random)`: seed 0
        (["seq", ["assign", 1, ["getRng", ["var", 0]]], ["use", 0, False, ["or", ["var", 1], ["global"]]]], 2, [], []),
        (["seq", ["loop", ["seq", ["ite", ["brk"], ["skip"]], ["assign", 1, ["none"]]]],
          ["use", 0, True, ["var", 1]]], 2, [1], [0]),
        (["seq", ["loop", ["seq", ["assign", 1, ["none"]], ["seq", ["ite", ["brk"], ["skip"]],
                                                               ["assign", 1, ["getRng", ["var", 0]]]]]],
          ["use", 0, True, ["var", 1]]], 2, [1], [0]),
        (["seq", ["ite", ["ret"], ["assign", 1, ["draw", ["getRng", ["var", 0]]]]],
          ["use", 0, True, ["var", 1]]], 2, [], []),
        (["use", 0, True, ["getRng", ["none"]]], 1, [], [0]),
        (["use", 0, True, ["both", ["var", 0], ["const"]]], 1, [], []),
        (["use", 0, True, ["choice", ["var", 0], ["draw", ["global"]]]], 1, [], [0]),
    ]
    r5 = drv.call("c17.rngflow", skeletons=[{"nvars": n, "attrs": a, "body": b} for b, n, a, _ in probes])
    for (b, n, a, want), row in zip(probes, r5.get("results", [])):
        got_py = rf.bad_sinks({"body": b, "nvars": n, "attrs": a})
        ctx.traces += 1
        if row["bad"] != want or got_py != want:
            ctx.corr_broken("data-flow probe: unexpected verdict", {"body": b, "want": want, "lean": row["bad"],
                                                                    "python": got_py})
    # hidden shared state: (copy depth, in-place mutation depth) of every attribute of set_state_from
    sh = fx["sharing"]
    ctx.notes["sharing_table"] = [f"{r['cls']}.{r['attr']}: copy {r['copy']}, mutated {r['mut']}"
                                  + (f" at {r['where']}" if r["where"] else "") for r in sh]
    ctx.obligation("every attribute copy in set_state_from has a recognised form",
                   all(r["copy_recognised"] for r in sh) and len(sh) >= 10,
                   "; ".join(f"{r['cls']}.{r['attr']}" for r in sh if not r["copy_recognised"]))
    resp3 = drv.call("c17.sharesafe", rows=[[r["copy"], r["mut"]] for r in sh])
    want_bad = [i for i, r in enumerate(sh) if r["mut"] > r["copy"]]
    ctx.traces += 1
    if resp3.get("safe") != (not want_bad) or resp3.get("bad") != want_bad:
        ctx.corr_broken("Lean Share.safe and the Python comparison disagree", {"lean": resp3})
    ctx.notes["static_shared_and_mutated"] = [ctx.notes["sharing_table"][i] for i in want_bad]
    verd["__sharing_safe__"] = {"clean": not want_bad}
    return verd


def get_rng_tie(ctx, drv):
    """the three branches of the real get_rng against Env.read of the model"""
    import cotengra as ctg
    rng = ctx.rng
    for _ in range(40 if ctx.tier == "quick" else 400):
        n = rng.randint(1, 6)
        seed = rng.randrange(10 ** 6)
        gseed = rng.randrange(10 ** 6)
        kind = rng.choice(["int", "none", "instance"])
        ref_seeded = _random.Random(seed)
        seeded_tape = [ref_seeded.randrange(1 << 30) for _ in range(n + 2)]
        ref_global = _random.Random(gseed)
        global_tape = [ref_global.randrange(1 << 30) for _ in range(n + 2)]
        _random.seed(gseed)
        if kind == "int":
            r = ctg.utils.get_rng(seed)
            src = "seeded"
        elif kind == "none":
            r = ctg.utils.get_rng(None)
            src = "global"
        else:
            r = ctg.utils.get_rng(_random.Random(seed))
            src = "seeded"
        got = [r.randrange(1 << 30) for _ in range(n)]
        m = drv.call("c17.draws", src=src, n=n, seeded=seeded_tape, **{"global": global_tape}, hash=0)
        ctx.traces += 1
        ctx.count("get_rng:" + kind)
        if m.get("values") != got:
            # oracle: a seeded generator must reproduce random.Random(seed); None must be the global one
            want = seeded_tape[:n] if src == "seeded" else global_tape[:n]
            if got != want:
                ctx.violation({"site": "get_rng", "kind": kind},
                              {"get_rng": {"kind": kind, "seed": seed, "gseed": gseed, "n": n}},
                              f"get_rng({kind}) does not produce the stream of "
                              f"{'random.Random(seed)' if src == 'seeded' else 'the global generator'}")
            else:
                ctx.corr_broken("model Env.read and real get_rng disagree", {"kind": kind, "seed": seed})


def get_rng_tie2(ctx, drv):
    """every branch of the real get_rng against `GetRng.drawsVia`: int / str seed, None, the `random`
    module itself, a shared `random.Random` instance (draws advance the caller's generator), an
    object `random.Random` cannot be seeded with (numpy Generator -> TypeError)"""
    import numpy as np
    import cotengra as ctg
    rng = ctx.rng
    for _ in range(40 if ctx.tier == "quick" else 300):
        n = rng.randint(0, 6)
        gseed = rng.randrange(10 ** 6)
        kind = rng.choice(["int", "int0", "str", "none", "module", "instance", "unsupported"])
        seed = 0 if kind == "int0" else (f"s{rng.randrange(10 ** 6)}" if kind == "str" else rng.randrange(10 ** 6))
        extra = rng.randint(0, 3)
        ref = _random.Random(seed)
        seeded_tape = [ref.randrange(1 << 30) for _ in range(n + extra + 2)]
        refg = _random.Random(gseed)
        global_tape = [refg.randrange(1 << 30) for _ in range(n + extra + 2)]
        _random.seed(gseed)
        inst = None
        err = None
        try:
            if kind in ("int", "int0", "str"):
                r = ctg.utils.get_rng(seed)
            elif kind == "none":
                r = ctg.utils.get_rng(None)
            elif kind == "module":
                r = ctg.utils.get_rng(_random)
            elif kind == "instance":
                inst = _random.Random(seed)
                r = ctg.utils.get_rng(inst)
            else:
                r = ctg.utils.get_rng(np.random.default_rng(seed))
            got = [r.randrange(1 << 30) for _ in range(n)]
        except TypeError:
            err, got = "TypeError", None
        after_global = [_random.randrange(1 << 30) for _ in range(extra)]
        after_inst = [inst.randrange(1 << 30) for _ in range(extra)] if inst is not None else None
        mk = {"int0": "int", "str": "int"}.get(kind, kind)
        m = drv.call("c17.getrng", kind=mk, n=n, seeded=seeded_tape, **{"global": global_tape})
        ctx.traces += 1
        ctx.count("get_rng2:" + kind)
        if err or m.get("error"):
            if (err or None) != (m.get("error") or None):
                ctx.corr_broken("GetRng.getRng and the real get_rng disagree about TypeError", {"kind": kind})
            continue
        gp = m["global_pos"]
        want_after_g = global_tape[gp:gp + extra]
        ip = m["instance_pos"]
        ok = (m["values"] == got and after_global == want_after_g and
              (after_inst is None or after_inst == seeded_tape[ip:ip + extra]))
        if not ok:
            # oracle (independent of the model): a seeded call reproduces random.Random(seed) and
            # leaves the global generator alone; None / the module draw from the global generator
            seeded_kind = kind in ("int", "int0", "str", "instance")
            want = seeded_tape[:n] if seeded_kind else global_tape[:n]
            want_g = global_tape[:extra] if seeded_kind else global_tape[n:n + extra]
            if got != want or after_global != want_g:
                ctx.violation({"site": "get_rng", "kind": kind},
                              {"get_rng": {"kind": {"int0": "int", "str": "int", "module": "none"}.get(kind, kind),
                                           "seed": seed if not isinstance(seed, str) else 0, "gseed": gseed,
                                           "n": max(n, 1)}},
                              f"get_rng({kind}) does not draw from "
                              f"{'random.Random(seed)' if seeded_kind else 'the global generator'}")
            else:
                ctx.corr_broken("GetRng.drawsVia and the real get_rng disagree", {"kind": kind, "seed": seed})


# ------------------------------------------------------------------------------------ entry points
def _replay_corpus(ctx):
    d = os.path.join(common.VERIF, "corpus", PROP)
    if not os.path.isdir(d):
        return
    for fn in sorted(os.listdir(d)):
        if not fn.endswith(".json"):
            continue
        obj = json.load(open(os.path.join(d, fn)))
        rep = obj.get("replay", obj)
        ctx.count("corpus")
        if not replay(ctx, rep):
            sig = obj.get("signature") or _sig(rep["cases"][-1])
            ctx.violation(sig, rep, f"corpus case {fn} fails again: " + obj.get("what", ""))


def run(ctx, drv):
    _replay_corpus(ctx)
    verd = static_side(ctx, drv)
    get_rng_tie(ctx, drv)
    get_rng_tie2(ctx, drv)
    nruns = 3 if ctx.tier == "quick" else 6
    rounds = 24 if ctx.tier == "quick" else 160
    failing = set()
    done = 0
    while done < rounds and ctx.time_left() > 60:
        k = min(5, rounds - done)
        _, f = dynamic_round(ctx, ctx.rng, k, nruns, big=(done % 10 == 5), drv=drv)
        failing |= f
        done += k
    # validation of the extractor's verdicts: a dynamically non-deterministic API must be tainted
    for api in sorted(failing):
        ents = API_ENTRIES.get(api, [])
        if ents and all(verd.get(q, {"clean": True})["clean"] for q in ents):
            ctx.corr_broken("the fact extractor found nothing for an API that is observed to be non-deterministic",
                            {"api": api, "entries": ents})
    if ctx.dist.get("same_object_history_violations") and verd["__sharing_safe__"]["clean"]:
        ctx.corr_broken("a result depends on the history of the same object although the sharing table "
                        "(copy depth vs in-place mutation depth) is safe")
    ctx.notes["dynamic_nondeterministic_apis"] = sorted(failing)
    ctx.notes["static_vs_dynamic"] = {
        api: {"static_clean": all(verd.get(q, {"clean": True})["clean"] for q in ents),
              "dynamic_deterministic": api not in failing}
        for api, ents in sorted(API_ENTRIES.items())}
    verd.pop("__sharing_safe__", None)


def search(ctx):
    """Implementation-only search: a larger campaign (more interpreters, bigger networks)."""
    found = False
    before = ctx.violations + len(ctx.known_hits)
    for k in range(12):
        if ctx.time_left() < 60:
            break
        _, failing = dynamic_round(ctx, ctx.rng, 5, 5, big=(k % 2 == 1))
        if ctx.violations + len(ctx.known_hits) > before:
            found = ctx.violations > 0
            if found:
                break
    return found


def replay(ctx, obj):
    if "get_rng" in obj:
        import cotengra as ctg
        g = obj["get_rng"]
        ref = _random.Random(g["seed"])
        want_s = [ref.randrange(1 << 30) for _ in range(g["n"])]
        refg = _random.Random(g["gseed"])
        want_g = [refg.randrange(1 << 30) for _ in range(g["n"])]
        _random.seed(g["gseed"])
        r = ctg.utils.get_rng({"int": g["seed"], "none": None}.get(g["kind"], _random.Random(g["seed"])))
        got = [r.randrange(1 << 30) for _ in range(g["n"])]
        return got == (want_g if g["kind"] == "none" else want_s)
    cases = obj["cases"]
    runs = [tuple(r) for r in obj["runs"]]
    so = tuple(range(len(runs))) if obj.get("same_object") else ()
    outs = run_workers(cases, runs, same_object=so)
    pos = obj.get("pos", len(cases) - 1)
    if any((o.get("selfcheck") or {}).get(str(pos)) for o in outs):
        return False
    return len({_key(_val(o["results"][str(pos)])) for o in outs}) == 1
