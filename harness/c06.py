"""C06 -- slices partition the contraction exactly and are reassembled correctly.

Implementation-side oracle (real code + harness/refimpl.dense_einsum only), per case
(network x tree x history of remove_ind(slice | project) / restore_ind, incl. failing calls):
  * the slicing state equals an independent simulation of the history (set of sliced indices,
    flags, multiplicity, nslices, nchunks, sliced_inputs);
  * slice_key(i), i = 0..nslices-1 (ALL of them) is a bijection onto the value combinations;
  * contract_slice(arrays, i) is the dense section at slice_key(i), for all i;
  * tree.contract(arrays) (= gather_slices of all slices) is the dense einsum, axes in output
    order, a projected output index being a length-1 axis holding the chosen section;
  * gather_slices on synthetic per-key integer arrays equals the sum/stack definition;
  * gen_output_chunks(with_key=True) yields every output combination exactly once, each chunk
    being the dense section-sum of its key.
Tie to the Lean model (Model/Slicing.lean), numbering-independent:
  (A) the verified certificate checker `keysCert` accepts the real key table;
  (E) state after the history (as sets), selectors of slice_arrays for the real key, basic
      indexing (Arr.select) vs numpy, gather_slices on per-key synthetic slices, chunk table.
  Informational only (a different but consistent numbering is legitimate): order of
  sliced_inds, strides and slice_key(i) equal to the model's.
"""

import glob
import itertools
import json
import os
import random

import numpy as np

import cotengra as ctg

from . import common, gen, refimpl

PROP = "C06"
LEVEL = "proof"
LEVEL_TEXT = (
    "Lean 4 theorems over a transcription of SliceInfo ordering, get_slice_strides, slice_key, the slicing "
    "state of remove_ind/restore_ind, slice_arrays selectors, gather_slices (sum into chunks + recursive "
    "stack with axis = output_pos - len(loc)) and gen_output_chunks: for every sliced_inds dict / every "
    "history, slice numbers enumerate the value combinations bijectively (mixed radix, projected = the "
    "chosen value), strides are suffix products, chunks tile 0..nslices-1 exactly once with pairwise "
    "distinct keys covering every output combination, the stacking recursion puts every sliced output "
    "index at its declared axis, and summing/stacking the per-slice einsums of the sliced network gives "
    "the einsum of the unsliced one (projection = the chosen section).  The model is tied to /repo on every "
    "run by a verified certificate checker on the real key table and by equality correspondence of state, "
    "selectors, gather and chunk results; an implementation-only oracle compares contract / contract_slice "
    "/ gather_slices / gen_output_chunks with an independent dense einsum for ALL slice numbers.")
LEVEL_NOTE = (
    "Trusted: Lean kernel; the hand-written model (validated on the generated cases only); functional-array "
    "model of +, numpy.stack and basic indexing (validated against numpy on integers); correctness of the "
    "per-slice contraction itself is C01's, here it enters as hypothesis (Lean) and is checked by the dense "
    "oracle (harness). Exponent stripping in gather_slices is not modelled.")
TECHNIQUE = ("Lean 4 proof (mixed-radix enumeration, invariant over histories, induction over the stacking "
             "recursion, Fubini for list sums) + certificate checking and differential correspondence with core.py")
LEAN_MODULES = ["CotengraVerif.Props.C06"]
THEOREMS = [
    "Cotengra.C06.strides_spec",
    "Cotengra.C06.sliceKey_enumerates",
    "Cotengra.C06.sliceKey_bijective",
    "Cotengra.C06.sliceNum_inverse",
    "Cotengra.C06.reachable_inv",
    "Cotengra.C06.nslices_eq",
    "Cotengra.C06.chunks_tile",
    "Cotengra.C06.chunk_slices_same_key",
    "Cotengra.C06.chunk_keys_cover",
    "Cotengra.C06.genOutputChunks_spec",
    "Cotengra.C06.stack_axes",
    "Cotengra.C06.gather_denote",
    "Cotengra.C06.gather_sum",
    "Cotengra.C06.keysCert_sound",
    "Cotengra.C06.slice_is_section",
    "Cotengra.C06.slice_sum",
    "Cotengra.C06.gather_correct",
    "Cotengra.C06.gather_correct_canonical",
    "Cotengra.C06.gather_einsum_slices",
    "Cotengra.C06.chunk_correct",
]
TRUSTED = [
    "Lean 4.33 kernel; axioms ⊆ {propext, Classical.choice, Quot.sound}",
    "hand-written model Model/Slicing.lean of core.py:109-132, 384-398, 1606-1644, 1686-1718, 3245-3409, "
    "tied by this run's certificate check / correspondence on the generated cases only",
    "functional-array model of x+y, numpy.stack, x[ints and full slices] (validated against numpy on integer arrays)",
    "harness canonicalisation (labels -> naturals monotone in label order; dicts -> sorted rows)",
    "per-slice contraction correctness (contract_core) is property C01; here checked by the dense oracle only",
]
ASSUMPTIONS = [
    "output indices are distinct and occur in some input; sizes >= 1; labels are totally ordered (str)",
    "projected value < dimension; strip_exponent=False; numpy backend with integer arrays",
]
RULE = ("random networks over index kinds {bond,hyper,dangling,out1,outk,all,repeated,batch} with labels permuted "
        "against appearance order x random/caterpillar/balanced trees x histories of 1-6 remove_ind(slice|project)/"
        "restore_ind calls incl. failing ones (ordered subsets of <= 4 indices, product <= 4096); ALL slice numbers "
        "of every case are checked; non-trivial = nslices >= 2 or a projected index; distinct by content hash")
BUDGET = {"quick": 600, "thorough": 3000}


# --------------------------------------------------------------------------------------------
# generation


def permute_net(rng, net):
    inds = net.indices()
    perm = list(range(len(inds)))
    rng.shuffle(perm)
    m = {ix: perm[k] for k, ix in enumerate(inds)}
    return gen.Net([[m[i] for i in t] for t in net.inputs], [m[i] for i in net.output],
                   {m[i]: d for i, d in net.sizes.items()})


def gen_case(rng, tier):
    big = tier != "quick"
    for _ in range(100):
        net = gen.rand_net(rng, nmin=2, nmax=6 if big else 5, max_inds=8 if big else 7,
                           dims=(1, 2, 2, 3, 3, 4) if big else (1, 2, 2, 3, 3), max_rank=4,
                           max_total=20000 if big else 5000)
        if len(net.indices()) == 0 or len(net.indices()) > 26:
            continue
        net = permute_net(rng, net)
        break
    n = len(net.inputs)
    tree = gen.rand_tree(rng, n)
    inds = net.indices()
    ops, live = [], []
    nops = rng.choice([1, 1, 2, 2, 3, 3, 4, 5, 6])
    prod = 1
    for _ in range(nops):
        r = rng.random()
        if live and r < 0.12:
            ix = rng.choice(live)
            ops.append(["restore", ix])
            live.remove(ix)
            continue
        if r < 0.17:
            ops.append(["restore", rng.choice(inds)])  # mostly a KeyError
            if ops[-1][1] in live:
                live.remove(ops[-1][1])
            continue
        if live and r < 0.22:
            ops.append(["remove", rng.choice(live), None])  # ValueError: already sliced
            continue
        free = [ix for ix in inds if ix not in live]
        if not free or len(live) >= 4:
            continue
        # bias towards output indices so that stacking is exercised
        outs = [ix for ix in free if ix in net.output]
        ix = rng.choice(outs) if outs and rng.random() < 0.5 else rng.choice(free)
        if rng.random() < 0.3:
            ops.append(["remove", ix, rng.randrange(net.sizes[ix])])
        else:
            if prod * net.sizes[ix] > 4096:
                continue
            prod *= net.sizes[ix]
            ops.append(["remove", ix, None])
        live.append(ix)
    return {"net": net.json(), "tree": tree, "ops": ops, "seed": rng.randrange(1 << 30),
            "bystander": rng.random() < 0.4, "touch": rng.random() < 0.5}


# --------------------------------------------------------------------------------------------
# running the real code


class _Rec:
    """stands in for an array: records the indexing object slice_arrays applies"""

    def __getitem__(self, sel):
        return ("sel", sel)


def to_arr(x):
    x = np.asarray(x)
    return {"shape": [int(d) for d in x.shape], "data": [int(v) for v in x.reshape(-1)]}


def touch(tree, arrays):
    """use the tree between two steps of the history (numbering slices, contracting): whatever it remembers
    from this moment must not survive the next change of the slicing state"""
    try:
        for i in range(min(int(tree.nslices), 6)):
            tree.slice_key(i)
        tree.nchunks
        if arrays is not None:
            tree.contract(arrays)
            if tree.sliced_inds:
                for _ in tree.gen_output_chunks(arrays, with_key=True):
                    break
    except Exception:  # noqa: BLE001  (judged at the end of the history, on the final state)
        pass


def apply_ops(tree, ops, touch_at=(), arrays=None):
    errors = []
    for k, op in enumerate(ops):
        if k in touch_at:
            touch(tree, arrays)
        try:
            if op[0] == "remove":
                if op[2] is None:
                    tree.remove_ind_(gen.sym(op[1]))
                else:
                    tree.remove_ind_(gen.sym(op[1]), project=op[2])
            else:
                tree.restore_ind_(gen.sym(op[1]))
            errors.append(None)
        except (ValueError, KeyError) as e:
            errors.append(type(e).__name__)
    return errors


def build(case):
    net = gen.Net.from_json(case["net"])
    tree = gen.real_tree(ctg, net, case["tree"])
    if case.get("touch"):
        import random
        rr = random.Random(case["seed"] ^ 0x70C)
        at = {k for k in range(len(case["ops"])) if rr.random() < 0.6}
        errors = apply_ops(tree, case["ops"], at, rand_arrays(net, case["seed"]))
    else:
        errors = apply_ops(tree, case["ops"])
    if case.get("bystander"):
        bystander(tree, case["seed"])
    return net, tree, errors


def bystander(tree, seed):
    """Somebody else works on a *copy* of the sliced tree (a non-inplace transformation returns a new tree and
    leaves the receiver alone): the receiver must keep describing the same partition. The results are thrown
    away; everything below is observed on the receiver."""
    import random
    rr = random.Random(seed)
    live = list(tree.sliced_inds)
    free = [ix for ix in tree.size_dict if ix not in tree.sliced_inds]
    for _ in range(rr.choice([1, 1, 2, 3])):
        k = rr.randrange(6)
        try:
            if k == 0 and live:
                tree.restore_ind(rr.choice(live))
            elif k == 1:
                tree.unslice_all()
            elif k == 2 and free:
                tree.remove_ind(rr.choice(free))
            elif k == 3 and live:
                c = tree.copy()
                c.restore_ind_(rr.choice(live))
            elif k == 4 and live:
                if rr.random() < 0.5:
                    tree.unslice_rand(seed=rr.randrange(1 << 20))
                else:
                    c = tree.copy()
                    c.unslice_rand_(seed=rr.randrange(1 << 20))
                    c.unslice_all_()
            elif free:
                c = tree.copy()
                ix = rr.choice(free)
                c.remove_ind_(ix, project=rr.randrange(tree.size_dict[ix]))
        except (ValueError, KeyError):
            pass


def spec_state(net, ops):
    """independent simulation of the history: dict ind -> project (None = sliced)"""
    live, errors = {}, []
    for op in ops:
        if op[0] == "remove":
            if op[1] in live:
                errors.append("ValueError")
            else:
                live[op[1]] = op[2]
                errors.append(None)
        else:
            if op[1] in live:
                del live[op[1]]
                errors.append(None)
            else:
                errors.append("KeyError")
    return live, errors


def observe(case, full=True):
    net, tree, errors = build(case)
    us = gen.unsym(net)
    obs = {"errors": errors}
    obs["sliced"] = [[1 if si.inner else 0, us[si.ind], int(si.size), si.project]
                     for si in tree.sliced_inds.values()]
    obs["sliced_keys_match"] = [us[k] for k in tree.sliced_inds] == [r[1] for r in obs["sliced"]]
    obs["mult"] = int(tree.multiplicity)
    obs["nslices"] = int(tree.nslices)
    obs["nchunks"] = int(tree.nchunks)
    obs["inputs"] = sorted(int(i) for i in tree.sliced_inputs)
    obs["strides"] = [int(s) for s in ctg.core.get_slice_strides(tree.sliced_inds)]
    ns = obs["nslices"]
    obs["keys"] = [[[us[k], int(v)] for k, v in tree.slice_key(i).items()] for i in range(ns)]
    if not full:
        return obs, net, tree
    recs = [_Rec() for _ in net.inputs]
    sels = []
    for i in range(ns):
        out = tree.slice_arrays(recs, i)
        row = []
        for x in out:
            if isinstance(x, tuple) and x and x[0] == "sel":
                row.append([None if isinstance(s, slice) else int(s) for s in x[1]])
            else:
                row.append(None)
        sels.append(row)
    obs["selectors"] = sels
    return obs, net, tree


def rand_arrays(net, seed):
    rg = np.random.default_rng(seed)
    return [rg.integers(-2, 3, size=s) for s in net.shapes()]


# --------------------------------------------------------------------------------------------
# implementation-side oracle


def dense(net, arrays, fixed):
    oshape, res = refimpl.dense_einsum(net.inputs, net.output, net.sizes, arrays, fixed=fixed)
    return oshape, refimpl.dense_to_nested(oshape, res)


def same(real, oshape, nested):
    real = np.asarray(real)
    want = np.array(nested, dtype=object).reshape(oshape) if oshape else np.array(nested, dtype=object)
    if tuple(real.shape) != tuple(oshape):
        return False
    return bool(np.array_equal(real.astype(object), want))


def same_squeezed(real, oshape, nested, squeeze_axes):
    """`real` lacks the axes listed in squeeze_axes (they have length 1 in the dense result)"""
    real = np.asarray(real)
    want = np.array(nested, dtype=object).reshape(oshape) if oshape else np.array(nested, dtype=object)
    keep = tuple(d for k, d in enumerate(oshape) if k not in squeeze_axes)
    if tuple(real.shape) != keep:
        return False
    return bool(np.array_equal(real.astype(object), want.reshape(keep)))


def synth_slice(seed, key_items, shape):
    """synthetic per-slice integer array, a function of the *key* (not of the slice number)"""
    h = hash((seed, tuple(sorted((int(a), int(b)) for a, b in key_items)))) & 0x7FFFFFFF
    rg = np.random.default_rng(h)
    return rg.integers(-5, 6, size=shape)


def oracle(case, obs, net, tree):
    """Returns None or (kind, detail). Uses only the real tree + refimpl + plain Python."""
    live, spec_err = spec_state(net, case["ops"])
    if obs["errors"] != spec_err:
        return ("history-errors", [obs["errors"], spec_err])
    # which indices are sliced / projected onto what (the inner/size fields are representation)
    rows = sorted([r[1], r[3]] for r in obs["sliced"])
    want = sorted([ix, p] for ix, p in live.items())
    if rows != want or not obs["sliced_keys_match"]:
        return ("state-sliced_inds", [rows, want])
    mult = 1
    nch = 1
    for ix, p in live.items():
        if p is None:
            mult *= net.sizes[ix]
            if ix in net.output:
                nch *= net.sizes[ix]
    if obs["mult"] != mult or obs["nslices"] != mult:
        return ("state-multiplicity", [obs["mult"], obs["nslices"], mult])
    if obs["nchunks"] != nch:
        return ("state-nchunks", [obs["nchunks"], nch])
    sin = sorted(i for i, t in enumerate(net.inputs) if any(ix in live for ix in t))
    if not set(sin) <= set(obs["inputs"]):  # a superset is harmless (an all-slices selector)
        return ("state-sliced_inputs", [obs["inputs"], sin])

    # --- keys: bijection onto the combinations ---------------------------------------------
    ranges = {ix: ([p] if p is not None else list(range(net.sizes[ix]))) for ix, p in live.items()}
    seen = set()
    for i, key in enumerate(obs["keys"]):
        kd = dict((a, b) for a, b in key)
        if sorted(kd) != sorted(live) or len(key) != len(kd) or any(kd[ix] not in ranges[ix] for ix in kd):
            return ("key-invalid", [i, key])
        fk = tuple(sorted(kd.items()))
        if fk in seen:
            return ("key-repeated", [i, key])
        seen.add(fk)
    total = 1
    for r in ranges.values():
        total *= len(r)
    if len(seen) != total:
        return ("key-count", [len(seen), total])

    arrays = rand_arrays(net, case["seed"])
    proj = {ix: p for ix, p in live.items() if p is not None}
    sliced_out_axes = [k for k, ix in enumerate(net.output) if ix in live]

    # --- every slice is the dense section at its key ---------------------------------------
    slices = []
    for i, key in enumerate(obs["keys"]):
        fixed = dict((a, b) for a, b in key)
        if live:
            # execution options of the slice contraction (forwarded to contract_core): the section is the same
            got = tree.contract_slice(arrays, i, **_slice_opts(case["seed"], i))
        else:
            got = tree.contract_core(arrays)
        slices.append(got)
        oshape, nested = dense(net, arrays, fixed)
        if not same_squeezed(got, oshape, nested, sliced_out_axes):
            return ("slice-section", [i, key])

    # --- whole contraction -----------------------------------------------------------------
    full = tree.contract(arrays)
    oshape, nested = dense(net, arrays, proj)
    if not same(full, oshape, nested):
        return ("contract", [list(np.asarray(full).shape), list(oshape)])
    if live:
        again = tree.gather_slices(slices)
        if not same(again, oshape, nested):
            return ("gather-real-slices", None)

    # --- gather_slices on synthetic per-key slices -----------------------------------------
    if live:
        red_shape = tuple(net.sizes[ix] for ix in net.output if ix not in live)
        syn = [synth_slice(case["seed"], key, red_shape) for key in obs["keys"]]
        got = np.asarray(tree.gather_slices(syn))
        oshape_syn = tuple((len(ranges[ix]) if ix in live else net.sizes[ix]) for ix in net.output)
        if tuple(got.shape) != oshape_syn:
            return ("gather-synthetic-shape", [list(got.shape), list(oshape_syn)])
        for pos in itertools.product(*[range(d) for d in oshape_syn]):
            want_v = 0
            red = tuple(p for p, ix in zip(pos, net.output) if ix not in live)
            for key, s in zip(obs["keys"], syn):
                kd = dict((a, b) for a, b in key)
                if all(kd[ix] == ranges[ix][p] for p, ix in zip(pos, net.output) if ix in live):
                    want_v += int(s[red]) if red else int(s)
            if int(got[pos]) != want_v:
                return ("gather-synthetic-value", [list(pos), int(got[pos]), want_v])

    # --- chunks ----------------------------------------------------------------------------
    if live:
        us = gen.unsym(net)
        chunks = list(tree.gen_output_chunks(arrays, with_key=True))
        out_live = [ix for ix in net.output if ix in live]
        seen_c = set()
        for chunk, key in chunks:
            kd = {us[k]: int(v) for k, v in key.items()}
            if sorted(kd) != sorted(out_live) or any(kd[ix] not in ranges[ix] for ix in kd):
                return ("chunk-key-invalid", kd)
            fk = tuple(sorted(kd.items()))
            if fk in seen_c:
                return ("chunk-key-repeated", kd)
            seen_c.add(fk)
            fixed = dict(proj)
            fixed.update(kd)
            oshape_c, nested_c = dense(net, arrays, fixed)
            if not same_squeezed(chunk, oshape_c, nested_c, sliced_out_axes):
                return ("chunk-value", kd)
        want_n = 1
        for ix in out_live:
            want_n *= len(ranges[ix])
        if len(chunks) != want_n or len(chunks) != obs["nchunks"]:
            return ("chunk-count", [len(chunks), want_n, obs["nchunks"]])
        # the key-less form yields the same chunks in the same order; contraction options are forwarded
        plain = list(tree.gen_output_chunks(arrays, **_slice_opts(case["seed"], 0)))
        if len(plain) != len(chunks) or any(
                np.asarray(a).shape != np.asarray(c).shape or not np.array_equal(np.asarray(a), np.asarray(c))
                for a, (c, _) in zip(plain, chunks)):
            return ("chunks-without-key-differ", None)
        # slice_key with explicitly supplied strides (as contract_slice-style loops do) is the same key
        strides = ctg.core.get_slice_strides(tree.sliced_inds)
        for i in range(min(obs["nslices"], 64)):
            if dict(tree.slice_key(i, strides=strides)) != dict(tree.slice_key(i)):
                return ("slice_key-with-strides-differs", i)
    return None


def _slice_opts(seed, i):
    import random
    rr = random.Random(seed * 1000003 + i)
    if rr.random() < 0.6:
        return {}
    opts = {}
    if rr.random() < 0.5:
        opts["prefer_einsum"] = True
    if rr.random() < 0.5:
        opts["order"] = rr.choice(["dfs", "surface_order"]) if False else None
    if rr.random() < 0.5:
        opts["implementation"] = rr.choice(["cotengra", "autoray"])
    return {k: v for k, v in opts.items() if v is not None}


# --------------------------------------------------------------------------------------------
# correspondence with the Lean model


def kinds_of(net, live):
    ks = []
    for ix, p in live.items():
        holders = [k for k, t in enumerate(net.inputs) if ix in t]
        k = "output" if ix in net.output else "inner"
        if len(holders) >= 3 or (len(holders) == 2 and ix in net.output):
            k += "+hyper"
        if len(holders) == 1:
            k += "+single-tensor"
        if any(t.count(ix) > 1 for t in net.inputs):
            k += "+repeated"
        if p is not None:
            k += "+projected"
        if net.sizes[ix] == 1:
            k += "+size1"
        ks.append(k)
    return ks


def correspond(ctx, drv, case, obs, net, tree):
    ok = True
    notes = []
    # E1: state after the history
    r = drv.call("c06.state", net=case["net"], ops=case["ops"])
    if "error" in r:
        ctx.corr_broken("driver error c06.state: " + r["error"], case)
        return
    if not r.get("same_as_runOps", False):
        ok = False
        notes.append("driver stepping differs from runOps")
    m_err = [e for e in r["errors"]]
    if m_err != [e is not None for e in obs["errors"]]:
        ok = False
        notes.append("which calls raise")
    if sorted([x[1], x[3]] for x in r["sliced"]) != sorted([x[1], x[3]] for x in obs["sliced"]):
        ok = False
        notes.append("which indices are sliced / projected")
    ctx.count("SliceInfo-fields:" + ("identical" if sorted(r["sliced"]) == sorted(obs["sliced"])
                                     else "inner/size-differ"))
    if r["mult"] != obs["mult"] or r["nchunks"] != obs["nchunks"] or \
            not set(r["inputs"]) <= set(obs["inputs"]):
        ok = False
        notes.append("multiplicity/nchunks/sliced_inputs")
    ctx.count("sliced_inputs:" + ("exact" if r["inputs"] == obs["inputs"] else "superset-of-model"))
    same_order = r["sliced"] == obs["sliced"] and r["strides"] == obs["strides"]
    ctx.count("numbering:order+strides-identical" if same_order else "numbering:order-or-strides-differ")

    # A1: certificate on the real key table (numbering independent)
    order = [row[1] for row in obs["sliced"]]
    canon = [[[ix, dict((a, b) for a, b in key)[ix]] for ix in order] for key in obs["keys"]]
    cert_sl = [[0 if row[1] in net.output else 1, row[1], 1 if row[3] is not None else net.sizes[row[1]], row[3]]
               for row in obs["sliced"]]
    c = drv.call("c06.cert", sliced=cert_sl, keys=canon)
    if not c.get("ok", False):
        ok = False
        notes.append("keysCert rejects the real slice_key table")
    mk = drv.call("c06.keys", sliced=r["sliced"])
    same_keys = same_order and mk.get("keys") == obs["keys"]
    ctx.count("numbering:keys-identical" if same_keys else "numbering:keys-differ")
    if not same_keys:
        ctx.notes["numbering_differs_from_model"] = ctx.notes.get("numbering_differs_from_model", 0) + 1

    live = {row[1]: row[3] for row in obs["sliced"]}
    # E2: selectors for the real key of every slice
    for i, key in enumerate(obs["keys"]):
        s = drv.call("c06.selectors", terms=net.inputs, sliced_inputs=obs["inputs"], key=key)
        if s.get("selectors") != obs["selectors"][i]:
            ok = False
            notes.append("slice_arrays selectors")
            break

    if live and "error" not in mk:
        arrays = rand_arrays(net, case["seed"])
        mkeys = mk["keys"]
        index_of = {tuple(sorted((a, b) for a, b in key)): i for i, key in enumerate(obs["keys"])}
        fkeys = [tuple(sorted((a, b) for a, b in key)) for key in mkeys]
        if all(fk in index_of for fk in fkeys) and len(mkeys) == len(obs["keys"]):
            # E3: Arr.select / sliceArrays vs numpy, for up to 3 slices
            for j in list(range(len(mkeys)))[:: max(1, len(mkeys) // 3)][:3]:
                real = tree.slice_arrays(arrays, index_of[fkeys[j]])
                m = drv.call("c06.slice_arrays", net=case["net"], sliced=r["sliced"],
                             sliced_inputs=r["inputs"], arrays=[to_arr(a) for a in arrays], i=j)
                if m.get("arrays") != [to_arr(a) for a in real]:
                    ok = False
                    notes.append("slice_arrays result (basic indexing model)")
                    break
            # E4: gather on per-key synthetic slices
            red_shape = tuple(net.sizes[ix] for ix in net.output if ix not in live)
            syn_real = [synth_slice(case["seed"], key, red_shape) for key in obs["keys"]]
            syn_model = [synth_slice(case["seed"], key, red_shape) for key in mkeys]
            real = tree.gather_slices(syn_real)
            g = drv.call("c06.gather", output=net.output, sliced=r["sliced"],
                         slices=[to_arr(a) for a in syn_model])
            if not g.get("ok") or g["result"] != to_arr(real):
                ok = False
                notes.append("gather_slices on synthetic slices")
            # E5: chunk table, fed with the same synthetic slices
            us = gen.unsym(net)

            real_chunks = {}
            orig = tree.contract_slice
            try:
                tree.contract_slice = lambda arrs, i, **kw: syn_real[i]
                for chunk, key in tree.gen_output_chunks(arrays, with_key=True):
                    fk = tuple(sorted((us[k], int(v)) for k, v in key.items()))
                    real_chunks[fk] = to_arr(chunk)
            finally:
                del tree.contract_slice
            assert tree.contract_slice.__func__ is orig.__func__
            ch = drv.call("c06.chunks", output=net.output, sliced=r["sliced"], mult=r["mult"],
                          slices=[to_arr(a) for a in syn_model])
            model_chunks = {}
            for row in ch.get("chunks", []):
                fk = tuple(sorted((a, b) for a, b in row["key"]))
                model_chunks[fk] = row["arr"]
            if model_chunks != real_chunks or len(ch.get("chunks", [])) != len(real_chunks):
                ok = False
                notes.append("gen_output_chunks table")
        else:
            ok = False
            notes.append("model keys are not the real keys as a set")
    ctx.traces += 1
    if not ok:
        ctx.corr_broken("model and implementation disagree on: " + "; ".join(notes), case)


def check_case(ctx, drv, case):
    try:
        obs, net, tree = observe(case)
    except Exception as e:  # the real code raised on a valid history
        ctx.case(case, nontrivial=True)
        kind = "exception:" + type(e).__name__
        ctx.violation({"site": "slicing", "kind": kind}, {"case": shrink(case, kind), "kind": kind,
                                                          "detail": str(e)[:200]},
                      "slicing API raised on a valid input: " + kind)
        return False
    live = {row[1]: row[3] for row in obs["sliced"]}
    for k in kinds_of(net, live):
        ctx.count("sliced-kind:" + k)
    for f in net.features():
        ctx.count("net-feature:" + f)
    ctx.count("n_sliced:%d" % len(live))
    ctx.count("n_sliced_outputs:%d" % sum(1 for ix in live if ix in net.output))
    ns = obs["nslices"]
    ctx.count("nslices:" + ("1" if ns == 1 else "2-4" if ns <= 4 else "5-16" if ns <= 16 else "17-64"
                            if ns <= 64 else ">64"))
    ctx.count("nchunks:" + ("1" if obs["nchunks"] == 1 else ">1"))
    ctx.count("slice_numbers_checked", ns)
    if case.get("touch"):
        ctx.count("used-between-steps")
    if case.get("bystander"):
        ctx.count("bystander-on-a-copy" + ("(sliced receiver)" if live else "(unsliced receiver)"))
    for e in obs["errors"]:
        ctx.count("op-result:" + (e or "ok"))
    for op in case["ops"]:
        ctx.count("op:" + op[0] + ("-project" if op[0] == "remove" and op[2] is not None else ""))
    nontrivial = ns >= 2 or any(p is not None for p in live.values())
    ctx.case(case, nontrivial=nontrivial)
    try:
        bad = oracle(case, obs, net, tree)
    except Exception as e:  # contract / gather_slices / gen_output_chunks raised
        bad = ("exception:" + type(e).__name__, str(e)[:200])
    if bad is not None:
        small = shrink(case, bad[0])
        ctx.violation({"site": "slicing", "kind": bad[0]}, {"case": small, "kind": bad[0], "detail": bad[1]},
                      "slicing / reassembly disagrees with the dense reference: " + bad[0])
        return False
    if drv is not None:
        correspond(ctx, drv, case, obs, net, tree)
    return True


def fails(case):
    try:
        obs, net, tree = observe(case, full=False)
        return oracle(case, obs, net, tree)
    except Exception as e:  # a crash of the real code on a valid input is a failure too
        return ("exception:" + type(e).__name__, str(e)[:200])


def shrink(case, kind):
    """greedy: drop history steps, lower dimensions, while the same kind of failure remains"""
    cur = json.loads(json.dumps(case))
    changed = True
    rounds = 0
    while changed and rounds < 20:
        changed = False
        rounds += 1
        for k in range(len(cur["ops"])):
            cand = json.loads(json.dumps(cur))
            del cand["ops"][k]
            f = fails(cand)
            if f is not None and f[0] == kind:
                cur, changed = cand, True
                break
        if changed:
            continue
        for k, (ix, d) in enumerate(cur["net"]["sizes"]):
            if d > 2:
                cand = json.loads(json.dumps(cur))
                cand["net"]["sizes"][k][1] = d - 1
                cand["ops"] = [op if not (op[0] == "remove" and op[1] == ix and op[2] is not None)
                               else ["remove", ix, min(op[2], d - 2)] for op in cand["ops"]]
                f = fails(cand)
                if f is not None and f[0] == kind:
                    cur, changed = cand, True
                    break
    return cur


def exhaustive_small(ctx, drv):
    """all ordered subsets (<= 3, slice or project) of the indices of a few fixed small networks"""
    nets = [
        gen.Net([[0, 1], [1, 2], [2, 3]], [3, 0], {0: 2, 1: 3, 2: 2, 3: 2}),
        gen.Net([[2, 0, 1], [0, 3], [0, 1]], [1, 0, 3], {0: 2, 1: 2, 2: 3, 3: 2}),
        gen.Net([[0, 0, 1], [1, 2], [3, 2]], [2, 3], {0: 2, 1: 2, 2: 3, 3: 1}),
    ]
    cnt = 0
    for net in nets:
        inds = net.indices()
        tree = gen.rand_tree(ctx.rng, len(net.inputs))
        for k in (1, 2, 3):
            for sub in itertools.permutations(inds, k):
                for mask in itertools.product([False, True], repeat=k):
                    if ctx.time_left() < 20:
                        return cnt, False
                    ops = [["remove", ix, (net.sizes[ix] - 1 if pr else None)] for ix, pr in zip(sub, mask)]
                    case = {"net": net.json(), "tree": tree, "ops": ops, "seed": 7}
                    check_case(ctx, drv, case)
                    cnt += 1
    return cnt, True


def run(ctx, drv):
    for path in sorted(glob.glob(os.path.join(common.VERIF, "corpus", PROP, "*.json"))):
        obj = json.load(open(path))
        case = obj.get("replay", obj)["case"]
        ctx.count("corpus")
        check_case(ctx, drv, case)
    if ctx.tier == "thorough":
        cnt, complete = exhaustive_small(ctx, drv)
        ctx.notes["exhaustive_ordered_subsets"] = {"cases": cnt, "complete": complete}
        ctx.exhaustive = complete
    ncases = 2500 if ctx.tier == "quick" else 60000
    for _ in range(ncases):
        if ctx.time_left() < 10:
            break
        check_case(ctx, drv, gen_case(ctx.rng, ctx.tier))


def search(ctx):
    for _ in range(4000):
        if ctx.time_left() < 5:
            break
        case = gen_case(ctx.rng, "thorough")
        f = fails(case)
        ctx.count("search-cases")
        if f is not None:
            small = shrink(case, f[0])
            ctx.violation({"site": "slicing", "kind": f[0]}, {"case": small, "kind": f[0], "detail": f[1]},
                          "slicing / reassembly disagrees with the dense reference: " + f[0])
            return True
    return False


def replay(ctx, obj):
    return fails(obj["case"]) is None
