"""C16 -- the path cache of the functional interface: tie of Model/ReuseIface.lean to /repo.

`cotengra.array_contract_path(inputs, output, size_dict, optimize=<string preset>, cache=True)`
from 1-3 threads.  For the duration of one run the module-level dict `interface._PATH_CACHE` is
replaced by a dict subclass that is a yield point of the thread controller after every lookup
(hit or `KeyError`) and after every store, so every interleaving of the lookups and stores of two
threads can be forced.  Compared with the driver op `c16.iface` (the very `ReuseIface.istep`):
per thread the answers (is the path a complete path of the query's contraction), the number of
`find_path` calls, which kind of access ended every segment of the schedule, and which
(contraction, preset) keys are cached at the end.  Oracle: every returned path is a complete
contraction path for the query's contraction and, for the deterministic stateless presets
('greedy', 'optimal'), the very path that preset finds for that contraction when asked on its own
with `cache=False`.
"""

import random
import threading
import warnings

import cotengra as ctg
from cotengra import interface as I

from . import c16 as B
from .c16_nest import valid_path

PRESETS = ("greedy", "optimal", "auto", "auto-hq")

# contraction identity as the interface sees it: the normalised (inputs, output, size_dict) triple
_CANON = {}


def cnet(nid, c=0):
    """model-side name of pool contraction `nid` asked with canonicalize=True (c=0) / False with
    hashable terms (c=1)"""
    n = B.POOL[nid]
    try:
        if c == 0:
            k = I.normalize_input(n.sym_inputs(), n.sym_output(), n.sym_sizes(), None, "greedy", True)[:3]
        else:
            k = I.normalize_input(tuple(n.sym_inputs()), n.sym_output(), n.sym_sizes(), None, "greedy", False)[:3]
        k = (tuple(map(tuple, k[0])), tuple(k[1]), tuple(sorted(dict(k[2]).items())))
    except Exception:
        k = ("pool", nid, c)
    return _CANON.setdefault(k, len(_CANON))


CNET = [cnet(i) for i in range(len(B.POOL))]


_REF = {}


def reference_path(nid, p, canon=True):
    """what the (stateless, deterministic) preset answers for this contraction when asked on its
    own, without the interface cache; None for the presets that search randomly"""
    if PRESETS[p] not in ("greedy", "optimal"):
        return None
    if (nid, p, canon) not in _REF:
        net = B.POOL[nid]
        _REF[(nid, p, canon)] = tuple(map(tuple, ctg.array_contract_path(
            net.sym_inputs(), net.sym_output(), net.sym_sizes(), optimize=PRESETS[p], cache=False,
            canonicalize=canon)))
    return _REF[(nid, p, canon)]


class PathCacheProxy(dict):
    def __init__(self):
        super().__init__()
        self.stored = set()

    def __getitem__(self, k):
        try:
            v = dict.__getitem__(self, k)
        except KeyError:
            rec = getattr(B._tls, "iface_rec", None)
            if rec is not None:
                rec["misses"] += 1
            B._yield("miss")
            raise
        B._yield("hit")
        return v

    def __setitem__(self, k, v):
        dict.__setitem__(self, k, v)
        cur = getattr(B._tls, "iface_cur", None)
        if cur is not None:
            self.stored.add(tuple(cur))
        B._yield("store")


def run_iface(programs, chooser=None, free=False):
    """programs: per thread a list of [pool id, preset index]"""
    n = len(programs)
    ctl = B.Controller(n, chooser or (lambda en, k: en[0]))
    ctl.free = free
    results = [[] for _ in range(n)]
    recs = [{"misses": 0} for _ in range(n)]
    proxy = PathCacheProxy()
    saved = I._PATH_CACHE
    I._PATH_CACHE = proxy

    def worker(i):
        B._tls.ctl, B._tls.idx = ctl, i
        B._tls.iface_rec = recs[i]
        try:
            ctl.start(i)
            for j, qq in enumerate(programs[i]):
                nid, p = qq[0], qq[1]
                c = qq[2] if len(qq) > 2 else 0
                net = B.POOL[nid]
                B._tls.iface_cur = (cnet(nid, 1 if c == 1 else 0), p)
                try:
                    with warnings.catch_warnings():
                        warnings.simplefilter("ignore")
                        ins = net.sym_inputs() if c != 1 else tuple(net.sym_inputs())
                        path = ctg.array_contract_path(ins, net.sym_output(), net.sym_sizes(),
                                                       optimize=PRESETS[p], cache=True, canonicalize=(c == 0))
                    ok = valid_path(path, len(net.inputs))
                    ref = reference_path(nid, p, c == 0)
                    if ok and ref is not None and tuple(map(tuple, path)) != ref:
                        ok = False     # a complete path, but not the one this preset finds for this contraction
                    results[i].append([nid, nid if ok else -1])
                except Exception as e:
                    results[i].append([nid, None, type(e).__name__])
                if j + 1 < len(programs[i]):
                    ctl.yield_(i)
        finally:
            B._tls.ctl = None
            B._tls.iface_rec = None
            B._tls.iface_cur = None
            ctl.finish(i)

    try:
        ths = [threading.Thread(target=worker, args=(i,), daemon=True) for i in range(n)]
        for t in ths:
            t.start()
        completed = True
        if not free:
            completed = ctl.drive()
        for t in ths:
            t.join(timeout=120)
    finally:
        I._PATH_CACHE = saved
    return {"results": results, "schedule": list(ctl.effective), "enabled": ctl.enabled_log, "blocked": ctl.degraded,
            "seg_labels": list(ctl.seg_labels), "misses": [r["misses"] for r in recs],
            "stored": sorted(proxy.stored), "completed": completed and all(not t.is_alive() for t in ths)}


def oracle(programs, obs):
    if not obs["completed"]:
        return ("threads-did-not-finish", obs["schedule"][-10:])
    for i, prog in enumerate(programs):
        if [r[0] for r in obs["results"][i]] != [q[0] for q in prog]:
            return ("missing-answers", [i, obs["results"][i]])
        for qq, r in zip(prog, obs["results"][i]):
            nid, p = qq[0], qq[1]
            if r[1] is None:
                return ("call-raised", {"thread": i, "asked": nid, "preset": PRESETS[p], "error": r[2]})
            if r[1] != nid:
                return ("path-of-another-contraction", {"thread": i, "asked": nid, "preset": PRESETS[p]})
    return None


def compare(drv, programs, obs):
    def mnet(qq):
        return cnet(qq[0], 1 if (len(qq) > 2 and qq[2] == 1) else 0)

    resp = drv.call("c16.iface", queues=[[[mnet(qq), qq[1]] for qq in prog] for prog in programs],
                    segments=[[t, l] for t, l in zip(obs["schedule"], obs["seg_labels"])],
                    probe=sorted({(mnet(qq), qq[1]) for prog in programs for qq in prog}))
    if "error" in resp:
        return "c16.iface driver error: " + resp["error"]
    if resp["mismatch"] is not None:
        m = resp["mismatch"]
        return (f"segment {m['segment']} of the schedule ended at {m['expected']!r} in the implementation, "
                f"the model's thread comes to {m['got']!r}")
    for i, th in enumerate(resp["threads"]):
        want = [[mnet(qq), mnet(qq) if r[1] is not None and r[1] >= 0 else r[1]]
                for qq, r in zip(programs[i], obs["results"][i])]
        if th["left"] != 0 or th["pc"] != "idle":
            return f"thread {i}: model has not finished its program"
        if [[q, p] for q, _, p in th["results"]] != want:
            return f"thread {i}: answers model {th['results']} vs implementation {want}"
        if th["ncalls"] != obs["misses"][i]:
            return f"thread {i}: find_path calls model {th['ncalls']} vs implementation {obs['misses'][i]}"
    cached = sorted([n, p] for n, p, v in resp["cached"] if v)
    if cached != [list(x) for x in obs["stored"]]:
        return f"cached keys model {cached} vs implementation {obs['stored']}"
    return None


def check(ctx, drv, programs, chooser, tag):
    obs = run_iface(programs, chooser)
    ctx.count(f"I:{tag}")
    ctx.count("I:hits", sum(1 for l in obs["seg_labels"] if l == "hit"))
    ctx.count("I:misses", sum(obs["misses"]))
    uncached = any(len(qq) > 2 and qq[2] == 2 for prog in programs for qq in prog)
    for prog in programs:
        for qq in prog:
            ctx.count("I:preset:" + PRESETS[qq[1]])
            ctx.count("I:canonicalize:" + ("True", "False", "False+unhashable")[qq[2] if len(qq) > 2 else 0])
    sw = sum(1 for a, b in zip(obs["schedule"], obs["schedule"][1:]) if a != b)
    case = {"kind": "iface", "programs": programs, "schedule": obs["schedule"]}
    ctx.case(case, nontrivial=(len(programs) > 1 and sw > 0) or any(len(p) > 1 for p in programs))
    bad = oracle(programs, obs)
    if bad is not None:
        ctx.violation({"site": "array_contract_path", "optimizer": "preset", "kind": bad[0]},
                      {"case": case, "failed": [bad[0], bad[1]]},
                      f"array_contract_path(cache=True): {bad[0]} {bad[1]}")
        return obs, False
    if obs.get("blocked"):
        ctx.count("runs_with_a_thread_blocked_outside_the_controller")
    elif drv is not None and not uncached:
        try:
            diff = compare(drv, programs, obs)
        except Exception as e:
            diff = f"comparison failed: {type(e).__name__}: {e}"
        ctx.traces += 1
        if diff:
            ctx.corr_broken("c16.iface: " + diff, case)
    return obs, True


def replay_case(case):
    sched = list(case.get("schedule") or [])

    def chooser(enabled, k):
        return sched[k] if k < len(sched) and sched[k] in enabled else enabled[0]

    obs = run_iface(case["programs"], chooser)
    bad = oracle(case["programs"], obs)
    return bad is None, ({"site": "array_contract_path", "optimizer": "preset", "kind": bad[0]} if bad else None), bad


def explore_all(ctx, drv, programs, max_runs, tag):
    prefix, runs = [], 0
    while True:
        if runs >= max_runs or ctx.time_left() < 20:
            return runs, False
        pf = list(prefix)

        def chooser(enabled, k, pf=pf):
            return enabled[pf[k]] if k < len(pf) and pf[k] < len(enabled) else enabled[0]

        obs, _ = check(ctx, drv, programs, chooser, tag)
        runs += 1
        pos = [en.index(ch) for en, ch in zip(obs["enabled"], obs["schedule"])]
        k = len(pos) - 1
        while k >= 0 and pos[k] + 1 >= len(obs["enabled"][k]):
            k -= 1
        if k < 0:
            return runs, True
        prefix = pos[:k] + [pos[k] + 1]


def run(ctx, drv):
    quick = ctx.tier == "quick"
    rng = ctx.rng
    notes = []
    ex = [[[[3, 0]], [[3, 0]]], [[[6, 0], [4, 0]], [[4, 0]]], [[[3, 2]], [[3, 2]]]]
    if not quick:
        ex += [[[[3, 0], [4, 0]], [[4, 0], [3, 0]]], [[[3, 2]], [[3, 2]], [[0, 1]]]]
    for programs in ex:
        runs, complete = explore_all(ctx, drv, programs, 200 if quick else 5000, "exhaustive")
        notes.append({"programs": programs, "interleavings": runs, "complete": complete})
    ctx.notes["iface_exhaustive_interleavings"] = notes
    for _ in range(80 if quick else 1200):
        if ctx.time_left() < 45:
            break
        style = rng.choice([0, 0, 0, 1, 1, 2])      # canonicalize: True / mixed with False / unhashable terms
        programs = [[[rng.choice([0, 1, 2, 3, 3, 4, 4, 6, 6, 7]), rng.choice([0, 0, 1, 2, 3]),
                      0 if style == 0 else (rng.choice([0, 1]) if style == 1 else 2)]
                     for _ in range(rng.randint(1, 3))] for _ in range(rng.choice([1, 2, 2, 3]))]
        r2 = random.Random(rng.randrange(1 << 30))
        check(ctx, drv, programs, lambda en, k, r2=r2: r2.choice(en), "random")


def search(ctx):
    """Implementation-only: programs over pairs of contractions of equal size through the cache."""
    rng = ctx.rng
    for i in range(300):
        if ctx.time_left() < 10:
            return False
        programs = [[[rng.choice([3, 4, 4, 5, 6, 6, 7, 0, 1]), rng.choice([0, 0, 1, 2])] for _ in range(rng.randint(2, 4))]
                    for _ in range(rng.choice([1, 2]))]
        r2 = random.Random(rng.randrange(1 << 30))
        obs = run_iface(programs, lambda en, k: r2.choice(en))
        bad = oracle(programs, obs)
        if bad is not None:
            case = {"kind": "iface", "programs": programs, "schedule": obs["schedule"]}
            return bool(ctx.violation({"site": "array_contract_path", "optimizer": "preset", "kind": bad[0],
                                       "found_by": "search"}, {"case": case, "failed": [bad[0], bad[1]]},
                                      f"failing input found by search: array_contract_path(cache=True): {bad[0]} {bad[1]}"))
    return False
