"""Independent references that use nothing from cotengra and no numpy.einsum.

  dense_einsum   -- nested-loop einsum over Python ints / Fractions (exact)
  spec_costs     -- cost figures of a tree recomputed from the network alone (leaf-set rule)
"""

import itertools


def dense_einsum(inputs, output, sizes, arrays, fixed=None):
    """inputs: list of index lists, output: index list, sizes: dict, arrays: nested lists or
    numpy arrays (indexed with tuples). `fixed` pins some indices to values.
    Returns (shape, flat dict position->value) as a nested list in output order."""
    fixed = fixed or {}
    inds = []
    for t in inputs:
        for i in t:
            if i not in inds:
                inds.append(i)
    for i in output:
        if i not in inds:
            inds.append(i)
    ranges = [([fixed[i]] if i in fixed else range(sizes[i])) for i in inds]
    oshape = tuple((1 if i in fixed else sizes[i]) for i in output)
    res = {}
    pos = {i: k for k, i in enumerate(inds)}
    for assign in itertools.product(*ranges):
        v = 1
        for t, a in zip(inputs, arrays):
            v = v * a[tuple(assign[pos[i]] for i in t)] if len(t) else v * a[()]
            if v == 0:
                break
        if v != 0:
            key = tuple((0 if i in fixed else assign[pos[i]]) for i in output)
            res[key] = res.get(key, 0) + v
    return oshape, res


def dense_to_nested(oshape, res):
    def build(prefix, dims):
        if not dims:
            return res.get(tuple(prefix), 0)
        return [build(prefix + [k], dims[1:]) for k in range(dims[0])]
    return build([], list(oshape))


def tree_leafset(t):
    if isinstance(t, int):
        return [t]
    return tree_leafset(t[0]) + tree_leafset(t[1])


def spec_costs(net, tree, removed=(), sliced=()):
    """From-scratch figures by the definition in C03, from the network alone.
    removed: all sliced or projected indices; sliced: those that multiply the slice count.
    Returns dict with per-node rows (children first) and totals."""
    removed = set(removed)

    def term(i):
        return [ix for ix in net.inputs[i] if ix not in removed]

    def app(ix):
        return sum(t.count(ix) for t in net.inputs) + net.output.count(ix)

    n = len(net.inputs)

    def survivors(leaves):
        if len(leaves) == n and n > 1:
            return {ix for ix in net.output if ix not in removed}
        c = {}
        for i in leaves:
            for ix in term(i):
                c[ix] = c.get(ix, 0) + 1
        return {ix for ix, k in c.items() if k < app(ix)}

    def prod(s):
        p = 1
        for ix in s:
            p *= net.sizes[ix]
        return p

    rows = []

    def go(t):
        ls = tree_leafset(t)
        if isinstance(t, int):
            s = survivors(ls)
            rows.append({"leaves": sorted(ls), "legs": sorted(s), "involved": [], "size": prod(s),
                         "flops": 0})
            return s
        sl, sr = go(t[0]), go(t[1])
        s = survivors(ls)
        inv = sl | sr
        rows.append({"leaves": sorted(ls), "legs": sorted(s), "involved": sorted(inv),
                     "size": prod(s), "flops": prod(inv)})
        return s

    go(tree)
    mult = 1
    for ix in sliced:
        mult *= net.sizes[ix]
    internal = [r for r in rows if len(r["leaves"]) > 1]
    return {
        "rows": rows,
        "flops": mult * sum(r["flops"] for r in internal),
        "write": mult * sum(r["size"] for r in internal),
        "size": max([r["size"] for r in internal], default=None),
        "mult": mult,
    }
