"""C05 -- what every registered preset name is bound to (source-derived facts).

The table is read off the *live* registry (`cotengra.interface._PRESETS_PATH / _PRESETS_TREE`, filled by
cotengra/__init__.py, presets.py, pathfinders/path_random.py and whatever module registers a preset) of
the checkout under test, so a newly registered or re-registered name is covered without a list here:

  preset, route ("path" | "tree"), kind, target, shared
    kind = "function" | "partial"  -- a plain function (or functools.partial of one): `target` is
                                      module.qualname, `shared` the module-level optimizer *instances*
                                      its code refers to (none = it can only build its optimizer inside
                                      the call)
         = "instance" | "method"   -- one module-level object (or a bound method of one) serving every
                                      call: `target` is its class

and for every such class the attributes *carried* from one call to the next: stored through `self`
on the query path (`__call__`, `search`, `ssa_path` and the `self.m()` they reach, over the MRO) and
read back there. A counter that is only ever written is not carried; `best_ssa_path` is.
"""

import ast
import functools
import inspect
import json
import textwrap
import types

QUERY_ENTRY = ("__call__", "search", "ssa_path")
MUTATORS = ("append", "update", "setdefault", "pop", "clear", "add", "extend", "remove", "insert",
            "popitem", "discard")


def _is_self_attr(n):
    return isinstance(n, ast.Attribute) and isinstance(n.value, ast.Name) and n.value.id == "self"


def _ident_names(fn):
    names = set()
    for n in ast.walk(fn):
        if isinstance(n, ast.Assign) and isinstance(n.value, ast.Call):
            f = n.value.func
            if isinstance(f, ast.Attribute) and f.attr == "get_ident":
                for t in n.targets:
                    if isinstance(t, ast.Name):
                        names.add(t.id)
    return names


def _method_facts(fn):
    """-> (stores {attr: descriptor}, loads {attr}, self-calls {method})"""
    idents = _ident_names(fn)
    stores, loads, calls = {}, set(), set()
    bases_of_stores = set()

    def key_desc(sl):
        if isinstance(sl, ast.Name):
            return "<ident>" if sl.id in idents else sl.id
        if isinstance(sl, ast.Constant):
            return repr(sl.value)
        return "<expr>"

    def add_target(t):
        if isinstance(t, (ast.Tuple, ast.List)):
            for e in t.elts:
                add_target(e)
        elif _is_self_attr(t):
            stores.setdefault(t.attr, "self." + t.attr)
        elif isinstance(t, ast.Subscript) and _is_self_attr(t.value):
            stores[t.value.attr] = "self.%s[%s]" % (t.value.attr, key_desc(t.slice))
            bases_of_stores.add(id(t.value))

    for n in ast.walk(fn):
        if isinstance(n, ast.Assign):
            for t in n.targets:
                add_target(t)
        elif isinstance(n, (ast.AugAssign, ast.AnnAssign)):
            add_target(n.target)
        elif isinstance(n, ast.Call) and isinstance(n.func, ast.Attribute):
            v = n.func.value
            if _is_self_attr(v) and n.func.attr in MUTATORS:
                stores.setdefault(v.attr, "self.%s.%s()" % (v.attr, n.func.attr))
                bases_of_stores.add(id(v))
            if isinstance(v, ast.Name) and v.id == "self":
                calls.add(n.func.attr)
    for n in ast.walk(fn):
        if _is_self_attr(n) and isinstance(n.ctx, ast.Load) and id(n) not in bases_of_stores:
            loads.add(n.attr)
    return stores, loads, calls


def class_carried(cls):
    """sorted descriptors of the attributes carried between calls by instances of `cls`"""
    methods = {}
    for k in reversed(cls.__mro__):
        if not getattr(k, "__module__", "").startswith("cotengra"):
            continue
        try:
            tree = ast.parse(textwrap.dedent(inspect.getsource(k)))
        except (OSError, TypeError, SyntaxError):
            continue
        cdef = next((n for n in tree.body if isinstance(n, ast.ClassDef)), None)
        if cdef is None:
            continue
        for n in cdef.body:
            if isinstance(n, (ast.FunctionDef, ast.AsyncFunctionDef)):
                methods[n.name] = n           # later (more derived) definitions win
    todo = [m for m in QUERY_ENTRY if m in methods]
    seen = set()
    stores, loads = {}, set()
    while todo:
        m = todo.pop()
        if m in seen:
            continue
        seen.add(m)
        st, ld, calls = _method_facts(methods[m])
        for a, d in st.items():
            stores.setdefault(a, d)
        loads |= ld
        todo += [c for c in calls if c in methods and c not in seen]
    return sorted(d for a, d in stores.items() if a in loads), sorted(seen)


def _code_names(code):
    names = set(code.co_names)
    for c in code.co_consts:
        if isinstance(c, types.CodeType):
            names |= _code_names(c)
    return names


def _optimizer_like(v):
    if isinstance(v, (types.ModuleType, type, types.FunctionType, types.BuiltinFunctionType,
                      types.MethodType, functools.partial, str, bytes, int, float, tuple, frozenset,
                      bool, type(None))):
        return False
    return callable(v) or hasattr(v, "search")


def _stored_globals(code):
    import dis
    out = {i.argval for i in dis.get_instructions(code) if i.opname in ("STORE_GLOBAL", "DELETE_GLOBAL")}
    for c in code.co_consts:
        if isinstance(c, types.CodeType):
            out |= _stored_globals(c)
    return out


def function_shared(fn):
    """what a function could keep between calls: module-level optimizer instances its code refers to
    (name:Class), module globals it assigns (global:name), optimizer instances in its closure"""
    out = []
    g = getattr(fn, "__globals__", {})
    for nm in sorted(_code_names(fn.__code__)):
        if nm in g and _optimizer_like(g[nm]):
            out.append("%s:%s" % (nm, type(g[nm]).__name__))
        elif nm in g and isinstance(g[nm], (dict, list, set)) and not nm.startswith("__"):
            out.append("container:%s" % nm)       # a module-level mutable table: a place to keep optimizers
    out += ["global:" + nm for nm in sorted(_stored_globals(fn.__code__))]
    for cell in (fn.__closure__ or ()):
        try:
            v = cell.cell_contents
        except ValueError:
            continue
        if _optimizer_like(v):
            out.append("closure:" + type(v).__name__)
    return out


def describe(obj):
    """-> (kind, target, shared, class or None)"""
    if isinstance(obj, functools.partial):
        f = obj.func
        while isinstance(f, functools.partial):
            f = f.func
        k, t, s, c = describe(f)
        return ("partial" if k == "function" else k), t, s, c
    if isinstance(obj, types.FunctionType):
        return "function", "%s.%s" % (obj.__module__.split(".")[-1], obj.__qualname__), function_shared(obj), None
    if isinstance(obj, types.MethodType):
        c = type(obj.__self__)
        return "method", c.__name__, [], c
    if isinstance(obj, type):
        return "class", obj.__name__, [], None
    c = type(obj)
    return "instance", c.__name__, [], c


def registry():
    from cotengra import interface as I
    names = list(dict.fromkeys(list(I._PRESETS_PATH) + list(I._PRESETS_TREE)))
    return names, I._PRESETS_PATH, I._PRESETS_TREE, set(I._COMPRESSED_PRESETS)


def extract():
    names, ppath, ptree, _ = registry()
    rows, classes = [], {}
    for name in names:
        for route, reg in (("path", ppath), ("tree", ptree)):
            if name not in reg:
                continue
            kind, target, shared, cls = describe(reg[name])
            rows.append((name, route, kind, target, shared))
            if cls is not None:
                classes.setdefault(cls.__name__, cls)
    carried = {}
    reached = {}
    for cname, cls in sorted(classes.items()):
        carried[cname], reached[cname] = class_carried(cls)
    return {"rows": rows, "carried": carried, "reached": reached}


def lean_source(f):
    def s(x):
        return json.dumps(x, ensure_ascii=True)

    def lst(xs):
        return "[" + ", ".join(s(x) for x in xs) + "]"

    rows = ",\n  ".join("(%s, %s, %s, %s, %s)" % (s(a), s(b), s(c), s(d), lst(e)) for a, b, c, d, e in f["rows"])
    carried = ",\n  ".join("(%s, %s)" % (s(k), lst(v)) for k, v in sorted(f["carried"].items()))
    return f"""-- GENERATED by harness/c05.py (gen_facts, harness/c05_presets.py) from the live preset registry
-- (cotengra.interface._PRESETS_PATH / _PRESETS_TREE) and the source of the classes found in it, on
-- every run of ./check C05. Do not edit.
namespace Cotengra.Generated.C05

/-- (preset, route, kind, target, module-level optimizer instances the function refers to) -/
def presetBindings : List (String × String × String × String × List String) := [
  {rows}]

/-- class of a registered instance -> attributes stored through `self` on the query path
    (`__call__ / search / ssa_path` and the methods they reach) and read back there -/
def classCarried : List (String × List String) := [
  {carried}]

end Cotengra.Generated.C05
"""
